# /verif framework build: Java overrides for TLC, syntax check of every specification, binding self-tests.
.PHONY: setup java sany selftest manifest extras sweep
setup: java sany selftest
java:
	mkdir -p build/java
	javac -cp /opt/veriftools/tla/tla2tools.jar -d build/java java/VOverrides.java java/VTLCOverrides.java
sany:
	python3 tools/sany_all.py
selftest:
	python3 tools/selftest.py
manifest:
	python3 tools/mkmanifest.py
# specifications beyond the listed properties (not in MANIFEST.json): evidence goes to evidence-extra/
extras:
	bin/check X01
	bin/check X02
	bin/check X03
	bin/check X04
# every seeded change against the check that is expected to detect it (about an hour)
sweep:
	python3 tools/seedsweep.py -j 3
