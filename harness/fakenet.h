/*
 * Scripted sockets on top of the fake kernel (include after fakekernel.h):
 * recv/send/socket/connect/getsockopt/accept/close are interposed with
 * -Wl,--wrap; every call is answered from a per-descriptor answer list chosen
 * by the program and logged.  Readiness is asserted exactly while the head of
 * the corresponding list is available (its arrival time has come), so a
 * spurious wake-up followed by EAGAIN is expressible but the environment can
 * never claim readiness for ever without an answer.
 */
#ifndef FAKENET_H_
#define FAKENET_H_
#include <netinet/in.h>
#include <stdint.h>

#include "allocwrap.h"

#define FN_DATA 0
#define FN_EAGAIN 1
#define FN_EINTR 2
#define FN_EOF 3
#define FN_ERR 4
#define FN_MAXANS 70000
struct fn_ans { int kind; long n; int err; long long at; };
struct fn_list { struct fn_ans * a; int n, h; };
struct fn_fd {
	struct fn_list rx, tx, ax;	/* recv answers, send answers, accept answers */
	long long rpos, wpos;		/* stream offsets */
	const uint8_t * content;	/* optional explicit inbound content */
	size_t contentlen;
	uint8_t * sent;			/* optional capture of outbound bytes */
	size_t sentlen, sentcap;
	int capture;
	int txstream;			/* outbound bytes are checked against the stream pattern by offset */
	int connecting;			/* 1: connect in progress */
	long long conn_at;		/* when it completes (-1 never) */
	int conn_err;			/* SO_ERROR at completion */
	int addr;			/* address index this socket was connected to (-1) */
	int closed;
	int hup_on_eof;			/* report POLLHUP together with the EOF answer */
	int lowat;			/* SO_RCVLOWAT set on this socket (0/1: the default) - a property of the kernel socket that outlives requests */
};
static struct fn_fd fn_fds[FK_MAXFD];

/* registered request buffers, so that calls can be attributed */
struct fn_buf { const uint8_t * base; size_t len; int req; };
static struct fn_buf fn_bufs[1024];
static int fn_nbufs;

static inline void
fn_register_buf(const uint8_t * base, size_t len, int req)
{

	if (fn_nbufs < 1024) { fn_bufs[fn_nbufs].base = base; fn_bufs[fn_nbufs].len = len; fn_bufs[fn_nbufs].req = req; fn_nbufs++; }
}
static inline int
fn_find_buf(const void * p, long * off)
{
	int i;

	for (i = fn_nbufs - 1; i >= 0; i--)
		if ((const uint8_t *)p >= fn_bufs[i].base && (const uint8_t *)p <= fn_bufs[i].base + fn_bufs[i].len) {
			*off = (long)((const uint8_t *)p - fn_bufs[i].base);
			return (fn_bufs[i].req);
		}
	*off = -1;
	return (0);
}

static inline uint8_t fn_rxbyte(int lfd, long long o)
{
	struct fn_fd * F = &fn_fds[lfd];
	if (F->content != NULL)
		return ((size_t)o < F->contentlen ? F->content[o] : 0);
	return ((uint8_t)((o * 7 + lfd * 13 + 1) % 251));
}
static inline uint8_t fn_txstream(long long o) { return ((uint8_t)((o * 11 + 3) % 251)); }
static inline uint8_t fn_txbyte(int req, long long o) { return ((uint8_t)((o * 11 + req * 5 + 3) % 251)); }

static inline void
fn_push(struct fn_list * L, int kind, long n, int err, long long at)
{

	if (L->a == NULL)
		L->a = __real_calloc(FN_MAXANS, sizeof(struct fn_ans));
	if (L->n < FN_MAXANS) {
		L->a[L->n].kind = kind; L->a[L->n].n = n; L->a[L->n].err = err; L->a[L->n].at = at; L->n++;
	}
}
static inline struct fn_ans *
fn_head(struct fn_list * L)
{

	return ((L->h < L->n && L->a[L->h].at <= fk_clock_us) ? &L->a[L->h] : NULL);
}

int __real_setsockopt(int, int, int, const void *, socklen_t);
int __wrap_setsockopt(int, int, int, const void *, socklen_t);
int
__wrap_setsockopt(int fd, int level, int opt, const void * val, socklen_t len)
{
	int lfd = fk_logical(fd);

	if (lfd < 0)
		return (__real_setsockopt(fd, level, opt, val, len));
	if (level == SOL_SOCKET && opt == SO_RCVLOWAT && val != NULL && len >= (socklen_t)sizeof(int))
		fn_fds[lfd].lowat = *(const int *)val;
	return (0);
}

static int
fn_ready(int lfd)
{
	struct fn_fd * F = &fn_fds[lfd];
	struct fn_ans * a;
	int fl = fk_ready[lfd];		/* explicit extra flags (ERR/HUP experiments) */

	if (F->closed)
		return (0);
	if ((a = fn_head(&F->rx)) != NULL) {
		if (F->lowat > 1) {
			/* readable only once that many bytes are there (or the stream has ended / failed) */
			long avail = 0;
			int k, forced = 0;
			for (k = F->rx.h; k < F->rx.n && F->rx.a[k].at <= fk_clock_us; k++) {
				if (F->rx.a[k].kind == FN_DATA) avail += F->rx.a[k].n;
				else if (F->rx.a[k].kind == FN_EOF || F->rx.a[k].kind == FN_ERR) { forced = 1; break; }
			}
			if (avail >= F->lowat || forced) fl |= FK_IN;
		} else
			fl |= FK_IN;
		if (a->kind == FN_EOF && F->hup_on_eof) fl |= FK_HUP;
	}
	if (fn_head(&F->ax) != NULL) fl |= FK_IN;
	if (fn_head(&F->tx) != NULL && !F->connecting) fl |= FK_OUT;
	if (F->connecting && F->conn_at >= 0 && F->conn_at <= fk_clock_us) {
		fl |= FK_OUT;
		if (F->conn_err) fl |= FK_ERR | FK_HUP;
	}
	return (fl);
}

static long long
fn_next(void)
{
	long long t = -1;
	int i;

	for (i = 0; i < fk_n; i++) {
		struct fn_fd * F = &fn_fds[i];
		struct fn_list * Ls[3] = { &F->rx, &F->tx, &F->ax };
		int k;
		if (F->closed) continue;
		for (k = 0; k < 3; k++)
			if (Ls[k]->h < Ls[k]->n && Ls[k]->a[Ls[k]->h].at > fk_clock_us &&
			    (t < 0 || Ls[k]->a[Ls[k]->h].at < t))
				t = Ls[k]->a[Ls[k]->h].at;
		if (F->connecting && F->conn_at > fk_clock_us && (t < 0 || F->conn_at < t))
			t = F->conn_at;
	}
	return (t);
}

static inline void
fn_init(void)
{

	fk_ready_fn = fn_ready;
	fk_next_fn = fn_next;
}

static inline const char *
fn_kindname(int k)
{
	static const char * names[] = { "DATA", "EAGAIN", "EINTR", "EOF", "ERR" };
	return (names[k]);
}

ssize_t __wrap_recv(int, void *, size_t, int);
ssize_t
__wrap_recv(int fd, void * buf, size_t len, int flags)
{
	int lfd = fk_logical(fd);
	struct fn_fd * F;
	struct fn_ans * a;
	long off = -1, ret;
	int req, e = 0, kind;

	req = fn_find_buf(buf, &off);
	if (lfd < 0) { errno = EBADF; return (-1); }
	F = &fn_fds[lfd];
	a = fn_head(&F->rx);
	if (a == NULL) {
		kind = FN_EAGAIN; ret = -1; e = EAGAIN;		/* not ready: plain would-block, consumes nothing */
	} else {
		kind = a->kind;
		switch (kind) {
		case FN_DATA: {
			long n = a->n < (long)len ? a->n : (long)len, i;
			for (i = 0; i < n; i++) ((uint8_t *)buf)[i] = fn_rxbyte(lfd, F->rpos + i);
			F->rpos += n; ret = n;
			a->n -= n;
			if (a->n <= 0) F->rx.h++;
			break;
		}
		case FN_EAGAIN: ret = -1; e = (a->err ? a->err : EAGAIN); F->rx.h++; break;
		case FN_EINTR: ret = -1; e = EINTR; F->rx.h++; break;
		case FN_EOF: ret = 0; break;			/* end-of-stream is sticky */
		default: ret = -1; e = a->err ? a->err : ECONNRESET; break;	/* hard errors are sticky */
		}
	}
	vt_begin("recv"); vt_int("fd", lfd); vt_int("req", req); vt_int("off", off); vt_int("len", (long long)len);
	vt_int("flags", flags); vt_int("ret", ret); vt_str("ans", a == NULL ? "NOTREADY" : fn_kindname(kind)); vt_int("errno", e);
	vt_int("spos", F->rpos - (ret > 0 ? ret : 0)); vt_end();
	if (ret < 0) errno = e;
	return (ret);
}

ssize_t __wrap_send(int, const void *, size_t, int);
ssize_t
__wrap_send(int fd, const void * buf, size_t len, int flags)
{
	int lfd = fk_logical(fd);
	struct fn_fd * F;
	struct fn_ans * a;
	long off = -1, ret;
	int req, e = 0, kind, dataok = 1;

	req = fn_find_buf(buf, &off);
	if (lfd < 0) { errno = EBADF; return (-1); }
	F = &fn_fds[lfd];
	a = fn_head(&F->tx);
	if (a == NULL) {
		kind = FN_EAGAIN; ret = -1; e = EAGAIN;
	} else {
		kind = a->kind;
		switch (kind) {
		case FN_DATA: {
			long n = a->n < (long)len ? a->n : (long)len, i;
			if (F->capture) {
				if (F->sentlen + (size_t)n > F->sentcap) {
					F->sentcap = (F->sentlen + (size_t)n) * 2 + 4096;
					F->sent = __real_realloc(F->sent, F->sentcap);
				}
				memcpy(F->sent + F->sentlen, buf, (size_t)n);
				F->sentlen += (size_t)n;
			} else if (F->txstream) {
				for (i = 0; i < n; i++)
					if (((const uint8_t *)buf)[i] != fn_txstream(F->wpos + i)) dataok = 0;
			} else if (req > 0) {
				for (i = 0; i < n; i++)
					if (((const uint8_t *)buf)[i] != fn_txbyte(req, off + i)) dataok = 0;
			}
			F->wpos += n; ret = n;
			a->n -= n;
			if (a->n <= 0) F->tx.h++;
			break;
		}
		case FN_EAGAIN: ret = -1; e = (a->err ? a->err : EAGAIN); F->tx.h++; break;
		case FN_EINTR: ret = -1; e = EINTR; F->tx.h++; break;
		default: ret = -1; e = a->err ? a->err : EPIPE; break;
		}
	}
	vt_begin("send"); vt_int("fd", lfd); vt_int("req", req); vt_int("off", off); vt_int("len", (long long)len);
	vt_bool("nosignal", (flags & MSG_NOSIGNAL) != 0); vt_int("ret", ret);
	vt_str("ans", a == NULL ? "NOTREADY" : fn_kindname(kind)); vt_int("errno", e);
	vt_bool("dataok", dataok);
	if (ret > 0 && ret <= 64) vt_hex("data", buf, (size_t)ret);
	vt_int("spos", F->wpos - (ret > 0 ? ret : 0)); vt_end();
	if (ret < 0) errno = e;
	return (ret);
}

/* ---- connect / accept ---- */
struct fn_addrplan { int kind; long long t; };	/* kind: 'F','S','O','P','R','N','I' */
static struct fn_addrplan fn_plan[64];
static int fn_nplan;
static int fn_attempt;		/* index of the address whose attempt comes next */
static int fn_last_socket = -1;

/* template applied to every socket created by socket(): answer lists with times relative to its creation */
static struct fn_fd fn_template;
static int fn_use_template;
static inline void
fn_template_apply(int lfd)
{
	struct fn_fd * F = &fn_fds[lfd];
	struct fn_list * src[2] = { &fn_template.rx, &fn_template.tx };
	struct fn_list * dst[2] = { &F->rx, &F->tx };
	int k, i;

	for (k = 0; k < 2; k++) {
		dst[k]->n = src[k]->n; dst[k]->h = 0;
		dst[k]->a = __real_calloc((size_t)(src[k]->n + 1), sizeof(struct fn_ans));
		for (i = 0; i < src[k]->n; i++) {
			dst[k]->a[i] = src[k]->a[i];
			dst[k]->a[i].at += fk_clock_us;
		}
	}
	F->content = fn_template.content; F->contentlen = fn_template.contentlen;
	F->capture = fn_template.capture; F->hup_on_eof = fn_template.hup_on_eof;
}

int __wrap_socket(int, int, int);
int
__wrap_socket(int domain, int type, int protocol)
{
	int lfd;

	(void)domain; (void)type; (void)protocol;
	if (fn_attempt < fn_nplan && fn_plan[fn_attempt].kind == 'S') {
		fn_attempt++;
		vt_begin("socket"); vt_int("fd", -1); vt_end();
		errno = EMFILE;
		return (-1);
	}
	lfd = fk_open();
	memset(&fn_fds[lfd], 0, sizeof(struct fn_fd));
	fn_fds[lfd].addr = -1;
	fn_last_socket = lfd;
	if (fn_use_template)
		fn_template_apply(lfd);
	vt_begin("socket"); vt_int("fd", lfd); vt_end();
	return (fk_real(lfd));
}


int __wrap_connect(int, const struct sockaddr *, socklen_t);
int
__wrap_connect(int fd, const struct sockaddr * sa, socklen_t salen)
{
	int lfd = fk_logical(fd), addr = -1, ret = 0, e = 0;
	const struct sockaddr_in * sin = (const struct sockaddr_in *)sa;
	struct fn_fd * F;

	(void)salen;
	if (sa->sa_family == AF_INET)
		addr = ntohs(sin->sin_port) - 10000;
	if (lfd < 0 || addr < 0 || addr >= fn_nplan) { errno = EBADF; return (-1); }
	F = &fn_fds[lfd];
	F->addr = addr;
	switch (fn_plan[addr].kind) {
	case 'F': ret = -1; e = ECONNREFUSED; break;
	case 'O': ret = 0; F->connecting = 1; F->conn_at = fk_clock_us; F->conn_err = 0; break;
	case 'P': ret = -1; e = EINPROGRESS; F->connecting = 1; F->conn_at = fk_clock_us + fn_plan[addr].t; F->conn_err = 0; break;
	case 'R': ret = -1; e = EINPROGRESS; F->connecting = 1; F->conn_at = fk_clock_us + fn_plan[addr].t; F->conn_err = ECONNREFUSED; break;
	case 'N': ret = -1; e = EINPROGRESS; F->connecting = 1; F->conn_at = -1; break;
	case 'I': ret = -1; e = EINTR; F->connecting = 1; F->conn_at = fk_clock_us + fn_plan[addr].t; F->conn_err = 0; break;
	default: ret = -1; e = ECONNREFUSED; break;
	}
	vt_begin("connect_call"); vt_int("fd", lfd); vt_int("addr", addr); vt_int("ret", ret); vt_int("errno", e);
	FK_CLOCK("c", fk_clock_us); vt_end();
	fn_attempt = addr + 1;
	if (ret) errno = e;
	return (ret);
}

int __wrap_getsockopt(int, int, int, void *, socklen_t *);
int
__wrap_getsockopt(int fd, int level, int name, void * val, socklen_t * len)
{
	int lfd = fk_logical(fd);

	(void)level; (void)name;
	if (lfd < 0) { errno = EBADF; return (-1); }
	*(int *)val = fn_fds[lfd].conn_err;
	*len = sizeof(int);
	/* premature: asked for the outcome of an attempt that the kernel has not reported as finished (SO_ERROR is 0 until then) */
	vt_begin("getsockopt"); vt_int("fd", lfd); vt_int("err", fn_fds[lfd].conn_err);
	vt_bool("premature", fn_fds[lfd].connecting && fk_clock_us < fn_fds[lfd].conn_at); vt_end();
	if (fn_fds[lfd].conn_err == 0)
		fn_fds[lfd].connecting = 0;	/* connected: from now on writable according to its tx list */
	return (0);
}

int __real_close(int);
int __wrap_close(int);
int
__wrap_close(int fd)
{
	int lfd = fk_logical(fd);

	if (lfd >= 0) {
		fn_fds[lfd].closed = 1;
		vt_begin("close"); vt_int("fd", lfd); vt_end();
		return (0);	/* keep the descriptor number reserved so that it is never reused within an execution */
	}
	return (__real_close(fd));
}

int __wrap_accept(int, struct sockaddr *, socklen_t *);
int
__wrap_accept(int fd, struct sockaddr * sa, socklen_t * salen)
{
	int lfd = fk_logical(fd), ret = -1, e = 0, nfd = -1;
	struct fn_ans * a;

	(void)sa; (void)salen;
	if (lfd < 0) { errno = EBADF; return (-1); }
	a = fn_head(&fn_fds[lfd].ax);
	if (a == NULL) {
		e = EAGAIN;
	} else {
		switch (a->kind) {
		case FN_DATA:
			nfd = fk_open();
			memset(&fn_fds[nfd], 0, sizeof(struct fn_fd));
			fn_fds[nfd].addr = -1;
			ret = fk_real(nfd);
			break;
		case FN_EAGAIN: e = a->err ? a->err : EAGAIN; break;
		case FN_EINTR: e = EINTR; break;
		default: e = a->err ? a->err : EMFILE; break;
		}
		if (a->kind != FN_ERR)
			fn_fds[lfd].ax.h++;
	}
	vt_begin("accept_call"); vt_int("fd", lfd); vt_int("newfd", nfd); vt_int("errno", e);
	vt_str("ans", a == NULL ? "NOTREADY" : fn_kindname(a->kind)); vt_end();
	if (ret < 0) errno = e;
	return (ret);
}
#endif
