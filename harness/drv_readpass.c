/*
 * Conformance driver for util/readpass.c (extra X03).  One readpass() call per program, in a forked child, with every
 * system / library call the function makes replaced by a recorder backed by a scripted environment:
 *   rp DEV CONF STDIN_TTY TTYOPEN TTY_TTY TCGETOK TCSETOK     the call and the environment's answers
 *   stdin HEX|-     tty HEX|-                                 what the two streams hold
 *   rd N SIG[,SIG..]|- r|e                                     during the N-th read: signals that arrive; e = the read fails
 *   go                                                         make the call described so far (several per program: same process)
 * fopen("/dev/tty"), isatty, tcgetattr, tcsetattr (a fake terminal with its own settings per stream), fgets (the real one, on
 * real files), sigaction (the 9 installs / restores are reported as one event each when complete), raise, fclose.  The caller's
 * own handlers for the 9 signals record what reaches them.  stderr is captured and cut into prompt / confirmation prompt /
 * mismatch notice / warning line.
 */
#include <sys/types.h>
#include <sys/wait.h>

#include <errno.h>
#include <fcntl.h>
#include <signal.h>
#include <stdint.h>
#include <stdarg.h>
#include <stdio.h>
#include <stdlib.h>
#include <string.h>
#include <termios.h>
#include <unistd.h>

#include "readpass.h"
#include "warnp.h"

static int tfd = -1, efd = -1;
static off_t eoff;
static char obuf[1 << 16];
static size_t olen;

static void
oflush(void)
{
	size_t o = 0;
	ssize_t w;

	while (o < olen) {
		if ((w = write(tfd, obuf + o, olen - o)) <= 0) _exit(4);
		o += (size_t)w;
	}
	olen = 0;
}
static void
oput(const char * fmt, ...)
{
	va_list ap;
	int n;

	va_start(ap, fmt);
	n = vsnprintf(obuf + olen, sizeof(obuf) - olen, fmt, ap);
	va_end(ap);
	if (n < 0 || (size_t)n >= sizeof(obuf) - olen) _exit(4);
	olen += (size_t)n;
	if (olen > sizeof(obuf) / 2) oflush();
}
static void
ohex(const char * k, const void * p, size_t n)
{
	const unsigned char * b = p;
	size_t i;

	oput(",\"%s\":\"", k);
	for (i = 0; i < n; i++) oput("%02x", b[i]);
	oput("\"");
}

static const int badsigs[9] = { SIGALRM, SIGHUP, SIGINT, SIGPIPE, SIGQUIT, SIGTERM, SIGTSTP, SIGTTIN, SIGTTOU };
static const char * signames[9] = { "ALRM", "HUP", "INT", "PIPE", "QUIT", "TERM", "TSTP", "TTIN", "TTOU" };
static const char *
signame(int s)
{
	int i;

	for (i = 0; i < 9; i++) if (badsigs[i] == s) return (signames[i]);
	return ("OTHER");
}
static int
signum(const char * n)
{
	int i;

	for (i = 0; i < 9; i++) if (strcmp(signames[i], n) == 0) return (badsigs[i]);
	return (0);
}

#define PROMPT	"PW"
#define CONFIRM	"CF"
#define MISMATCH "Passwords mismatch, please try again\n"

/* Cut what reached stderr since the last look into the pieces the function can emit. */
static void
grab(void)
{
	static char buf[1 << 14];
	ssize_t r;
	size_t n = 0, i = 0;

	fflush(stderr);
	while ((r = pread(efd, buf + n, sizeof(buf) - 1 - n, eoff + (off_t)n)) > 0) n += (size_t)r;
	eoff += (off_t)n;
	buf[n] = 0;
	while (i < n) {
		if (strncmp(buf + i, PROMPT ": ", 4) == 0) { oput("{\"e\":\"out\",\"k\":1}\n"); i += 4; }
		else if (strncmp(buf + i, CONFIRM ": ", 4) == 0) { oput("{\"e\":\"out\",\"k\":2}\n"); i += 4; }
		else if (strncmp(buf + i, MISMATCH, strlen(MISMATCH)) == 0) { oput("{\"e\":\"out\",\"k\":3}\n"); i += strlen(MISMATCH); }
		else {
			size_t j = i;
			while (j < n && buf[j] != '\n') j++;
			if (j < n) j++;
			oput("{\"e\":\"out\",\"k\":4"); ohex("text", buf + i, j - i); oput("}\n");
			i = j;
		}
	}
}

/* ---- the scripted environment ---- */
static int env_stdin_tty, env_ttyopen, env_tty_tty, env_tcgetok, env_tcsetok;
static char ttypath[4200];
static FILE * ttyfp;
static struct { int nsig; int sigs[9]; int fail; } rdplan[64];
static int nread;
static struct termios term_orig, term_cur[2];	/* 0: stdin, 1: the tty stream */
static int nset;

/* the caller's handlers */
static int napp;
static void
app_handler(int sig)
{

	napp++;
	oput("{\"e\":\"app_sig\",\"sig\":\"%s\"}\n", signame(sig));
}

FILE * __real_fopen(const char *, const char *);
FILE * __wrap_fopen(const char *, const char *);
FILE *
__wrap_fopen(const char * path, const char * mode)
{

	if (strcmp(path, "/dev/tty") != 0)
		return (__real_fopen(path, mode));
	grab();
	if (env_ttyopen)
		ttyfp = __real_fopen(ttypath, mode);
	else
		errno = ENXIO;
	oput("{\"e\":\"fopen_tty\",\"ok\":%s}\n", ttyfp != NULL ? "true" : "false");
	return (ttyfp);
}

static int
which(int fd)
{

	if (ttyfp != NULL && fd == fileno(ttyfp)) return (1);
	if (fd == fileno(stdin)) return (0);
	return (-1);
}

int __wrap_isatty(int);
int
__wrap_isatty(int fd)
{
	int w = which(fd), r;

	grab();
	r = (w == 1) ? env_tty_tty : (w == 0) ? env_stdin_tty : 0;
	if (!r) errno = ENOTTY;
	oput("{\"e\":\"isatty\",\"stream\":%d,\"ret\":%s}\n", w, r ? "true" : "false");
	return (r);
}

int __wrap_tcgetattr(int, struct termios *);
int
__wrap_tcgetattr(int fd, struct termios * t)
{
	int w = which(fd);

	grab();
	oput("{\"e\":\"tcget\",\"stream\":%d,\"ok\":%s}\n", w, (env_tcgetok && w >= 0) ? "true" : "false");
	if (!env_tcgetok || w < 0) { errno = EIO; return (-1); }
	*t = term_cur[w];
	return (0);
}

int __wrap_tcsetattr(int, int, const struct termios *);
int
__wrap_tcsetattr(int fd, int action, const struct termios * t)
{
	int w = which(fd), ok;
	struct termios x = *t;

	grab();
	ok = (w >= 0) && !(nset == 0 && !env_tcsetok);
	nset++;
	/* everything but the two flags the function may touch must be as the terminal was found */
	x.c_lflag = (x.c_lflag & ~((tcflag_t)(ECHO | ECHONL))) | (term_orig.c_lflag & (ECHO | ECHONL));
	oput("{\"e\":\"tcset\",\"stream\":%d,\"action\":\"%s\",\"echo\":%s,\"echonl\":%s,\"rest_same\":%s,\"orig\":%s,\"ok\":%s}\n", w,
	    action == TCSANOW ? "now" : action == TCSAFLUSH ? "flush" : "other",
	    (t->c_lflag & ECHO) ? "true" : "false", (t->c_lflag & ECHONL) ? "true" : "false",
	    memcmp(&x, &term_orig, sizeof(x)) == 0 ? "true" : "false",
	    memcmp(t, &term_orig, sizeof(x)) == 0 ? "true" : "false", ok ? "true" : "false");
	if (!ok) { errno = EIO; return (-1); }
	term_cur[w] = *t;
	return (0);
}

int __real_raise(int);
int __wrap_raise(int);
int
__wrap_raise(int sig)
{

	grab();
	oput("{\"e\":\"raise\",\"sig\":\"%s\"}\n", signame(sig));
	return (__real_raise(sig));
}

char * __real_fgets(char *, int, FILE *);
char * __wrap_fgets(char *, int, FILE *);
char *
__wrap_fgets(char * buf, int size, FILE * fp)
{
	char * r;
	int i, k = nread++;

	grab();
	if (k < 64)
		for (i = 0; i < rdplan[k].nsig; i++) {
			oput("{\"e\":\"signal\",\"sig\":\"%s\"}\n", signame(rdplan[k].sigs[i]));
			__real_raise(rdplan[k].sigs[i]);
		}
	if (k < 64 && rdplan[k].fail) {
		oput("{\"e\":\"fgets\",\"stream\":%d,\"kind\":\"err\",\"size\":%d}\n", which(fileno(fp)), size);
		errno = EIO;
		return (NULL);
	}
	r = __real_fgets(buf, size, fp);
	oput("{\"e\":\"fgets\",\"stream\":%d,\"kind\":\"%s\",\"size\":%d", which(fileno(fp)), r ? "line" : "eof", size);
	if (r) ohex("line", buf, strlen(buf));
	oput("}\n");
	return (r);
}

int __real_sigaction(int, const struct sigaction *, struct sigaction *);
int __wrap_sigaction(int, const struct sigaction *, struct sigaction *);
static unsigned inst_mask, rest_mask;
int
__wrap_sigaction(int sig, const struct sigaction * new, struct sigaction * old)
{
	int i, idx = -1, rc;

	grab();
	for (i = 0; i < 9; i++) if (badsigs[i] == sig) idx = i;
	rc = __real_sigaction(sig, new, old);
	if (new == NULL || idx < 0 || rc != 0) {
		oput("{\"e\":\"sigaction_odd\",\"sig\":\"%s\",\"rc\":%d}\n", signame(sig), rc);
		return (rc);
	}
	if (new->sa_handler == app_handler) {
		/* a disposition handed back to the caller */
		if (rest_mask & (1u << idx)) oput("{\"e\":\"sigaction_odd\",\"sig\":\"%s\",\"rc\":0}\n", signame(sig));
		rest_mask |= 1u << idx;
		if (rest_mask == 0x1ff) { oput("{\"e\":\"sigrestore\",\"n\":9}\n"); rest_mask = 0; }
	} else if (new->sa_handler != SIG_DFL && new->sa_handler != SIG_IGN) {
		/* the function's own handler */
		if (inst_mask & (1u << idx)) oput("{\"e\":\"sigaction_odd\",\"sig\":\"%s\",\"rc\":0}\n", signame(sig));
		inst_mask |= 1u << idx;
		if (inst_mask == 0x1ff) { oput("{\"e\":\"install\",\"n\":9}\n"); inst_mask = 0; }
	} else
		oput("{\"e\":\"sigaction_odd\",\"sig\":\"%s\",\"rc\":0}\n", signame(sig));
	return (rc);
}

int __real_fclose(FILE *);
int __wrap_fclose(FILE *);
int
__wrap_fclose(FILE * fp)
{

	if (fp == ttyfp && ttyfp != NULL) {
		grab();
		oput("{\"e\":\"fclose\",\"tty\":true}\n");
		ttyfp = NULL;
	} else if (fp == stdin) {
		grab();
		oput("{\"e\":\"fclose\",\"tty\":false}\n");
	}
	return (__real_fclose(fp));
}

static size_t
unhex(const char * h, char * out, size_t max)
{
	size_t n = 0;
	unsigned v;

	if (strcmp(h, "-") == 0) return (0);
	while (h[0] && h[1] && n < max && sscanf(h, "%2x", &v) == 1) { out[n++] = (char)v; h += 2; }
	return (n);
}

static void
putfile(const char * path, const char * hex)
{
	static char data[1 << 15];
	size_t n = unhex(hex, data, sizeof(data));
	FILE * f = __real_fopen(path, "w");

	if (f == NULL) _exit(4);
	if (n && fwrite(data, 1, n, f) != n) _exit(4);
	__real_fclose(f);
}

static char stdinpath[4200];

/* One call: "go" after the lines that describe it (several calls of one program run in the same process). */
static void
one_call(int dev, int conf)
{
	int rc, disp_ok = 1, j;
	char * pass = (char *)(uintptr_t)1;
	struct sigaction sa, cur;

	if (freopen(stdinpath, "r", stdin) == NULL) _exit(4);
	memset(&term_orig, 0x5a, sizeof(term_orig));
	term_orig.c_lflag = ECHO | ICANON | ISIG | IEXTEN | ECHOE;
	term_orig.c_iflag = ICRNL | IXON; term_orig.c_oflag = OPOST | ONLCR; term_orig.c_cflag = CS8 | CREAD;
	term_cur[0] = term_cur[1] = term_orig;
	memset(&sa, 0, sizeof(sa));
	sa.sa_handler = app_handler; sigemptyset(&sa.sa_mask);
	for (j = 0; j < 9; j++) __real_sigaction(badsigs[j], &sa, NULL);
	nread = 0; nset = 0; napp = 0; inst_mask = rest_mask = 0;
	oput("{\"e\":\"call\",\"dev\":%d,\"conf\":%s}\n", dev, conf ? "true" : "false");
	rc = readpass(&pass, PROMPT, conf ? CONFIRM : NULL, dev);
	grab();
	for (j = 0; j < 9; j++) {
		__real_sigaction(badsigs[j], NULL, &cur);
		if (cur.sa_handler != app_handler) disp_ok = 0;
	}
	oput("{\"e\":\"ret\",\"rc\":%d,\"disp_ok\":%s,\"term_ok\":%s,\"tty_open\":%s,\"napp\":%d", rc, disp_ok ? "true" : "false",
	    (memcmp(&term_cur[0], &term_orig, sizeof(term_orig)) == 0 && memcmp(&term_cur[1], &term_orig, sizeof(term_orig)) == 0) ? "true" : "false",
	    ttyfp != NULL ? "true" : "false", napp);
	if (rc == 0 && pass != NULL && pass != (char *)(uintptr_t)1) { ohex("pass", pass, strlen(pass)); free(pass); }
	oput("}\n");
	oflush();
	if (ttyfp != NULL) { __real_fclose(ttyfp); ttyfp = NULL; }
	memset(rdplan, 0, sizeof(rdplan));
}

static void
child(char lines[][70000], int n, const char * base)
{
	static char a[66000];
	char sigs[128], kind[8];
	int i, dev = 0, conf = 0, k, ncalls = 0;
	char * tok;

	snprintf(stdinpath, sizeof(stdinpath), "%.4000s.stdin", base);
	snprintf(ttypath, sizeof(ttypath), "%.4000s.tty", base);
	putfile(stdinpath, "-"); putfile(ttypath, "-");
	warnp_setprogname("rp");
	for (i = 0; i < n; i++) {
		if (sscanf(lines[i], "rp %d %d %d %d %d %d %d", &dev, &conf, &env_stdin_tty, &env_ttyopen, &env_tty_tty, &env_tcgetok, &env_tcsetok) == 7) continue;
		if (sscanf(lines[i], "stdin %65999s", a) == 1) { putfile(stdinpath, a); continue; }
		if (sscanf(lines[i], "tty %65999s", a) == 1) { putfile(ttypath, a); continue; }
		if (strncmp(lines[i], "go", 2) == 0) { one_call(dev, conf); ncalls++; continue; }
		if (sscanf(lines[i], "rd %d %127s %7s", &k, sigs, kind) == 3 && k >= 1 && k <= 64) {
			rdplan[k - 1].fail = (kind[0] == 'e');
			if (strcmp(sigs, "-") != 0)
				for (tok = strtok(sigs, ","); tok != NULL && rdplan[k - 1].nsig < 9; tok = strtok(NULL, ","))
					if (signum(tok)) rdplan[k - 1].sigs[rdplan[k - 1].nsig++] = signum(tok);
		}
	}
	if (ncalls == 0) one_call(dev, conf);
	unlink(stdinpath); unlink(ttypath);
	_exit(0);
}

int
main(int argc, char ** argv)
{
	static char line[70000], lines[32][70000];
	static char tmpl[4200];
	FILE * f;
	int n = 0, inprog = 0, st;
	pid_t pid;

	if (argc < 3) { fprintf(stderr, "usage: drv_readpass programs trace\n"); return (3); }
	if ((f = __real_fopen(argv[1], "r")) == NULL) { perror(argv[1]); return (3); }
	if ((tfd = open(argv[2], O_WRONLY | O_CREAT | O_TRUNC | O_APPEND, 0644)) < 0) { perror(argv[2]); return (3); }
	snprintf(tmpl, sizeof(tmpl), "%.4000s.errXXXXXX", argv[2]);
	if ((efd = mkstemp(tmpl)) < 0) { perror("mkstemp"); return (3); }
	unlink(tmpl);
	while (__real_fgets(line, sizeof(line), f) != NULL) {
		if (strncmp(line, "prog", 4) == 0) { inprog = 1; n = 0; continue; }
		if (strncmp(line, "end", 3) == 0) {
			if (inprog) {
				oput("{\"e\":\"reset\"}\n"); oflush();
				eoff = lseek(efd, 0, SEEK_END);
				if ((pid = fork()) == 0) {
					close(fileno(f));
					setvbuf(stderr, NULL, _IONBF, 0);
					if (dup2(efd, 2) < 0) _exit(4);
					child(lines, n, argv[2]);
				}
				if (pid < 0 || waitpid(pid, &st, 0) != pid) { perror("fork"); return (3); }
				if (!WIFEXITED(st) || WEXITSTATUS(st) != 0) {
					char eb[4096]; ssize_t r = pread(efd, eb, sizeof(eb) - 1, eoff);
					if (r > 0) { eb[r] = 0; fprintf(stderr, "%s", eb); }
					fprintf(stderr, "child status %d\n", st);
					return (WIFEXITED(st) ? WEXITSTATUS(st) : 99);
				}
			}
			inprog = 0; continue;
		}
		if (inprog && n < 32) { strcpy(lines[n], line); n++; }
	}
	__real_fclose(f);
	close(tfd);
	return (0);
}
