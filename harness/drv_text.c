/*
 * Conformance driver for the text-level functions (properties C15, C16, C17):
 * PARSENUM / PARSENUM_EX for every target type and macro form, humansize and
 * humansize_parse, base-64 / hex codecs, endian routines, socket addresses,
 * the JSON key finder, key / passphrase files.  Every input string is handed
 * to the library in an exact-size heap allocation so that ASan sees any
 * access outside it.  One line of the program = one call = one trace event.
 */
#include <sys/stat.h>
#include <sys/wait.h>
#include <fcntl.h>
#include <signal.h>
#include <sys/socket.h>
#include <sys/un.h>
#include <netinet/in.h>

#include <errno.h>
#include <inttypes.h>
#include <math.h>
#include <stdint.h>
#include <stdio.h>
#include <stdlib.h>
#include <string.h>
#include <unistd.h>

#include "aws_readkeys.h"
#include "b64encode.h"
#include "hexify.h"
#include "humansize.h"
#include "json.h"
#include "parsenum.h"
#include "readpass.h"
#include "sock.h"
#include "sock_internal.h"
#include "sock_util.h"
#include "sysendian.h"

#include "vtrace.h"

static size_t
unhex(const char * h, uint8_t * out, size_t max)
{
	size_t n = 0;
	unsigned v;

	while (h[0] && h[1] && h[0] != ' ' && h[0] != '\n' && n < max && sscanf(h, "%2x", &v) == 1) { out[n++] = (uint8_t)v; h += 2; }
	return (n);
}

/* exact-size NUL-terminated copy of a hex-encoded string ("-" = empty) */
static char *
xstr(const char * hex, size_t * lenp)
{
	size_t len = (strcmp(hex, "-") == 0) ? 0 : strlen(hex) / 2;
	char * s = malloc(len + 1);

	if (len) unhex(hex, (uint8_t *)s, len);
	s[len] = 0;
	if (lenp) *lenp = len;
	return (s);
}

static const char *
errname(int e)
{
	static char buf[32];

	if (e == 0) return ("0");
	if (e == EINVAL) return ("EINVAL");
	if (e == ERANGE) return ("ERANGE");
	snprintf(buf, sizeof(buf), "E%d", e);
	return (buf);
}

static void
log_float(double x, int bits)
{

	if (isnan(x)) { vt_str("cls", "nan"); return; }
	if (isinf(x)) { vt_str("cls", x > 0 ? "inf" : "-inf"); return; }
	if (x == 0) { vt_str("cls", signbit(x) ? "-zero" : "zero"); return; }
	{
		int e;
		double m = frexp(x, &e);
		long long M = (long long)ldexp(m, bits);
		vt_str("cls", "normal"); vt_i64s("m", M); vt_int("ex", e - bits);
	}
}

/* One function per unsigned / signed / floating target type and macro form.  The string, base and trailing arguments are
 * expressions with side effects (a cursor over a list of strings, as in `PARSENUM(&n, *argv++)`): each must be evaluated exactly
 * once, whatever the outcome - the string parsed must be the one the cursor pointed at. */
#define S	(*sp++)
#define BASE	(nb++, base)
#define TRAIL	(nt++, trailing)
#define CURSOR	const char * arr[4] = { s, "@decoy", "@decoy", "@decoy" }; const char ** sp = arr; int nb = 0, nt = 0
#define EVALS	vt_int("sevals", (long long)(sp - arr)); vt_int("bevals", nb); vt_int("tevals", nt)
#define DEF_UNSIGNED(NAME, T)									\
static void pn_##NAME(const char * form, const char * s, int base, int trailing,		\
    intmax_t mini, intmax_t maxi, uintmax_t minu, uintmax_t maxu)				\
{												\
	T x = 0; int rc = -2; CURSOR;									\
	if (strcmp(form, "2") == 0) rc = PARSENUM(&x, S);					\
	else if (strcmp(form, "4i") == 0) rc = PARSENUM(&x, S, mini, maxi);			\
	else if (strcmp(form, "4u") == 0) rc = PARSENUM(&x, S, minu, maxu);			\
	else if (strcmp(form, "e4") == 0) rc = PARSENUM_EX(&x, S, BASE, TRAIL);		\
	else if (strcmp(form, "e6i") == 0) rc = PARSENUM_EX(&x, S, mini, maxi, BASE, TRAIL);	\
	else if (strcmp(form, "e6u") == 0) rc = PARSENUM_EX(&x, S, minu, maxu, BASE, TRAIL);	\
	EVALS; vt_int("rc", rc); vt_str("errno", errname(errno)); vt_u64s("val", (uint64_t)x);		\
}
#define DEF_SIGNED(NAME, T)									\
static void pn_##NAME(const char * form, const char * s, int base, int trailing,		\
    intmax_t mini, intmax_t maxi, uintmax_t minu, uintmax_t maxu)				\
{												\
	T x = 0; int rc = -2; CURSOR;									\
	(void)minu; (void)maxu;									\
	if (strcmp(form, "4i") == 0) rc = PARSENUM(&x, S, mini, maxi);				\
	else if (strcmp(form, "e6i") == 0) rc = PARSENUM_EX(&x, S, mini, maxi, BASE, TRAIL);	\
	EVALS; vt_int("rc", rc); vt_str("errno", errname(errno)); vt_i64s("val", (int64_t)x);		\
}
#define DEF_FLOAT(NAME, T, BITS)								\
static void pn_##NAME(const char * form, const char * s, int base, int trailing,		\
    double mind, double maxd)									\
{												\
	T x = 0; int rc = -2; CURSOR;									\
	(void)base;										\
	if (strcmp(form, "2") == 0) rc = PARSENUM(&x, S);					\
	else if (strcmp(form, "4d") == 0) rc = PARSENUM(&x, S, mind, maxd);			\
	else if (strcmp(form, "e4") == 0) rc = PARSENUM_EX(&x, S, 0, TRAIL);			\
	else if (strcmp(form, "e6d") == 0) rc = PARSENUM_EX(&x, S, mind, maxd, 0, TRAIL);	\
	EVALS; vt_int("rc", rc); vt_str("errno", errname(errno)); log_float((double)x, BITS);		\
}
DEF_UNSIGNED(u8, uint8_t)
DEF_UNSIGNED(u16, uint16_t)
DEF_UNSIGNED(u32, uint32_t)
DEF_UNSIGNED(u64, uint64_t)
DEF_UNSIGNED(size, size_t)
DEF_UNSIGNED(umax, uintmax_t)
DEF_UNSIGNED(uint, unsigned int)
DEF_SIGNED(i8, int8_t)
DEF_SIGNED(i16, int16_t)
DEF_SIGNED(i32, int32_t)
DEF_SIGNED(i64, int64_t)
DEF_SIGNED(imax, intmax_t)
DEF_SIGNED(int, int)
DEF_FLOAT(float, float, 24)
DEF_FLOAT(double, double, 53)

static void
do_pn(char * l)
{
	char type[16], form[8], mins[64], maxs[64], hex[1 << 16];
	int base, trailing;
	char * s;
	intmax_t mini, maxi;
	uintmax_t minu, maxu;

	if (sscanf(l, "pn %15s %7s %d %d %63s %63s %65535s", type, form, &base, &trailing, mins, maxs, hex) != 7)
		return;
	s = xstr(hex, NULL);
	mini = strtoimax(mins, NULL, 10); maxi = strtoimax(maxs, NULL, 10);
	minu = strtoumax(mins, NULL, 10); maxu = strtoumax(maxs, NULL, 10);
	vt_begin("pn"); vt_str("type", type); vt_str("form", form); vt_int("base", base); vt_bool("trailing", trailing);
	vt_str("min", mins); vt_str("max", maxs); vt_str("s", strcmp(hex, "-") ? hex : "");
	errno = 0;
#define D(NAME) if (strcmp(type, #NAME) == 0) pn_##NAME(form, s, base, trailing, mini, maxi, minu, maxu); else
	D(u8) D(u16) D(u32) D(u64) D(size) D(umax) D(uint) D(i8) D(i16) D(i32) D(i64) D(imax) D(int)
	if (strcmp(type, "float") == 0) pn_float(form, s, base, trailing, strtod(mins, NULL), strtod(maxs, NULL));
	else if (strcmp(type, "double") == 0) pn_double(form, s, base, trailing, strtod(mins, NULL), strtod(maxs, NULL));
	vt_end();
	free(s);
}

static void
do_hs(char * l)
{
	char arg[1 << 12];
	char * s;
	uint64_t v;

	if (sscanf(l, "hs %4095s", arg) != 1)
		return;
	v = strtoumax(arg, NULL, 10);
	s = humansize(v);
	vt_begin("hs"); vt_u64s("n", v); vt_bool("null", s == NULL);
	if (s != NULL) vt_hex("out", s, strlen(s));
	vt_end();
	free(s);
}

static void
do_hp(char * l)
{
	char hex[1 << 12];
	char * s;
	uint64_t v = 12345;
	int rc;

	if (sscanf(l, "hp %4095s", hex) != 1)
		return;
	s = xstr(hex, NULL);
	rc = humansize_parse(s, &v);
	vt_begin("hp"); vt_str("s", strcmp(hex, "-") ? hex : ""); vt_int("rc", rc); vt_u64s("val", v); vt_end();
	free(s);
}

static const char * text_tracepath;	/* temporary files of the codec operations live next to the trace */
#include "drv_text_codec.h"

int
main(int argc, char ** argv)
{
	static char line[1 << 18];
	FILE * f;

	if (argc < 3) { fprintf(stderr, "usage: drv_text programs trace\n"); return (3); }
	if ((f = fopen(argv[1], "r")) == NULL) { perror(argv[1]); return (3); }
	text_tracepath = argv[2];
	vt_open(argv[2]);
	while (fgets(line, sizeof(line), f) != NULL) {
		if (strncmp(line, "prog", 4) == 0) { vt_reset(); continue; }
		if (strncmp(line, "pn ", 3) == 0) do_pn(line);
		else if (strncmp(line, "hs ", 3) == 0) do_hs(line);
		else if (strncmp(line, "hp ", 3) == 0) do_hp(line);
		else do_codec(line);
	}
	fclose(f);
	fclose(vt_out);
	return (0);
}
