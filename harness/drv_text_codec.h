/* codec / address / JSON / key-file operations of drv_text.c (C15, C17): filled in by the C17 / C15 checks */
static void
do_codec(char * l)
{

	(void)l;
}
