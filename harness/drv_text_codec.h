/* codec / endian / socket-address / JSON / key-file operations of drv_text.c (properties C15, C17).
 * All inputs are exact-size heap allocations; outputs are exact-size per the contract of each function. */

static uint8_t *
xbytes(const char * hex, size_t * lenp)
{
	size_t len = (strcmp(hex, "-") == 0) ? 0 : strlen(hex) / 2;
	uint8_t * b = malloc(len ? len : 1);

	if (len) unhex(hex, b, len);
	*lenp = len;
	return (b);
}

static void
log_sa(const char * pfx, const struct sock_addr * sa)
{
	char k[32];

	snprintf(k, sizeof(k), "%sfam", pfx);
	vt_str(k, sa->ai_family == AF_INET ? "inet" : sa->ai_family == AF_INET6 ? "inet6" : sa->ai_family == AF_UNIX ? "unix" : "other");
	snprintf(k, sizeof(k), "%saddr", pfx);
	if (sa->ai_family == AF_INET) {
		const struct sockaddr_in * s = (const struct sockaddr_in *)sa->name;
		vt_hex(k, &s->sin_addr, 4);
		snprintf(k, sizeof(k), "%sport", pfx); vt_int(k, ntohs(s->sin_port));
	} else if (sa->ai_family == AF_INET6) {
		const struct sockaddr_in6 * s = (const struct sockaddr_in6 *)sa->name;
		vt_hex(k, &s->sin6_addr, 16);
		snprintf(k, sizeof(k), "%sport", pfx); vt_int(k, ntohs(s->sin6_port));
	} else if (sa->ai_family == AF_UNIX) {
		const struct sockaddr_un * s = (const struct sockaddr_un *)sa->name;
		vt_hex(k, s->sun_path, strnlen(s->sun_path, sizeof(s->sun_path)));
		snprintf(k, sizeof(k), "%sport", pfx); vt_int(k, 0);
	} else {
		vt_str(k, "");
		snprintf(k, sizeof(k), "%sport", pfx); vt_int(k, -1);
	}
}

static void
do_codec(char * l)
{
	char op[16], a[1 << 17], b[1 << 17];
	size_t alen, blen, i;
	int n;

	a[0] = b[0] = 0;
	n = sscanf(l, "%15s %131071s %131071s", op, a, b);
	if (n < 2)
		return;
	if (strcmp(op, "b64e") == 0) {
		uint8_t * in = xbytes(a, &alen);
		char * out = malloc(((alen + 2) / 3) * 4 + 1);
		b64encode(in, out, alen);
		vt_begin("b64e"); vt_str("in", strcmp(a, "-") ? a : ""); vt_hex("out", out, strlen(out)); vt_end();
		free(in); free(out);
	} else if (strcmp(op, "b64d") == 0) {
		/* the encoded text is given with its length, not NUL-terminated */
		uint8_t * in = xbytes(a, &alen);
		uint8_t * out = malloc((alen / 4) * 3 ? (alen / 4) * 3 : 1);
		size_t outlen = 777777;
		int rc = b64decode((const char *)in, alen, out, &outlen);
		vt_begin("b64d"); vt_str("in", strcmp(a, "-") ? a : ""); vt_int("rc", rc);
		vt_int("outlen", rc == 0 ? (long long)outlen : -1);
		if (rc == 0 && outlen <= (alen / 4) * 3) vt_hex("out", out, outlen);
		vt_end();
		free(in); free(out);
	} else if (strcmp(op, "hexe") == 0) {
		uint8_t * in = xbytes(a, &alen);
		char * out = malloc(2 * alen + 1);
		hexify(in, out, alen);
		vt_begin("hexe"); vt_str("in", strcmp(a, "-") ? a : ""); vt_hex("out", out, strlen(out)); vt_end();
		free(in); free(out);
	} else if (strcmp(op, "hexd") == 0) {
		/* hexd <hex of the NUL-terminated text> <len> */
		size_t len = (size_t)atol(b);
		char * in = xstr(a, &alen);
		uint8_t * out = malloc(len ? len : 1);
		int rc = unhexify(in, out, len);
		vt_begin("hexd"); vt_str("in", strcmp(a, "-") ? a : ""); vt_int("len", (long long)len); vt_int("rc", rc);
		if (rc == 0) vt_hex("out", out, len);
		vt_end();
		free(in); free(out);
	} else if (strcmp(op, "en") == 0) {
		/* en <bits><b|l> <offset> <valuehex big-endian, bits/4 digits> */
		int bits = atoi(a), off;
		char order = a[strlen(a) - 1];
		char vhex[64];
		uint8_t * buf;
		uint64_t v, back = 0;
		if (sscanf(l, "%*s %*s %d %63s", &off, vhex) != 2 || off < 0 || off > 15)
			return;
		v = strtoull(vhex, NULL, 16);
		buf = malloc((size_t)off + (size_t)bits / 8);	/* exact: nothing after the value */
		memset(buf, 0xAA, (size_t)off + (size_t)bits / 8);
		switch (bits) {
		case 16: if (order == 'b') { be16enc(buf + off, (uint16_t)v); back = be16dec(buf + off); } else { le16enc(buf + off, (uint16_t)v); back = le16dec(buf + off); } break;
		case 32: if (order == 'b') { be32enc(buf + off, (uint32_t)v); back = be32dec(buf + off); } else { le32enc(buf + off, (uint32_t)v); back = le32dec(buf + off); } break;
		default: if (order == 'b') { be64enc(buf + off, v); back = be64dec(buf + off); } else { le64enc(buf + off, v); back = le64dec(buf + off); } break;
		}
		vt_begin("en"); vt_int("bits", bits); vt_str("order", order == 'b' ? "be" : "le"); vt_int("off", off);
		vt_str("v", vhex); vt_hex("bytes", buf + off, (size_t)bits / 8);
		{ char bk[32]; snprintf(bk, sizeof(bk), "%0*llx", bits / 4, (unsigned long long)back); vt_str("back", bk); }
		for (i = 0; i < (size_t)off; i++) if (buf[i] != 0xAA) break;
		vt_bool("clean", i == (size_t)off);
		vt_end();
		free(buf);
	} else if (strcmp(op, "sr") == 0) {
		/* sr <hex of address text> [want: fam addrhex port]  -- numeric / Unix-path addresses only */
		char * addr = xstr(a, &alen);
		struct sock_addr ** sas = sock_resolve(addr);
		vt_begin("sr"); vt_str("s", strcmp(a, "-") ? a : "");
		{
			char wf[16] = "", wa[600] = ""; int wp = -1;
			if (sscanf(l, "%*s %*s %15s %599s %d", wf, wa, &wp) == 3) { vt_str("wfam", wf); vt_str("waddr", strcmp(wa, "-") ? wa : ""); vt_int("wport", wp); }
		}
		if (sas == NULL || sas[0] == NULL) {
			vt_int("n", sas == NULL ? -1 : 0);
		} else {
			struct sock_addr * sa = sas[0], * d, * r2;
			struct sock_addr ** again;
			uint8_t * ser = NULL; size_t serlen = 0;
			char * pp;
			for (n = 0; sas[n] != NULL; n++) ;
			vt_int("n", n);
			log_sa("", sa);
			/* serialise / deserialise / duplicate */
			if (sock_addr_serialize(sa, &ser, &serlen) == 0) {
				r2 = sock_addr_deserialize(ser, serlen);
				vt_bool("ser_rt", r2 != NULL && sock_addr_cmp(sa, r2) == 0);
				/* the copy is used like the original: printed (and, below, compared after printing) */
				if (r2 != NULL && (pp = sock_addr_prettyprint(r2)) != NULL) { vt_hex("pp_ser", pp, strlen(pp)); free(pp); }
				sock_addr_free(r2);
				free(ser);
			}
			d = sock_addr_dup(sa);
			vt_bool("dup_rt", d != NULL && sock_addr_cmp(sa, d) == 0);
			if (d != NULL && (pp = sock_addr_prettyprint(d)) != NULL) { vt_hex("pp_dup", pp, strlen(pp)); free(pp); }
			if (d != NULL) {
				/* a copy of the copy, and the copy as a member of a duplicated list */
				struct sock_addr * lst[2], ** l2;
				lst[0] = d; lst[1] = NULL;
				if ((l2 = sock_addr_duplist(lst)) != NULL) {
					if (l2[0] != NULL && (pp = sock_addr_prettyprint(l2[0])) != NULL) { vt_hex("pp_dup2", pp, strlen(pp)); free(pp); }
					vt_bool("dup2_rt", l2[0] != NULL && l2[1] == NULL && sock_addr_cmp(sa, l2[0]) == 0);
					sock_addr_freelist(l2);
				}
			}
			sock_addr_free(d);
			/* print and resolve back */
			pp = sock_addr_prettyprint(sa);
			if (pp != NULL) {
				vt_hex("pp", pp, strlen(pp));
				again = sock_resolve(pp);
				vt_bool("pp_rt", again != NULL && again[0] != NULL && sock_addr_cmp(sa, again[0]) == 0);
				if (again != NULL && again[0] != NULL) log_sa("b", again[0]);
				sock_addr_freelist(again);
				free(pp);
			}
		}
		vt_end();
		sock_addr_freelist(sas);
		free(addr);
	} else if (strcmp(op, "sd") == 0) {
		/* sd <hex of serialised address> : hostile decoder input */
		uint8_t * in = xbytes(a, &alen);
		struct sock_addr * sa = sock_addr_deserialize(in, alen);
		vt_begin("sd"); vt_int("len", (long long)alen); vt_bool("null", sa == NULL);
		if (sa != NULL) {
			uint8_t * ser = NULL; size_t serlen = 0;
			if (sock_addr_serialize(sa, &ser, &serlen) == 0) {
				vt_bool("same", serlen == alen && memcmp(ser, in, alen) == 0);
				free(ser);
			}
			sock_addr_free(sa);
		}
		vt_end();
		free(in);
	} else if (strcmp(op, "sdm") == 0) {
		/* sdm <hex address text> <pos> <val> <trunc>: serialise a real address, corrupt one byte, truncate, decode */
		char * addr = xstr(a, &alen);
		struct sock_addr ** sas = sock_resolve(addr);
		long pos = 0, val = 0, trunc = -1;
		sscanf(l, "%*s %*s %ld %ld %ld", &pos, &val, &trunc);
		if (sas != NULL && sas[0] != NULL) {
			uint8_t * ser = NULL, * in; size_t serlen = 0, inlen;
			if (sock_addr_serialize(sas[0], &ser, &serlen) == 0) {
				struct sock_addr * sa;
				inlen = (trunc >= 0 && (size_t)trunc < serlen) ? (size_t)trunc : serlen;
				in = malloc(inlen ? inlen : 1);
				memcpy(in, ser, inlen);
				if (pos >= 0 && (size_t)pos < inlen) in[pos] = (uint8_t)val;
				if (pos == -2 && inlen >= 2 * sizeof(int) + sizeof(socklen_t)) {
					/* a cut that is self-consistent: the length field says what is there */
					socklen_t nl = (socklen_t)(inlen - 2 * sizeof(int) - sizeof(socklen_t));
					memcpy(in + 2 * sizeof(int), &nl, sizeof(socklen_t));
				}
				sa = sock_addr_deserialize(in, inlen);
				vt_begin("sd"); vt_int("len", (long long)inlen); vt_bool("null", sa == NULL);
				if (sa != NULL) {
					uint8_t * s2 = NULL; size_t s2len = 0;
					if (sock_addr_serialize(sa, &s2, &s2len) == 0) { vt_bool("same", s2len == inlen && memcmp(s2, in, inlen) == 0); free(s2); }
					sock_addr_free(sa);
				}
				vt_end();
				free(in); free(ser);
			}
		}
		sock_addr_freelist(sas);
		free(addr);
	} else if (strcmp(op, "jf") == 0) {
		/* jf <hex key> <hex document> [members json] */
		char * key = xstr(a, NULL);
		uint8_t * doc = xbytes(b, &blen);
		const uint8_t * r = json_find(doc, doc + blen, key);
		char * m = strstr(l, " m=");
		vt_begin("jf"); vt_str("key", strcmp(a, "-") ? a : ""); vt_int("len", (long long)blen);
		vt_int("off", (r >= doc && r <= doc + blen) ? (long long)(r - doc) : -1);
		if (m != NULL) { char * e = strchr(m, '\n'); if (e) *e = 0; vt_raw("members", m + 3); }
		vt_end();
		free(key); free(doc);
	} else if (strcmp(op, "pff") == 0) {
		/* passphrase arriving through a named pipe (process substitution, /dev/stdin): not a regular file, size unknown */
		char dname[4200], fname[4300];		/* (next to the trace, not in /tmp) */
		uint8_t * content = xbytes(a, &alen);
		char * pw = NULL;
		pid_t pid;
		int rc, st;
		snprintf(dname, sizeof(dname), "%.4000s.pffXXXXXX", text_tracepath ? text_tracepath : "/tmp/verif_pff");
		if (mkdtemp(dname) == NULL) { free(content); return; }
		snprintf(fname, sizeof(fname), "%s/p", dname);
		if (mkfifo(fname, 0600) != 0) { rmdir(dname); free(content); return; }
		vt_flush(); fflush(NULL);
		if ((pid = fork()) == 0) {
			int fd = open(fname, O_WRONLY);
			size_t off = 0;
			signal(SIGPIPE, SIG_IGN);
			while (fd >= 0 && off < alen) { ssize_t w = write(fd, content + off, alen - off); if (w <= 0) break; off += (size_t)w; }
			_exit(0);
		}
		rc = readpass_file(&pw, fname);
		kill(pid, SIGKILL); waitpid(pid, &st, 0);
		vt_begin("pf"); vt_str("in", strcmp(a, "-") ? a : ""); vt_int("rc", rc); vt_bool("fifo", 1);
		if (rc == 0 && pw != NULL) vt_hex("pw", pw, strlen(pw));
		vt_end();
		if (rc == 0) free(pw);
		unlink(fname); rmdir(dname);
		free(content);
	} else if (strcmp(op, "kf") == 0 || strcmp(op, "pf") == 0) {
		/* key file / passphrase file with the given content */
		char fname[4200];
		uint8_t * content = xbytes(a, &alen);
		int fd, rc;
		snprintf(fname, sizeof(fname), "%.4000s.kfXXXXXX", text_tracepath ? text_tracepath : "/tmp/verif_kf");
		fd = mkstemp(fname);
		if (fd < 0) { free(content); return; }
		if (alen && write(fd, content, alen) != (ssize_t)alen) { close(fd); unlink(fname); free(content); return; }
		close(fd);
		if (op[0] == 'k') {
			char * id = NULL, * secret = NULL;
			rc = aws_readkeys(fname, &id, &secret);
			vt_begin("kf"); vt_str("in", strcmp(a, "-") ? a : ""); vt_int("rc", rc);
			if (rc == 0 && id != NULL && secret != NULL) { vt_hex("id", id, strlen(id)); vt_hex("secret", secret, strlen(secret)); }
			vt_end();
			if (rc == 0) { free(id); free(secret); }
		} else {
			char * pw = NULL;
			rc = readpass_file(&pw, fname);
			vt_begin("pf"); vt_str("in", strcmp(a, "-") ? a : ""); vt_int("rc", rc);
			if (rc == 0 && pw != NULL) vt_hex("pw", pw, strlen(pw));
			vt_end();
			if (rc == 0) free(pw);
		}
		unlink(fname);
		free(content);
	}
}
