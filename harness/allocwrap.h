/* Allocation wrapper (link with -Wl,--wrap=malloc,--wrap=calloc,--wrap=realloc,--wrap=free and, where
 * the library uses them, --wrap=strdup): counts, tracks and optionally fails the allocations made by
 * library code.  Harness code that must not be counted calls __real_malloc etc. directly. */
#ifndef ALLOCWRAP_H_
#define ALLOCWRAP_H_
#include <stddef.h>
void * __real_malloc(size_t);
void * __real_calloc(size_t, size_t);
void * __real_realloc(void *, size_t);
void __real_free(void *);
void aw_reset(void);			/* forget counters and injection plan (live set is kept) */
void aw_plan(long k, int persistent);	/* fail the k-th allocation from now (1-based); 0 = never */
long aw_count(void);			/* allocation requests seen since aw_reset */
int aw_injected(void);			/* number of failures injected since last aw_clear_injected */
void aw_clear_injected(void);
long aw_live(void);			/* live tracked allocations */
long aw_live_id(const void *);		/* id (>=1) of the live allocation at this address, 0 if none */
size_t aw_live_size(const void *);
size_t aw_last_realloc_size(void);	/* size of the block most recently returned by a realloc, 0 if freed */
void aw_recycle(int on);		/* on: a released tracked block is handed out again by the next request of its size; off: really release them */
void aw_enable(int on);			/* tracking/injection on or off (off: passes straight through) */
extern void (*aw_free_hook)(void *, size_t);	/* called before a tracked block is released */
extern void (*aw_strdup_hook)(void *, size_t);	/* called when the library duplicated a string into a new block */
#endif
