/*
 * Conformance driver for network_read / network_write / network_connect /
 * network_accept (property C06; C14 scenarios) on the real event loop with the
 * fake kernel and scripted sockets.  One forked child per program.  The
 * driver records; TLC judges (specs/network/NetTrace.tla).
 */
#include <sys/time.h>
#include <sys/wait.h>

#include <errno.h>
#include <stdio.h>
#include <stdlib.h>
#include <string.h>
#include <unistd.h>

#include "events.h"
#include "network.h"
#include "sock.h"

#include "allocwrap.h"
#include "fakekernel.h"
#include "fakenet.h"

#define MAXREQ 256
#define MAXOPS 32
struct req {
	int id;
	int kind;		/* 'r','w','c','a' */
	int fd;
	uint8_t * buf;		/* harness-owned, exact size */
	size_t buflen, min;
	int state;		/* 0 none, 1 pending, 2 done, 3 cancelled, 4 failed to start */
	void * cookie;
	char * ops[MAXOPS];
	int nops;
	int rc;
	struct sock_addr ** sas;
	long long spos0;	/* stream offset of the descriptor when the request was made */
};
static struct req reqs[MAXREQ + 1];

static void exec_op(const char *, int);

static void
common(void)
{

	vt_int("inj", aw_injected());
	aw_clear_injected();
}

static void
run_script(struct req * r)
{
	int i;

	for (i = 0; i < r->nops; i++)
		exec_op(r->ops[i], r->id);
}

static int
cb_rw(void * cookie, ssize_t n)
{
	struct req * r = cookie;
	int ok = 1;
	ssize_t i;

	if (r < &reqs[1] || r > &reqs[MAXREQ]) {
		vt_begin("cb"); vt_int("req", -1); vt_int("n", (long long)n); vt_end();
		return (0);
	}
	vt_begin("cb"); vt_int("req", r->id); vt_int("n", (long long)n);
	if (r->kind == 'r' && n > 0) {
		if (n <= 64) vt_hex("data", r->buf, (size_t)n);
		/* large reads: the driver compares with the stream function (small ones are also compared by TLC) */
		for (i = 0; i < n && i < (ssize_t)r->buflen; i++)
			if (r->buf[i] != fn_rxbyte(r->fd, r->spos0 + i)) ok = 0;
		if (n > (ssize_t)r->buflen) ok = 0;
	}
	vt_bool("dataok", ok); vt_int("spos0", r->spos0);
	FK_CLOCK("c", fk_clock_us); common(); vt_end();
	if (r->state == 1)
		r->state = 2;
	run_script(r);
	vt_begin("cb_ret"); vt_int("req", r->id); vt_int("rc", r->rc); vt_end();
	return (r->rc);
}

static int
cb_sock(void * cookie, int s)
{
	struct req * r = cookie;

	if (r < &reqs[1] || r > &reqs[MAXREQ]) {
		vt_begin("cb_sock"); vt_int("req", -1); vt_int("s", -2); vt_end();
		return (0);
	}
	vt_begin("cb_sock"); vt_int("req", r->id); vt_int("s", s == -1 ? -1 : fk_logical(s));
	vt_int("addr", (s == -1 || fk_logical(s) < 0) ? -1 : fn_fds[fk_logical(s)].addr); FK_CLOCK("c", fk_clock_us); common(); vt_end();
	if (r->state == 1)
		r->state = 2;
	run_script(r);
	vt_begin("cb_ret"); vt_int("req", r->id); vt_int("rc", r->rc); vt_end();
	return (r->rc);
}

static int noop_ran;
static int
noop_cb(void * cookie)
{

	(void)cookie;
	noop_ran = 1;
	return (0);
}

static int
kindof(const char * s)
{

	switch (s[0]) {
	case 'D': return (FN_DATA);
	case 'A': return (FN_EAGAIN);
	case 'I': return (FN_EINTR);
	case 'E': return (FN_EOF);
	default: return (FN_ERR);
	}
}

static void
exec_op(const char * l, int ctx)
{
	char op[32], k[16];
	long a = 0, b = 0, c = 0, d = 0;
	long long at = 0;

	if (sscanf(l, "%31s", op) < 1)
		return;
	if (strcmp(op, "rx") == 0 || strcmp(op, "tx") == 0 || strcmp(op, "ax") == 0) {
		/* rx FD KIND N ERR AT(us from now) */
		struct fn_list * L;
		if (sscanf(l, "%*s %ld %15s %ld %ld %lld", &a, k, &b, &c, &at) < 2 || a < 0 || a >= fk_n)
			return;
		L = op[0] == 'r' ? &fn_fds[a].rx : op[0] == 't' ? &fn_fds[a].tx : &fn_fds[a].ax;
		fn_push(L, kindof(k), b, (int)c, fk_clock_us + at);
		vt_begin(op); vt_int("fd", a); vt_str("kind", fn_kindname(kindof(k))); vt_int("n", b); vt_int("err", c);
		FK_CLOCK("at", fk_clock_us + at); vt_end();
	} else if (strcmp(op, "read") == 0 || strcmp(op, "write") == 0) {
		/* read R FD BUFLEN MIN */
		struct req * r;
		size_t i;
		if (sscanf(l, "%*s %ld %ld %ld %ld", &a, &b, &c, &d) != 4 || a < 1 || a > MAXREQ || b < 0 || b >= fk_n || c < 1 || d < 0 || d > c)
			return;
		r = &reqs[a];
		if (r->state != 0)
			return;
		r->kind = op[0]; r->fd = (int)b; r->buflen = (size_t)c; r->min = (size_t)d;
		r->buf = __real_malloc(r->buflen);
		for (i = 0; i < r->buflen; i++)
			r->buf[i] = (op[0] == 'w') ? fn_txbyte(r->id, (long long)i) : 0xEE;
		fn_register_buf(r->buf, r->buflen, r->id);
		r->spos0 = fn_fds[r->fd].rpos;
		if (op[0] == 'r')
			r->cookie = network_read(fk_real(r->fd), r->buf, r->buflen, r->min, cb_rw, r);
		else
			r->cookie = network_write(fk_real(r->fd), r->buf, r->buflen, r->min, cb_rw, r);
		r->state = r->cookie ? 1 : 4;
		vt_begin(op[0] == 'r' ? "req_read" : "req_write"); vt_int("req", a); vt_int("fd", b); vt_int("buflen", c); vt_int("min", d);
		vt_bool("ok", r->cookie != NULL); vt_int("ctx", ctx); common(); vt_end();
	} else if (strcmp(op, "cancel") == 0) {
		struct req * r;
		if (sscanf(l, "%*s %ld", &a) != 1 || a < 1 || a > MAXREQ)
			return;
		r = &reqs[a];
		if (r->state != 1)
			return;
		switch (r->kind) {
		case 'r': network_read_cancel(r->cookie); break;
		case 'w': network_write_cancel(r->cookie); break;
		case 'c': network_connect_cancel(r->cookie); break;
		case 'a': network_accept_cancel(r->cookie); break;
		}
		r->state = 3;
		vt_begin("cancel"); vt_int("req", a); vt_int("ctx", ctx); common(); vt_end();
	} else if (strcmp(op, "connect") == 0) {
		/* connect R TIMEO_US(-1 none) PLAN... ; PLAN = K or K:T */
		struct req * r;
		struct timeval tv;
		char * tok, * copy, * save = NULL;
		long timeo;
		int n = 0, i;
		copy = __real_malloc(strlen(l) + 1);
		strcpy(copy, l);
		tok = strtok_r(copy, " ", &save);	/* "connect" */
		tok = strtok_r(NULL, " ", &save); a = tok ? atol(tok) : 0;
		tok = strtok_r(NULL, " ", &save); timeo = tok ? atol(tok) : -1;
		if (a < 1 || a > MAXREQ || reqs[a].state != 0) { __real_free(copy); return; }
		r = &reqs[a];
		fn_nplan = 0;
		while ((tok = strtok_r(NULL, " ", &save)) != NULL && fn_nplan < 60) {
			fn_plan[fn_nplan].kind = tok[0];
			fn_plan[fn_nplan].t = (tok[1] == ':') ? atoll(tok + 2) : 0;
			fn_nplan++;
		}
		__real_free(copy);
		n = fn_nplan;
		r->sas = __real_calloc((size_t)n + 1, sizeof(struct sock_addr *));
		aw_enable(0);
		for (i = 0; i < n; i++) {
			char addr[64];
			struct sock_addr ** one;
			snprintf(addr, sizeof(addr), "127.0.0.1:%d", 10000 + i);
			one = sock_resolve(addr);
			r->sas[i] = one ? one[0] : NULL;
			free(one);
		}
		aw_enable(1);
		r->kind = 'c';
		fn_attempt = 0;
		vt_begin("req_connect"); vt_int("req", a); vt_int("timeo", timeo);
		fprintf(vt_out, ",\"plan\":[");
		for (i = 0; i < n; i++)
			fprintf(vt_out, "%s[\"%c\",%lld]", i ? "," : "", fn_plan[i].kind, fn_plan[i].t);
		fprintf(vt_out, "]"); vt_int("ctx", ctx); FK_CLOCK("c", fk_clock_us); vt_end();
		if (timeo >= 0) {
			/* the timeout is the caller's only for the duration of the call: handed over in a block that is released
			 * (and scribbled on) straight afterwards */
			struct timeval * tvp = __real_malloc(sizeof(struct timeval));
			tv.tv_sec = timeo / 1000000; tv.tv_usec = timeo % 1000000;
			*tvp = tv;
			r->cookie = network_connect_timeo(r->sas, tvp, cb_sock, r);
			tvp->tv_sec = 3600; tvp->tv_usec = 0;
			__real_free(tvp);
		} else
			r->cookie = network_connect(r->sas, cb_sock, r);
		r->state = r->cookie ? 1 : 4;
		vt_begin("req_connect_ret"); vt_int("req", a); vt_bool("ok", r->cookie != NULL); common(); vt_end();
	} else if (strcmp(op, "accept") == 0) {
		struct req * r;
		if (sscanf(l, "%*s %ld %ld", &a, &b) != 2 || a < 1 || a > MAXREQ || b < 0 || b >= fk_n)
			return;
		r = &reqs[a];
		if (r->state != 0)
			return;
		r->kind = 'a'; r->fd = (int)b;
		r->cookie = network_accept(fk_real(r->fd), cb_sock, r);
		r->state = r->cookie ? 1 : 4;
		vt_begin("req_accept"); vt_int("req", a); vt_int("fd", b); vt_bool("ok", r->cookie != NULL); vt_int("ctx", ctx); common(); vt_end();
	} else if (strcmp(op, "hupeof") == 0) {
		if (sscanf(l, "%*s %ld", &a) == 1 && a >= 0 && a < fk_n)
			fn_fds[a].hup_on_eof = 1;
	} else if (strcmp(op, "tick") == 0) {
		if (sscanf(l, "%*s %ld %ld", &a, &b) == 2)
			fk_tick((long long)a * 1000000 + b);
	} else if (strcmp(op, "fail") == 0) {
		char mode[16];
		if (sscanf(l, "%*s %ld %15s", &a, mode) == 2)
			aw_plan(a, strcmp(mode, "persist") == 0);
	} else if (strcmp(op, "run") == 0 && ctx == 0) {
		int rc;
		vt_begin("run_call"); FK_CLOCK("c", fk_clock_us); vt_end();
		rc = events_run();
		vt_begin("run_ret"); vt_int("rc", rc); common(); vt_end();
	} else if (strcmp(op, "runk") == 0 && ctx == 0) {
		/* run with a zero-timeout kick timer, so that the call never blocks */
		struct timeval tv0 = {0, 0};
		int rc;
		void * k = events_timer_register(noop_cb, NULL, &tv0);
		vt_begin("run_call"); FK_CLOCK("c", fk_clock_us); vt_end();
		rc = events_run();
		vt_begin("run_ret"); vt_int("rc", rc); common(); vt_end();
		if (k != NULL && !noop_ran)
			events_timer_cancel(k);
		noop_ran = 0;
	} else if (strcmp(op, "drain") == 0 && ctx == 0) {
		int i, j, rc = 0, pend;
		for (i = 0; i < 2000; i++) {
			pend = 0;
			for (j = 1; j <= MAXREQ; j++)
				if (reqs[j].state == 1) pend++;
			if (!pend)
				break;
			vt_begin("run_call"); FK_CLOCK("c", fk_clock_us); vt_end();
			rc = events_run();
			vt_begin("run_ret"); vt_int("rc", rc); common(); vt_end();
		}
	}
}

static void
log_end(void)
{
	int i, first = 1;

	/* pending requests and what the kernel still had to offer them */
	vt_begin("end"); fprintf(vt_out, ",\"pending\":[");
	for (i = 1; i <= MAXREQ; i++)
		if (reqs[i].state == 1) {
			fprintf(vt_out, "%s%d", first ? "" : ",", i);
			first = 0;
		}
	fprintf(vt_out, "]"); vt_int("allocs", aw_count()); vt_end();
}

static char * lines[1 << 16];
static int nlines;

static void
run_child(void)
{
	int i, cur = 0, nfd = 2, inmain = 0;

	for (i = 1; i <= MAXREQ; i++)
		reqs[i].id = i;
	for (i = 0; i < nlines; i++) {
		char * l = lines[i];
		long a, b;
		while (*l == ' ' || *l == '\t') l++;
		if (sscanf(l, "nfd %ld", &a) == 1) { nfd = (int)a; continue; }
		if (sscanf(l, "script %ld rc %ld", &a, &b) == 2) { cur = (a >= 1 && a <= MAXREQ) ? (int)a : 0; if (cur) reqs[cur].rc = (int)b; continue; }
		if (strncmp(l, "endscript", 9) == 0) { cur = 0; continue; }
		if (cur && reqs[cur].nops < MAXOPS)
			reqs[cur].ops[reqs[cur].nops++] = l;
	}
	fn_init();
	fk_maxpolls = 3000;
	for (i = 0; i < nfd; i++) {
		int lfd = fk_open();
		memset(&fn_fds[lfd], 0, sizeof(struct fn_fd));
		fn_fds[lfd].addr = -1;
	}
	fk_quiescent_fn = log_end;
	aw_enable(1);
	aw_reset();
	for (i = 0; i < nlines; i++) {
		char * l = lines[i];
		while (*l == ' ' || *l == '\t') l++;
		if (strncmp(l, "main", 4) == 0) { inmain = 1; continue; }
		if (strncmp(l, "endmain", 7) == 0) break;
		if (inmain)
			exec_op(l, 0);
	}
	log_end();
	aw_plan(0, 0);
	/* release what is still pending, by the normal cancel calls */
	for (i = 1; i <= MAXREQ; i++)
		if (reqs[i].state == 1) {
			char buf[32];
			snprintf(buf, sizeof(buf), "cancel %d", i);
			exec_op(buf, 0);
		}
	vt_flush();
	exit(0);
}

static void
at_exit_report(void)
{

	vt_begin("exit"); vt_int("live", aw_live()); vt_end();
	vt_flush();
}

int
main(int argc, char ** argv)
{
	static char buf[1 << 22];
	FILE * f;
	size_t len = 0;
	char * p, * q;

	if (argc < 3) {
		fprintf(stderr, "usage: drv_net programs trace\n");
		return (3);
	}
	if ((f = fopen(argv[1], "r")) == NULL) { perror(argv[1]); return (3); }
	vt_open(argv[2]);
	for (;;) {
		int have = 0;
		pid_t pid;
		int st;
		nlines = 0; len = 0;
		while (fgets(buf + len, (int)(sizeof(buf) - len), f) != NULL) {
			p = buf + len;
			if (!have) {
				if (strncmp(p, "prog", 4) == 0) have = 1;
				continue;
			}
			if (strncmp(p, "end\n", 4) == 0 || strcmp(p, "end") == 0)
				break;
			q = p + strlen(p);
			if (q > p && q[-1] == '\n') q[-1] = 0;
			if (nlines < (1 << 16)) lines[nlines++] = p;
			len += strlen(p) + 1;
			if (len > sizeof(buf) - 4096) break;
		}
		if (!have)
			break;
		vt_reset();
		vt_flush();
		if ((pid = fork()) == 0) {
			__real_close(fileno(f));
			atexit(at_exit_report);
			run_child();
		}
		waitpid(pid, &st, 0);
		fseek(vt_out, 0, SEEK_END);
		if (!(WIFEXITED(st) && WEXITSTATUS(st) == 0)) {
			vt_begin("crash"); vt_int("status", st); vt_end();
			vt_flush();
			return (WIFEXITED(st) ? WEXITSTATUS(st) : 99);
		}
	}
	fclose(f);
	fclose(vt_out);
	return (0);
}
