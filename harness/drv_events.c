/*
 * Conformance driver for the event loop (properties C04, C05; C14 scenarios).
 * Executes programs against the real events_*() on the fake kernel.  A program
 * has a main op list and one callback script per registration slot; ids in the
 * trace are slot numbers (the cookie handed to the library is the address of
 * the slot record).  One forked child per program (the library state is
 * static).  The driver records; TLC judges (specs/events/EventsTrace.tla).
 */
#include <sys/time.h>
#include <sys/wait.h>

#include <errno.h>
#include <stdio.h>
#include <stdlib.h>
#include <string.h>
#include <unistd.h>

#include "events.h"

#include "allocwrap.h"
#include "fakekernel.h"

#define MAXSLOT 512
#define MAXOPS 64
struct slot {
	int id;
	char * ops[MAXOPS];	/* callback script */
	int nops;
	int rc;			/* callback result */
	int kind;		/* 0 none, 1 imm, 2 sock, 3 timer */
	int state;		/* 0 none, 1 pending, 2 fired, 3 cancelled */
	void * cookie;
	int fd, dir;
};
static struct slot slots[MAXSLOT + 1];
static int spin_done;
static int depth;

static void exec_op(const char *, int);

/* what a signal handler that wants the loop to stop does (events.h: events_interrupt may be called from a signal handler) */
static void
sig_interrupt(void)
{

	events_interrupt();
	vt_begin("interrupt"); vt_int("ctx", 0); vt_bool("sig", 1); vt_end();
}

static int
callback(void * cookie)
{
	struct slot * s = cookie;
	int i, id;

	if (s < &slots[1] || s > &slots[MAXSLOT]) {
		vt_begin("cb_enter"); vt_int("id", -1); FK_CLOCK("c", fk_clock_us); vt_end();
		return (0);
	}
	id = s->id;
	vt_begin("cb_enter"); vt_int("id", id); FK_CLOCK("c", fk_clock_us); vt_end();
	if (s->state == 1)
		s->state = 2;
	depth++;
	for (i = 0; i < s->nops; i++)
		exec_op(s->ops[i], id);
	depth--;
	vt_begin("cb_ret"); vt_int("id", id); vt_int("rc", s->rc); vt_end();
	return (s->rc);
}

static void
common(void)
{

	vt_int("inj", aw_injected());
	aw_clear_injected();
}

/* ctx: 0 = outside the loop, otherwise the id of the running callback */
static void
exec_op(const char * l, int ctx)
{
	char op[32], a3[32];
	long a = 0, b = 0, c = 0;
	int n;

	a3[0] = 0;
	n = sscanf(l, "%31s %ld %ld %31s", op, &a, &b, a3);
	if (n < 1)
		return;
	c = atol(a3);
	if (strcmp(op, "reg_sock") == 0) {
		/* reg_sock SLOT FD R|W */
		struct slot * s;
		int rc, e;
		if (a < 1 || a > MAXSLOT || b < 0 || b >= fk_n)
			return;
		s = &slots[a];
		if (s->state != 0)
			return;
		errno = 0;
		rc = events_network_register(callback, s, fk_real((int)b),
		    a3[0] == 'R' ? EVENTS_NETWORK_OP_READ : EVENTS_NETWORK_OP_WRITE);
		e = errno;
		if (rc == 0) { s->kind = 2; s->state = 1; s->fd = (int)b; s->dir = a3[0]; }
		vt_begin("reg_sock"); vt_int("id", a); vt_int("fd", b); vt_str("dir", a3[0] == 'R' ? "R" : "W");
		vt_int("rc", rc); vt_bool("eexist", rc != 0 && e == EEXIST); vt_int("ctx", ctx); common(); vt_end();
	} else if (strcmp(op, "reg_imm") == 0) {
		/* reg_imm SLOT PRIO */
		struct slot * s;
		if (a < 1 || a > MAXSLOT || b < 0 || b > 31)
			return;
		s = &slots[a];
		if (s->state != 0)
			return;
		s->cookie = events_immediate_register(callback, s, (int)b);
		if (s->cookie != NULL) { s->kind = 1; s->state = 1; }
		vt_begin("reg_imm"); vt_int("id", a); vt_int("prio", b); vt_bool("ok", s->cookie != NULL);
		vt_int("ctx", ctx); common(); vt_end();
	} else if (strcmp(op, "reg_timer") == 0 || strcmp(op, "reg_timer_cf") == 0) {
		/* reg_timer SLOT SEC USEC */
		struct slot * s;
		struct timeval tv;
		if (a < 1 || a > MAXSLOT || b < 0 || c < 0 || c > 999999)
			return;
		s = &slots[a];
		if (s->state != 0)
			return;
		{
			/* (the timeout belongs to the caller again as soon as the call returns) */
			struct timeval * tvp = __real_malloc(sizeof(struct timeval));
			tv.tv_sec = b; tv.tv_usec = c;
			*tvp = tv;
			/* "reg_timer_cf": the clock cannot be read while this registration is made */
			if (strcmp(op, "reg_timer_cf") == 0) { fk_clockfail = 1; fk_clockfailed = 0; }
			s->cookie = events_timer_register(callback, s, tvp);
			fk_clockfail = 0;
			tvp->tv_sec = 7; tvp->tv_usec = 7;
			__real_free(tvp);
		}
		if (s->cookie != NULL) { s->kind = 3; s->state = 1; }
		vt_begin("reg_timer"); vt_int("id", a); vt_int("ts", b); vt_int("tu", c); vt_bool("ok", s->cookie != NULL);
		if (strcmp(op, "reg_timer_cf") == 0) { vt_int("cf", fk_clockfailed); fk_clockfailed = 0; }
		FK_CLOCK("c", fk_clock_us); vt_int("ctx", ctx); common(); vt_end();
	} else if (strcmp(op, "cancel_sock") == 0) {
		/* cancel_sock FD R|W: legal whether or not something is registered (ENOENT) */
		char d[8];
		int rc, e, i;
		if (sscanf(l, "%*s %ld %7s", &a, d) != 2 || a < 0 || a >= fk_n)
			return;
		errno = 0;
		rc = events_network_cancel(fk_real((int)a), d[0] == 'R' ? EVENTS_NETWORK_OP_READ : EVENTS_NETWORK_OP_WRITE);
		e = errno;
		if (rc == 0)
			for (i = 1; i <= MAXSLOT; i++)
				if (slots[i].kind == 2 && slots[i].state == 1 && slots[i].fd == a && slots[i].dir == d[0])
					slots[i].state = 3;
		vt_begin("cancel_sock"); vt_int("fd", a); vt_str("dir", d[0] == 'R' ? "R" : "W"); vt_int("rc", rc);
		vt_bool("enoent", rc != 0 && e == ENOENT); vt_int("ctx", ctx); common(); vt_end();
	} else if (strcmp(op, "cancel") == 0) {
		/* cancel SLOT (immediate or timer; only while pending by the driver's bookkeeping) */
		struct slot * s;
		if (a < 1 || a > MAXSLOT)
			return;
		s = &slots[a];
		if (s->state != 1 || (s->kind != 1 && s->kind != 3))
			return;
		if (s->kind == 1)
			events_immediate_cancel(s->cookie);
		else
			events_timer_cancel(s->cookie);
		s->state = 3;
		vt_begin(s->kind == 1 ? "cancel_imm" : "cancel_timer"); vt_int("id", a); vt_int("ctx", ctx); common(); vt_end();
	} else if (strcmp(op, "reset") == 0) {
		struct slot * s;
		int rc;
		if (a < 1 || a > MAXSLOT)
			return;
		s = &slots[a];
		if (s->state != 1 || s->kind != 3)
			return;
		rc = events_timer_reset(s->cookie);
		vt_begin("reset_timer"); vt_int("id", a); vt_int("rc", rc); FK_CLOCK("c", fk_clock_us); vt_int("ctx", ctx); vt_end();
	} else if (strcmp(op, "interrupt") == 0) {
		events_interrupt();
		vt_begin("interrupt"); vt_int("ctx", ctx); vt_end();
	} else if (strcmp(op, "sigintr") == 0 && ctx == 0) {
		/* sigintr MODE: a signal handler calls events_interrupt() while the next run is inside its first poll(2) */
		fk_sig_fn = sig_interrupt;
		fk_sig_armed = (a == 2) ? 2 : 1;
	} else if (strcmp(op, "env") == 0) {
		/* env FD FLAGS(mask) */
		fk_set_ready((int)a, (int)b);
	} else if (strcmp(op, "tick") == 0) {
		/* tick SEC USEC */
		fk_tick((long long)a * 1000000 + b);
	} else if (strcmp(op, "sched") == 0) {
		/* sched T(us from now) FD FLAGS(mask) */
		fk_add_sched(fk_clock_us + a, (int)b, (int)c);
		vt_begin("sched"); FK_CLOCK("t", fk_clock_us + a); vt_int("fd", b); vt_int("flags", c); vt_end();
	} else if (strcmp(op, "done") == 0) {
		spin_done = 1;
		vt_begin("done_set"); vt_end();
	} else if (strcmp(op, "fail") == 0) {
		char mode[16];
		if (sscanf(l, "%*s %ld %15s", &a, mode) == 2)
			aw_plan(a, strcmp(mode, "persist") == 0);
	} else if ((strcmp(op, "run") == 0 || strcmp(op, "spin") == 0) && ctx == 0) {
		int rc, spin = (op[0] == 's');
		vt_begin("run_call"); vt_bool("spin", spin); FK_CLOCK("c", fk_clock_us); vt_end();
		rc = spin ? events_spin(&spin_done) : events_run();
		fk_sig_armed = 0;
		vt_begin("run_ret"); vt_int("rc", rc); FK_CLOCK("c", fk_clock_us); common(); vt_end();
	}
}

static char * lines[1 << 16];
static int nlines;

static void
run_child(void)
{
	int i, cur = 0, nfd = 3, inmain = 0;
	long nallocs;

	for (i = 1; i <= MAXSLOT; i++)
		slots[i].id = i;
	/* first pass: scripts */
	for (i = 0; i < nlines; i++) {
		char * l = lines[i];
		long a, b;
		while (*l == ' ' || *l == '\t') l++;
		if (sscanf(l, "fds %ld", &a) == 1) { nfd = (int)a; continue; }
		if (sscanf(l, "script %ld rc %ld", &a, &b) == 2) { cur = (a >= 1 && a <= MAXSLOT) ? (int)a : 0; if (cur) slots[cur].rc = (int)b; continue; }
		if (strncmp(l, "endscript", 9) == 0) { cur = 0; continue; }
		if (cur && slots[cur].nops < MAXOPS)
			slots[cur].ops[slots[cur].nops++] = l;
	}
	for (i = 0; i < nfd; i++)
		fk_open();
	aw_enable(1);
	fk_allocs_fn = aw_count;
	aw_reset();
	for (i = 0; i < nlines; i++) {
		char * l = lines[i];
		while (*l == ' ' || *l == '\t') l++;
		if (strncmp(l, "main", 4) == 0) { inmain = 1; continue; }
		if (strncmp(l, "endmain", 7) == 0) break;
		if (inmain)
			exec_op(l, 0);
	}
	/* Release what the driver believes is still pending, then report the live set. */
	nallocs = aw_count();
	aw_plan(0, 0);
	for (i = 1; i <= MAXSLOT; i++) {
		struct slot * s = &slots[i];
		if (s->state != 1)
			continue;
		if (s->kind == 1) events_immediate_cancel(s->cookie);
		else if (s->kind == 3) events_timer_cancel(s->cookie);
		else if (s->kind == 2) events_network_cancel(fk_real(s->fd), s->dir == 'R' ? EVENTS_NETWORK_OP_READ : EVENTS_NETWORK_OP_WRITE);
		s->state = 3;
	}
	vt_begin("end"); vt_int("allocs", nallocs); vt_end();
	vt_flush();
	exit(0);
}

static void
at_exit_report(void)
{

	/* registered before anything else => runs after the library's own atexit handlers */
	vt_begin("exit"); vt_int("live", aw_live()); vt_end();
	vt_flush();
}

int
main(int argc, char ** argv)
{
	static char buf[1 << 22];
	FILE * f;
	size_t len = 0;
	char * p, * q;

	if (argc < 3) {
		fprintf(stderr, "usage: drv_events programs trace\n");
		return (3);
	}
	if ((f = fopen(argv[1], "r")) == NULL) { perror(argv[1]); return (3); }
	vt_open(argv[2]);
	for (;;) {
		/* read one program ("prog" ... "end") */
		int have = 0;
		pid_t pid;
		int st;
		nlines = 0; len = 0;
		while (fgets(buf + len, (int)(sizeof(buf) - len), f) != NULL) {
			p = buf + len;
			if (!have) {
				if (strncmp(p, "prog", 4) == 0) have = 1;
				continue;
			}
			if (strncmp(p, "end\n", 4) == 0 || strcmp(p, "end") == 0)
				break;
			q = p + strlen(p);
			if (q > p && q[-1] == '\n') q[-1] = 0;
			if (nlines < (1 << 16)) lines[nlines++] = p;
			len += strlen(p) + 1;
			if (len > sizeof(buf) - 4096) break;
		}
		if (!have)
			break;
		vt_reset();
		vt_flush();
		if ((pid = fork()) == 0) {
			close(fileno(f));	/* or exit() would rewind the shared offset under the parent */
			atexit(at_exit_report);
			run_child();
		}
		waitpid(pid, &st, 0);
		fseek(vt_out, 0, SEEK_END);
		if (!(WIFEXITED(st) && WEXITSTATUS(st) == 0)) {
			/* the child died inside the library: report and stop so that the runner sees a failing driver */
			vt_begin("crash"); vt_int("status", st); vt_end();
			vt_flush();
			return (WIFEXITED(st) ? WEXITSTATUS(st) : 99);
		}
	}
	fclose(f);
	fclose(vt_out);
	return (0);
}
