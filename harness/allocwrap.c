#include <errno.h>
#include <stdint.h>
#include <stdio.h>
#include <stdlib.h>
#include <string.h>

#include "allocwrap.h"

#define NB 65536
struct ent { const void * p; size_t sz; long id; struct ent * next; };
static struct ent * tab[NB];
static long nlive, nextid = 1;
static long cnt, plan_k, injected;
static int plan_persist, enabled = 0;
static const void * last_realloc_ptr;
static size_t last_realloc_sz;
void (*aw_free_hook)(void *, size_t);
void (*aw_strdup_hook)(void *, size_t);

static size_t hp(const void * p) { return (((uintptr_t)p) >> 4) % NB; }
static void add(const void * p, size_t sz) {
	struct ent * e = __real_malloc(sizeof(*e));
	e->p = p; e->sz = sz; e->id = nextid++; e->next = tab[hp(p)]; tab[hp(p)] = e; nlive++;
}
static struct ent * find(const void * p) {
	struct ent * e;
	for (e = tab[hp(p)]; e; e = e->next) if (e->p == p) return (e);
	return (NULL);
}
static int del(const void * p) {
	struct ent ** pe = &tab[hp(p)], * e;
	for (; (e = *pe) != NULL; pe = &e->next)
		if (e->p == p) { *pe = e->next; __real_free(e); nlive--; return (1); }
	return (0);
}
static int shouldfail(void) {
	if (!enabled) return (0);
	cnt++;
	if (plan_k > 0 && (cnt == plan_k || (plan_persist && cnt > plan_k))) { injected++; errno = ENOMEM; return (1); }
	return (0);
}
void aw_enable(int on) { enabled = on; }
void aw_reset(void) { cnt = 0; plan_k = 0; plan_persist = 0; injected = 0; }
void aw_plan(long k, int persistent) { cnt = 0; plan_k = k; plan_persist = persistent; }
long aw_count(void) { return (cnt); }
int aw_injected(void) { return ((int)injected); }
void aw_clear_injected(void) { injected = 0; }
long aw_live(void) { return (nlive); }
long aw_live_id(const void * p) { struct ent * e = find(p); return (e ? e->id : 0); }
size_t aw_live_size(const void * p) { struct ent * e = find(p); return (e ? e->sz : 0); }
size_t aw_last_realloc_size(void) { return (last_realloc_ptr ? last_realloc_sz : 0); }

/* Recycling (aw_recycle): while on, a released tracked block is kept and handed out again, contents and all, by the next request
 * of the same size - what a production allocator does at once and the sanitizer's quarantine never does.  Makes "a new object at
 * the address of the one just freed" a deterministic event. */
#define NSTASH 8
static struct { void * p; size_t sz; } stash[NSTASH];
static int nstash, recycle;
void aw_recycle(int on) {
	recycle = on;
	if (!on) while (nstash > 0) __real_free(stash[--nstash].p);
}
static void * unstash(size_t n) {
	int i;
	for (i = nstash - 1; i >= 0; i--)
		if (stash[i].sz == n) { void * p = stash[i].p; stash[i] = stash[--nstash]; return (p); }
	return (NULL);
}

void * __wrap_malloc(size_t n) {
	void * p;
	if (shouldfail()) return (NULL);
	if (recycle && (p = unstash(n)) != NULL) { if (enabled) add(p, n); return (p); }
	p = __real_malloc(n);
	if (p && enabled) add(p, n);
	return (p);
}
void * __wrap_calloc(size_t a, size_t b) {
	void * p;
	if (shouldfail()) return (NULL);
	p = __real_calloc(a, b);
	if (p && enabled) add(p, a * b);
	return (p);
}
void * __wrap_realloc(void * o, size_t n) {
	void * p;
	if (shouldfail()) return (NULL);
	if (enabled && o != NULL && aw_free_hook != NULL && find(o)) aw_free_hook(o, find(o)->sz);
	p = __real_realloc(o, n);
	if (p == NULL && n != 0) return (NULL);
	if (enabled) {
		if (o) del(o);
		if (p) add(p, n);
		last_realloc_ptr = p; last_realloc_sz = n;
	}
	return (p);
}
void __wrap_free(void * p) {
	if (p == NULL) return;
	if (enabled) {
		struct ent * e = find(p);
		if (e && aw_free_hook != NULL) aw_free_hook(p, e->sz);
		if (recycle && e != NULL && nstash < NSTASH) {
			stash[nstash].p = p; stash[nstash].sz = e->sz; nstash++;
			del(p);
			if (p == last_realloc_ptr) last_realloc_ptr = NULL;
			return;
		}
		del(p);
		if (p == last_realloc_ptr) last_realloc_ptr = NULL;
	}
	__real_free(p);
}
char * __wrap_strdup(const char * s) {
	size_t n = strlen(s) + 1;
	char * p = __wrap_malloc(n);
	if (p) memcpy(p, s, n);
	if (p && enabled && aw_strdup_hook != NULL) aw_strdup_hook(p, n);
	return (p);
}
