/*
 * Conformance driver for the cryptographic functions (properties C01, C02,
 * C03, C10, C11, C19, C20).  One line of the program = one operation = one
 * trace event.  Built once per CPU-feature configuration (C03).
 *
 *  hash ALG CUTS ALIGN HEX            streaming digest with the given update sizes + one-shot
 *  hmac ALG KEYHEX CUTS HEX           streaming HMAC + one-shot
 *  pbkdf2 PASSHEX SALTHEX C DKLEN
 *  crc CUTS ALIGN HEX
 *  aes KEYHEX BLOCKHEX
 *  ctr KEYHEX NONCE CUTS INPLACE LEN|HEX   (CUTS: sizes, or R<nonce> = re-initialise; LEN = "pattern:<n>" for long streams)
 *  dhpub PRIVHEX BLINDHEX / dhkey PUBHEX PRIVHEX BLINDHEX / dhsane PUBHEX
 *  sig VARIANT TIME ARGS...
 *  drbg SIZES.. / ENTROPY..           (forked child)
 *  keyfile CONTENTHEX                 (C20: failing key files)
 */
#include <sys/stat.h>
#include <sys/wait.h>

#include <errno.h>
#include <fcntl.h>
#include <stdint.h>
#include <stdio.h>
#include <stdlib.h>
#include <string.h>
#include <time.h>
#include <unistd.h>

#include <openssl/bn.h>
#include <openssl/crypto.h>
#include <openssl/err.h>

#include "aws_readkeys.h"
#include "aws_sign.h"
#include "crc32c.h"
#include "crypto_aes.h"
#include "crypto_aesctr.h"
#include "crypto_dh.h"
#include "crypto_verify_bytes.h"
#include "crypto_entropy.h"
#include "md5.h"
#include "sha1.h"
#include "sha256.h"

#include "allocwrap.h"
#include "vtrace.h"

static size_t
unhex(const char * h, uint8_t * out, size_t max)
{
	size_t n = 0;
	unsigned v;

	if (strcmp(h, "-") == 0) return (0);
	while (h[0] && h[1] && h[0] != ' ' && h[0] != '\n' && n < max && sscanf(h, "%2x", &v) == 1) { out[n++] = (uint8_t)v; h += 2; }
	return (n);
}

static int
allzero(const void * p, size_t n)
{
	const uint8_t * b = p;
	size_t i;

	for (i = 0; i < n; i++) if (b[i]) return (0);
	return (1);
}

/* ---- secrets registered for the free-time scanner (C20) ---- */
#define MAXSEC 16
static struct { uint8_t pat[600]; size_t len; const char * what; } secrets[MAXSEC];
static int nsecrets;
static int tainted_frees;
static char tainted_what[128];

static void
secret_add(const void * p, size_t len, const char * what)
{

	if (nsecrets < MAXSEC && len >= 8 && len <= sizeof(secrets[0].pat)) {
		memcpy(secrets[nsecrets].pat, p, len); secrets[nsecrets].len = len; secrets[nsecrets].what = what; nsecrets++;
	}
}
/* an 8-byte window identifies the secret only if it is not something ordinary memory contains anyway */
static int
distinctive(const uint8_t * w)
{
	int seen[256] = {0}, i, d = 0;

	for (i = 0; i < 8; i++) if (!seen[w[i]]++) d++;
	return (d >= 6);
}

/* a freed region is tainted if it contains any 8-byte window of a registered secret */
static void
scan_region(const void * p, size_t n)
{
	const uint8_t * b = p;
	int s;
	size_t i, j;

	if (nsecrets == 0 || n < 8)
		return;
	for (s = 0; s < nsecrets; s++)
		for (j = 0; j + 8 <= secrets[s].len; j += 4) {
			if (!distinctive(secrets[s].pat + j)) continue;	/* low-entropy windows would match innocent memory */
			for (i = 0; i + 8 <= n; i++)
				if (b[i] == secrets[s].pat[j] && memcmp(b + i, secrets[s].pat + j, 8) == 0) {
					tainted_frees++;
					snprintf(tainted_what, sizeof(tainted_what), "%s (region of %zu bytes)", secrets[s].what, n);
					return;
				}
		}
}
/* every release in the process, the C library's own included (getline growing its line buffer, stdio), is seen by the
 * sanitizer run time: while a key file is being read, each released block is scanned too.  stdio's own buffer holds the raw
 * file in the unchanged library as well and is released inside fclose(): that call is exempt. */
#if defined(__SANITIZE_ADDRESS__)
size_t __sanitizer_get_allocated_size(const volatile void *);
void __sanitizer_free_hook(const volatile void *);
static int scan_all_frees, in_fclose;
void
__sanitizer_free_hook(const volatile void * p)
{
	static int busy;

	if (!scan_all_frees || in_fclose || busy || p == NULL || nsecrets == 0)
		return;
	busy = 1;
	scan_region((const void *)p, __sanitizer_get_allocated_size(p));
	busy = 0;
}
int __real_fclose(FILE *);
int __wrap_fclose(FILE *);
int
__wrap_fclose(FILE * f)
{
	int rc;

	in_fclose++;
	rc = __real_fclose(f);
	in_fclose--;
	return (rc);
}
#else
static int scan_all_frees;
#endif

/* blocks into which the library copied a string containing the current secret (key files): when such a block is released,
 * no byte of the copy may be left - a wipe that stops short of the end leaves the tail of the secret behind */
static struct { void * p; size_t n; } secret_blocks[16];
static int nsecret_blocks;
static const char * cur_secret; static size_t cur_secret_len;
static int
contains(const void * hay, size_t n, const void * needle, size_t m)
{
	size_t i;

	for (i = 0; m <= n && i <= n - m; i++)
		if (memcmp((const uint8_t *)hay + i, needle, m) == 0)
			return (1);
	return (0);
}
static void
strdup_hook(void * p, size_t n)
{
	if (cur_secret != NULL && cur_secret_len > 0 && n >= cur_secret_len && nsecret_blocks < 16 &&
	    contains(p, n, cur_secret, cur_secret_len)) {
		secret_blocks[nsecret_blocks].p = p; secret_blocks[nsecret_blocks].n = n; nsecret_blocks++;
	}
}
/* an object that must be wiped as a whole when it is released (AES-CTR stream objects: counter block, buffered cipherstream) */
static void * wiped_expect;
static void
free_hook(void * p, size_t n)
{
	int i;
	size_t j;

	scan_region(p, n);
	if (p == wiped_expect) {
		for (j = 0; j < n; j++)
			if (((uint8_t *)p)[j] != 0) {
				tainted_frees++;
				snprintf(tainted_what, sizeof(tainted_what), "stream object released without being wiped (non-zero byte at offset %zu of %zu)", j, n);
				break;
			}
		wiped_expect = NULL;
	}
	for (i = 0; i < nsecret_blocks; i++)
		if (secret_blocks[i].p == p) {
			for (j = 0; j < n; j++)
				if (((uint8_t *)p)[j] != 0) {
					tainted_frees++;
					snprintf(tainted_what, sizeof(tainted_what), "copy of the secret key not wiped completely (%zu of %zu bytes left, from offset %zu)", n - j, n, j);
					break;
				}
			secret_blocks[i].p = NULL;
		}
}

/* OpenSSL allocations (bignums): tracked so that their release can be scanned too */
struct ossl_hdr { size_t n; size_t pad; };
static long ossl_count, ossl_failat, ossl_injected;	/* fail the ossl_failat-th OpenSSL allocation (0 = never) */
static void * ossl_malloc(size_t n, const char * f, int l)
{
	struct ossl_hdr * h;

	(void)f; (void)l;
	if (++ossl_count == ossl_failat) { ossl_injected++; return (NULL); }
	h = __real_malloc(n + sizeof(*h)); if (!h) return (NULL); h->n = n; return (h + 1);
}
static void ossl_free(void * p, const char * f, int l) { struct ossl_hdr * h; (void)f; (void)l; if (!p) return; h = (struct ossl_hdr *)p - 1; scan_region(p, h->n); __real_free(h); }
static void * ossl_realloc(void * p, size_t n, const char * f, int l)
{
	struct ossl_hdr * h;
	void * q;

	if (p == NULL) return (ossl_malloc(n, f, l));
	if (n == 0) { ossl_free(p, f, l); return (NULL); }
	h = (struct ossl_hdr *)p - 1;
	q = ossl_malloc(n, f, l);
	if (q == NULL) return (NULL);
	memcpy(q, p, h->n < n ? h->n : n);
	ossl_free(p, f, l);
	return (q);
}

/* ---- scripted blinding for Diffie-Hellman / real DRBG otherwise ---- */
static uint8_t dh_blind[32];
static int dh_mode;
int __real_crypto_entropy_read(uint8_t *, size_t);
int __wrap_crypto_entropy_read(uint8_t *, size_t);
int
__wrap_crypto_entropy_read(uint8_t * buf, size_t len)
{
	size_t i;

	if (!dh_mode)
		return (__real_crypto_entropy_read(buf, len));
	for (i = 0; i < len; i++) buf[i] = dh_blind[i % 32];
	return (0);
}

/* ---- scripted /dev/urandom (C11) ---- */
static int ur_fd = -1;
static struct { int kind; long n; } ur_script[4096];	/* kind: 0 ok-full, 1 short(n), 2 error (EIO), 3 eof, 4 open-fails, 5 error (EINTR) */
static int ur_n, ur_h;
static uint64_t ur_ctr;
int __real_open(const char *, int, ...);
int __wrap_open(const char *, int, ...);
int
__wrap_open(const char * path, int flags, ...)
{

	if (strcmp(path, "/dev/urandom") == 0) {
		if (ur_h < ur_n && ur_script[ur_h].kind == 4) {
			ur_h++;
			vt_begin("entropy"); vt_str("op", "open"); vt_bool("ok", 0); vt_int("len", 0); vt_end();
			errno = EMFILE;
			return (-1);
		}
		ur_fd = __real_open("/dev/null", O_RDONLY);
		return (ur_fd);
	}
	return (__real_open(path, flags, 0600));
}
ssize_t __real_read(int, void *, size_t);
ssize_t __wrap_read(int, void *, size_t);
ssize_t
__wrap_read(int fd, void * buf, size_t len)
{
	int kind = 0;
	long n = (long)len, i;

	if (fd != ur_fd || ur_fd < 0)
		return (__real_read(fd, buf, len));
	if (ur_h < ur_n) { kind = ur_script[ur_h].kind; if (kind == 1 && ur_script[ur_h].n < n) n = ur_script[ur_h].n; ur_h++; }
	if (kind == 2 || kind == 5) { vt_begin("entropy"); vt_str("op", "read"); vt_bool("ok", 0); vt_int("len", (long long)len); vt_end(); errno = (kind == 5) ? EINTR : EIO; return (-1); }
	if (kind == 3) { vt_begin("entropy"); vt_str("op", "eof"); vt_bool("ok", 0); vt_int("len", (long long)len); vt_end(); return (0); }
	if (n < 1) n = 1;
	for (i = 0; i < n; i++) { ur_ctr = ur_ctr * 6364136223846793005ULL + 1442695040888963407ULL; ((uint8_t *)buf)[i] = (uint8_t)(ur_ctr >> 56); }
	vt_begin("entropy"); vt_str("op", "read"); vt_bool("ok", 1); vt_int("len", (long long)len); vt_hex("bytes", buf, (size_t)n); vt_end();
	return (n);
}

/* ---- wrapped time (C19) ---- */
static time_t fake_time;
time_t __wrap_time(time_t *);
time_t
__wrap_time(time_t * t)
{

	time_t now = fake_time;

	/* the clock moves on between two readings: whoever reads it twice during one call sees two different seconds (and, at 23:59:59,
	 * two different days); the first reading is the one reported with the event */
	fake_time += 1;
	if (t != NULL) *t = now;
	return (now);
}

static int
parse_cuts(const char * s, long * cuts, int max)
{
	int n = 0;

	if (strcmp(s, "-") == 0) return (0);
	while (*s && n < max) {
		cuts[n++] = strtol(s, (char **)&s, 10);
		if (*s == ',') s++;
	}
	return (n);
}

static uint8_t msg[1 << 21], key[4096], out[1 << 21];

static void
do_hash(char * l)
{
	char alg[16], cutss[8192], hex[1 << 19];
	long cuts[1024], counts[1024];
	int align, ncuts, i;
	size_t len, off = 0;
	uint8_t * buf, dig[32], one[32];
	size_t dl;
	int zero, npd = 0;
#define NPD 6
	uint8_t pd[NPD][32];

	if (sscanf(l, "hash %15s %8191s %d %524287s", alg, cutss, &align, hex) != 4) return;
	len = unhex(hex, msg, sizeof(msg));
	ncuts = parse_cuts(cutss, cuts, 1024);
	buf = malloc(len + (size_t)align + 1);
	memcpy(buf + align, msg, len);
	/* The context is a plain value: after every update it is moved to a new block (the old one is poisoned and released),
	 * and a copy of it is finalised to read the digest of what has been fed so far (PBKDF2_SHA256 forks contexts the same way). */
#define STREAM(CTX, INIT, UPDATE, FINAL, COUNT) do {								\
	CTX * cp = __real_malloc(sizeof(CTX)), * q, snap;							\
	INIT(cp);												\
	for (i = 0; i < ncuts; i++) {										\
		UPDATE(cp, buf + align + off, (size_t)cuts[i]); off += (size_t)cuts[i]; counts[i] = (long)(COUNT);	\
		if (i < NPD) { memcpy(&snap, cp, sizeof(CTX)); FINAL(pd[i], &snap); npd = i + 1; }		\
		q = __real_malloc(sizeof(CTX)); memcpy(q, cp, sizeof(CTX)); memset(cp, 0xA5, sizeof(CTX));	\
		__real_free(cp); cp = q;									\
	}													\
	FINAL(dig, cp); zero = allzero(cp, sizeof(CTX)); __real_free(cp);					\
} while (0)
	if (strcmp(alg, "sha256") == 0) {
		dl = 32;
		STREAM(SHA256_CTX, SHA256_Init, SHA256_Update, SHA256_Final, cp->count >> 3);
		SHA256_Buf(buf + align, len, one);
	} else if (strcmp(alg, "sha1") == 0) {
		dl = 20;
		STREAM(SHA1_CTX, SHA1_Init, SHA1_Update, SHA1_Final, off);
		SHA1_Buf(buf + align, len, one);
	} else {
		dl = 16;
		STREAM(MD5_CTX, MD5_Init, MD5_Update, MD5_Final, off);
		MD5_Buf(buf + align, len, one);
	}
	vt_begin("hash"); vt_str("alg", alg); vt_str("msg", strcmp(hex, "-") ? hex : "");
	fprintf(vt_out, ",\"cuts\":["); for (i = 0; i < ncuts; i++) fprintf(vt_out, "%s%ld", i ? "," : "", cuts[i]); fprintf(vt_out, "]");
	fprintf(vt_out, ",\"counts\":["); for (i = 0; i < ncuts; i++) fprintf(vt_out, "%s%ld", i ? "," : "", counts[i]); fprintf(vt_out, "]");
	vt_hex("digest", dig, dl); vt_hex("oneshot", one, dl); vt_bool("zero", zero); vt_int("align", align);
	fprintf(vt_out, ",\"pdig\":["); for (i = 0; i < npd; i++) { fprintf(vt_out, "%s\"", i ? "," : ""); { size_t j; for (j = 0; j < dl; j++) fprintf(vt_out, "%02x", pd[i][j]); } fprintf(vt_out, "\""); } fprintf(vt_out, "]");
	{
		/* the one-shot call with the digest written over the beginning of the message */
		uint8_t * tm = __real_malloc((len > dl ? len : dl) + 1);
		memcpy(tm, buf + align, len);
		if (dl == 32) SHA256_Buf(tm, len, tm); else if (dl == 20) SHA1_Buf(tm, len, tm); else MD5_Buf(tm, len, tm);
		vt_hex("overmsg", tm, dl);
		__real_free(tm);
	}
	vt_end();
	free(buf);
}

static void
do_hmac(char * l)
{
	char alg[16], khex[8192], cutss[8192], hex[1 << 19];
	long cuts[1024];
	int ncuts, i, zero;
	size_t len, klen, off = 0, dl;
	uint8_t dig[32], one[32], pd[NPD][32];
	long pdo[NPD];
	int npd = 0;

	if (sscanf(l, "hmac %15s %8191s %8191s %524287s", alg, khex, cutss, hex) != 4) return;
	klen = unhex(khex, key, sizeof(key));
	len = unhex(hex, msg, sizeof(msg));
	ncuts = parse_cuts(cutss, cuts, 1024);
#define HSTREAM(CTX, INIT, UPDATE, FINAL) do {									\
	CTX * cp = __real_malloc(sizeof(CTX)), * q, snap;							\
	INIT(cp, key, klen);											\
	for (i = 0; i < ncuts; i++) {										\
		UPDATE(cp, msg + off, (size_t)cuts[i]); off += (size_t)cuts[i];					\
		if (i < NPD) { memcpy(&snap, cp, sizeof(CTX)); FINAL(pd[i], &snap); pdo[i] = (long)off; npd = i + 1; }	\
		q = __real_malloc(sizeof(CTX)); memcpy(q, cp, sizeof(CTX)); memset(cp, 0xA5, sizeof(CTX));	\
		__real_free(cp); cp = q;									\
	}													\
	FINAL(dig, cp); zero = allzero(cp, sizeof(CTX)); __real_free(cp);					\
} while (0)
	if (strcmp(alg, "sha256") == 0) {
		dl = 32;
		HSTREAM(HMAC_SHA256_CTX, HMAC_SHA256_Init, HMAC_SHA256_Update, HMAC_SHA256_Final);
		HMAC_SHA256_Buf(key, klen, msg, len, one);
	} else if (strcmp(alg, "sha1") == 0) {
		dl = 20;
		HSTREAM(HMAC_SHA1_CTX, HMAC_SHA1_Init, HMAC_SHA1_Update, HMAC_SHA1_Final);
		HMAC_SHA1_Buf(key, klen, msg, len, one);
	} else {
		dl = 16;
		HSTREAM(HMAC_MD5_CTX, HMAC_MD5_Init, HMAC_MD5_Update, HMAC_MD5_Final);
		HMAC_MD5_Buf(key, klen, msg, len, one);
	}
	{
		/* the one-shot call with the digest written over the start of the message, and over the start of the key (nothing in the
		 * interface forbids it: the library's own generator does the former) */
		uint8_t * tm = __real_malloc((len > dl ? len : dl) + 1), * tk = __real_malloc((klen > dl ? klen : dl) + 1);
		uint8_t overm[32], overk[32];
		memcpy(tm, msg, len); memcpy(tk, key, klen);
		if (dl == 32) { HMAC_SHA256_Buf(key, klen, tm, len, tm); memcpy(overm, tm, dl); HMAC_SHA256_Buf(tk, klen, msg, len, tk); memcpy(overk, tk, dl); }
		else if (dl == 20) { HMAC_SHA1_Buf(key, klen, tm, len, tm); memcpy(overm, tm, dl); HMAC_SHA1_Buf(tk, klen, msg, len, tk); memcpy(overk, tk, dl); }
		else { HMAC_MD5_Buf(key, klen, tm, len, tm); memcpy(overm, tm, dl); HMAC_MD5_Buf(tk, klen, msg, len, tk); memcpy(overk, tk, dl); }
		__real_free(tm); __real_free(tk);
		vt_begin("hmac"); vt_str("alg", alg); vt_str("key", strcmp(khex, "-") ? khex : ""); vt_str("msg", strcmp(hex, "-") ? hex : "");
		vt_hex("digest", dig, dl); vt_hex("oneshot", one, dl); vt_hex("overmsg", overm, dl); vt_hex("overkey", overk, dl); vt_bool("zero", zero);
		fprintf(vt_out, ",\"pdo\":["); for (i = 0; i < npd; i++) fprintf(vt_out, "%s%ld", i ? "," : "", pdo[i]); fprintf(vt_out, "]");
		fprintf(vt_out, ",\"pdig\":["); for (i = 0; i < npd; i++) { size_t j; fprintf(vt_out, "%s\"", i ? "," : ""); for (j = 0; j < dl; j++) fprintf(vt_out, "%02x", pd[i][j]); fprintf(vt_out, "\""); } fprintf(vt_out, "]");
		vt_end();
	}
}

/* hashbig ALG LEN CHUNK : LEN bytes of the periodic pattern (byte i = P[i mod 1048573]) fed in updates of CHUNK bytes */
static void
do_hashbig(char * l)
{
	static uint8_t * pat;
	const size_t period = 1048573;
	char alg[16];
	long long len, chunk, done = 0;
	uint8_t dig[32];
	size_t dl, j;
	int zero;
	SHA256_CTX c2; SHA1_CTX c1; MD5_CTX c5;

	if (sscanf(l, "hashbig %15s %lld %lld", alg, &len, &chunk) != 3 || len < 0 || chunk < 1 || chunk > (long long)period) return;
	if (pat == NULL) {
		pat = __real_malloc(2 * period);
		for (j = 0; j < 2 * period; j++) { size_t q = j % period; pat[j] = (uint8_t)((131 * q + 7 * (q >> 8) + 13) & 0xff); }
	}
	if (strcmp(alg, "sha256") == 0) { SHA256_Init(&c2); dl = 32; }
	else if (strcmp(alg, "sha1") == 0) { SHA1_Init(&c1); dl = 20; }
	else { MD5_Init(&c5); dl = 16; }
	while (done < len) {
		size_t k = (size_t)((len - done < chunk) ? len - done : chunk);
		const uint8_t * src = pat + (size_t)(done % (long long)period);	/* (the doubled buffer makes every window contiguous) */
		if (dl == 32) SHA256_Update(&c2, src, k); else if (dl == 20) SHA1_Update(&c1, src, k); else MD5_Update(&c5, src, k);
		done += (long long)k;
	}
	if (dl == 32) { SHA256_Final(dig, &c2); zero = allzero(&c2, sizeof(c2)); }
	else if (dl == 20) { SHA1_Final(dig, &c1); zero = allzero(&c1, sizeof(c1)); }
	else { MD5_Final(dig, &c5); zero = allzero(&c5, sizeof(c5)); }
	vt_begin("hashbig"); vt_str("alg", alg); vt_int("len", len); vt_int("chunk", chunk); vt_hex("digest", dig, dl); vt_bool("zero", zero); vt_end();
}

static void
do_pbkdf2(char * l)
{
	char phex[8192], shex[8192];
	long c, dklen;
	size_t plen, slen;
	static uint8_t salt[4096];

	if (sscanf(l, "pbkdf2 %8191s %8191s %ld %ld", phex, shex, &c, &dklen) != 4 || dklen < 1 || dklen > 100000) return;
	plen = unhex(phex, key, sizeof(key));
	slen = unhex(shex, salt, sizeof(salt));
	PBKDF2_SHA256(key, plen, salt, slen, (uint64_t)c, out, (size_t)dklen);
	vt_begin("pbkdf2"); vt_str("pass", strcmp(phex, "-") ? phex : ""); vt_str("salt", strcmp(shex, "-") ? shex : "");
	vt_int("c", c); vt_int("dklen", dklen); vt_hex("out", out, (size_t)dklen); vt_end();
}

static void
do_crc(char * l)
{
	char cutss[8192], hex[1 << 19];
	long cuts[1024];
	int align, ncuts, i;
	size_t len, off = 0;
	uint8_t * buf, dig[4], pd[NPD][4];
	CRC32C_CTX * cp;
	long pdo[NPD];
	int npd = 0;

	if (sscanf(l, "crc %8191s %d %524287s", cutss, &align, hex) != 3) return;
	len = unhex(hex, msg, sizeof(msg));
	ncuts = parse_cuts(cutss, cuts, 1024);
	buf = malloc(len + (size_t)align + 1);
	memcpy(buf + align, msg, len);
	/* (the context is a plain value: moved after every update, and read through a copy - CRC32C_Final takes it const) */
	cp = __real_malloc(sizeof(CRC32C_CTX));
	CRC32C_Init(cp);
	for (i = 0; i < ncuts; i++) {
		CRC32C_CTX * q, snap;
		CRC32C_Update(cp, buf + align + off, (size_t)cuts[i]); off += (size_t)cuts[i];
		if (i < NPD) { memcpy(&snap, cp, sizeof(snap)); CRC32C_Final(pd[i], &snap); pdo[i] = (long)off; npd = i + 1; }
		q = __real_malloc(sizeof(CRC32C_CTX)); memcpy(q, cp, sizeof(CRC32C_CTX)); memset(cp, 0xA5, sizeof(CRC32C_CTX));
		__real_free(cp); cp = q;
	}
	CRC32C_Final(dig, cp);
	__real_free(cp);
	vt_begin("crc"); vt_str("msg", strcmp(hex, "-") ? hex : ""); vt_int("align", align); vt_hex("out", dig, 4);
	fprintf(vt_out, ",\"pdo\":["); for (i = 0; i < npd; i++) fprintf(vt_out, "%s%ld", i ? "," : "", pdo[i]); fprintf(vt_out, "]");
	fprintf(vt_out, ",\"pdig\":["); for (i = 0; i < npd; i++) fprintf(vt_out, "%s\"%02x%02x%02x%02x\"", i ? "," : "", pd[i][0], pd[i][1], pd[i][2], pd[i][3]); fprintf(vt_out, "]");
	vt_end();
	free(buf);
}

static uint8_t inpl_out[16];
static void
do_aes(char * l)
{
	char khex[128], bhex[64];
	uint8_t blk[16], o[16];
	size_t klen;
	struct crypto_aes_key * k;

	if (sscanf(l, "aes %127s %63s", khex, bhex) != 2) return;
	klen = unhex(khex, key, 64);
	unhex(bhex, blk, 16);
	nsecrets = 0; tainted_frees = 0;
	secret_add(key, klen, "raw AES key");
	k = crypto_aes_key_expand(key, klen);
	if (k == NULL) return;
	crypto_aes_encrypt_block(blk, o, k);
	{ uint8_t ip[16]; memcpy(ip, blk, 16); crypto_aes_encrypt_block(ip, ip, k); memcpy(inpl_out, ip, 16); }	/* in place */
	crypto_aes_key_free(k);
	vt_begin("aes"); vt_str("key", khex); vt_str("in", bhex); vt_hex("out", o, 16); vt_hex("inplace", inpl_out, 16); vt_int("tainted", tainted_frees);
	if (tainted_frees) vt_str("what", tainted_what);
	vt_end();
	nsecrets = 0;
}

static uint8_t pat(size_t i) { return ((uint8_t)((i * 7 + 3) & 0xff)); }

static void
do_ctr(char * l)
{
	char khex[128], cutss[1 << 16], inpl[8], data[1 << 19];
	unsigned long long nonce;
	size_t klen, len, off = 0, i;
	struct crypto_aes_key * k;
	struct crypto_aesctr * s;
	uint8_t * in, * o;
	const char * p;
	int pattern = 0;

	int ain = 0, aout = 0;		/* optional: offsets of the input / output buffers from a 16-byte boundary */
	uint8_t * in0, * o0;

	if (sscanf(l, "ctr %127s %llu %65535s %7s %524287s %d %d", khex, &nonce, cutss, inpl, data, &ain, &aout) < 5) return;
	ain &= 15; aout &= 15;
	klen = unhex(khex, key, 64);
	if (strncmp(data, "pattern:", 8) == 0) { pattern = 1; len = (size_t)strtoull(data + 8, NULL, 10); }
	else len = unhex(data, msg, sizeof(msg));
	in0 = malloc(len + 17); in = in0 + ain;
	for (i = 0; i < len; i++) in[i] = pattern ? pat(i) : msg[i];
	o0 = (inpl[0] == '1') ? in0 : malloc(len + 17);
	o = (inpl[0] == '1') ? in : o0 + aout;
	nsecrets = 0; tainted_frees = 0;
	secret_add(key, klen, "raw AES key");
	k = crypto_aes_key_expand(key, klen);
	s = crypto_aesctr_init(k, nonce);
	vt_begin("ctr"); vt_str("key", khex); vt_u64s("nonce", nonce); vt_bool("inplace", inpl[0] == '1');
	fprintf(vt_out, ",\"calls\":[");
	for (p = cutss, i = 0; *p; i++) {
		if (*p == 'R') {
			unsigned long long n2 = strtoull(p + 1, (char **)&p, 10);
			crypto_aesctr_init2(s, NULL, n2);
			fprintf(vt_out, "%s[\"R\",\"%llu\",%zu]", i ? "," : "", n2, off);
		} else if (*p == 'K') {
			/* K<hexkey>:<nonce> : the key is released, another one (possibly of the other length) is expanded - by a recycling
			 * allocator, so that it is the same object address - and the same stream object is re-initialised with it */
			char k2hex[80];
			size_t k2len, j = 0;
			unsigned long long n2;
			static uint8_t key2[64];
			for (p++; *p && *p != ':' && j < 79; p++) k2hex[j++] = *p;
			k2hex[j] = 0;
			n2 = (*p == ':') ? strtoull(p + 1, (char **)&p, 10) : 0;
			k2len = unhex(k2hex, key2, 64);
			aw_recycle(1);
			crypto_aes_key_free(k);
			secret_add(key2, k2len, "raw AES key (second)");
			k = crypto_aes_key_expand(key2, k2len);
			aw_recycle(0);
			crypto_aesctr_init2(s, k, n2);
			fprintf(vt_out, "%s[\"K\",\"%llu\",%zu,\"%s\"]", i ? "," : "", n2, off, k2hex);
		} else {
			long n = strtol(p, (char **)&p, 10);
			if ((size_t)n > len - off) n = (long)(len - off);
			crypto_aesctr_stream(s, in + off, o + off, (size_t)n);
			fprintf(vt_out, "%s[\"S\",\"%ld\",%zu]", i ? "," : "", n, off);
			off += (size_t)n;
		}
		if (*p == ',') p++;
	}
	fprintf(vt_out, "]");
	wiped_expect = s;
	crypto_aesctr_free(s);
	wiped_expect = NULL;
	crypto_aes_key_free(k);
	vt_int("len", (long long)off);
	if (!pattern && off <= 600) { vt_str("msg", strcmp(data, "-") ? data : ""); vt_hex("out", o, off); }
	else {
		/* long streams: windows around the counter-carry offsets and the end */
		/* (every multiple of 4 KiB up to 40 KiB as well: a counter that loses a carry may go wrong only several carries later) */
		size_t offs[18] = { 0, 4080, 4096, 65520, 65536, 1048560, 1048576, off >= 48 ? off - 48 : 0,
		    8176, 12272, 16368, 20464, 24560, 28656, 32752, 36848, 40944, 131056 };
		int w;
		vt_bool("pattern", pattern);
		fprintf(vt_out, ",\"windows\":[");
		for (w = 0; w < 18; w++) {
			size_t a = offs[w], b = a + 48 <= off ? 48 : (a < off ? off - a : 0), j;
			fprintf(vt_out, "%s[%zu,\"", w ? "," : "", a);
			for (j = 0; j < b; j++) fprintf(vt_out, "%02x", o[a + j]);
			fprintf(vt_out, "\"]");
		}
		fprintf(vt_out, "]");
	}
	vt_int("tainted", tainted_frees); if (tainted_frees) vt_str("what", tainted_what);
	vt_end();
	if (o0 != in0) free(o0);
	free(in0);
	nsecrets = 0;
}

/* verify HEXA HEXB : crypto_verify_bytes on two exact-size buffers of the same length (the shorter one decides) */
static void
do_verify(char * l)
{
	static char ha[1 << 15], hb[1 << 15];
	static uint8_t ta[1 << 14], tb[1 << 14];
	size_t la, lb, n;
	uint8_t * a, * b, rc;

	if (sscanf(l, "verify %32767s %32767s", ha, hb) != 2) return;
	la = unhex(ha, ta, sizeof(ta)); lb = unhex(hb, tb, sizeof(tb));
	n = la < lb ? la : lb;
	a = malloc(n ? n : 1); b = malloc(n ? n : 1);
	memcpy(a, ta, n); memcpy(b, tb, n);
	rc = crypto_verify_bytes(a, b, n);
	vt_begin("verify"); vt_hex("a", a, n); vt_hex("b", b, n); vt_int("rc", rc); vt_end();
	free(a); free(b);
}

static void
limbs_le(const uint8_t * be, size_t n, uint8_t * le)
{
	size_t i;

	for (i = 0; i < n; i++) le[i] = be[n - 1 - i];
}

static void
do_dh(char * l)
{
	char a[1024], b[1024], c[1024];
	uint8_t pub[CRYPTO_DH_PUBLEN], priv[CRYPTO_DH_PRIVLEN], res[CRYPTO_DH_PUBLEN], le[CRYPTO_DH_PUBLEN];
	int rc;
	long failat = 0;

	a[0] = b[0] = c[0] = 0;
	if (strncmp(l, "dhsane ", 7) == 0) {
		if (sscanf(l, "dhsane %1023s", a) != 1) return;
		memset(pub, 0, sizeof(pub)); unhex(a, pub, sizeof(pub));
		rc = crypto_dh_sanitycheck(pub);
		vt_begin("dhsane"); vt_str("pub", a); vt_int("rc", rc); vt_end();
		return;
	}
	nsecrets = 0; tainted_frees = 0;
	dh_mode = 1;
	if (strncmp(l, "dhpub ", 6) == 0) {
		if (sscanf(l, "dhpub %1023s %1023s %ld", a, b, &failat) < 2) return;
		unhex(a, priv, sizeof(priv)); unhex(b, dh_blind, 32);
		secret_add(priv, 32, "private exponent (big-endian)"); limbs_le(priv, 32, le); secret_add(le, 32, "private exponent (limb order)");
		secret_add(dh_blind, 32, "blinding value (big-endian)"); limbs_le(dh_blind, 32, le); secret_add(le, 32, "blinding value (limb order)");
		memset(res, 0xa5, sizeof(res));
		ossl_count = ossl_injected = 0; ossl_failat = failat;
		rc = crypto_dh_generate_pub(res, priv);
		ossl_failat = 0;
		vt_begin("dhpub"); vt_str("priv", a); vt_str("blind", b); vt_int("rc", rc); vt_hex("out", res, CRYPTO_DH_PUBLEN);
	} else {
		int inplace = (strncmp(l, "dhkeyi ", 7) == 0);	/* the key is written over the peer's value (the interface does not forbid it) */
		if (sscanf(l, inplace ? "dhkeyi %1023s %1023s %1023s %ld" : "dhkey %1023s %1023s %1023s %ld", a, b, c, &failat) < 3) return;
		memset(pub, 0, sizeof(pub)); unhex(a, pub, sizeof(pub)); unhex(b, priv, sizeof(priv)); unhex(c, dh_blind, 32);
		secret_add(priv, 32, "private exponent (big-endian)"); limbs_le(priv, 32, le); secret_add(le, 32, "private exponent (limb order)");
		secret_add(dh_blind, 32, "blinding value (big-endian)"); limbs_le(dh_blind, 32, le); secret_add(le, 32, "blinding value (limb order)");
		memset(res, 0xa5, sizeof(res));
		ossl_count = ossl_injected = 0; ossl_failat = failat;
		if (inplace) { memcpy(res, pub, CRYPTO_DH_PUBLEN); rc = crypto_dh_compute(res, priv, res); }
		else rc = crypto_dh_compute(pub, priv, res);
		ossl_failat = 0;
		vt_begin("dhkey"); vt_str("pub", a); vt_str("priv", b); vt_str("blind", c); vt_int("rc", rc); vt_hex("out", res, CRYPTO_DH_KEYLEN);
	}
	dh_mode = 0;
	vt_int("inj", ossl_injected); vt_int("nalloc", ossl_count);
	vt_int("tainted", tainted_frees); if (tainted_frees) vt_str("what", tainted_what);
	vt_end();
	nsecrets = 0;
}

static void
do_sig(char * l)
{
	/* sig VARIANT TIME KEYID SECRET REGION A B C BODY|none [EXPIRY]   (strings hex-encoded, "-" = empty) */
	char var[16], f[8][1024], bodyhex[1 << 19];
	long long t;
	int expiry = 0, rc = 0, i, havebody;
	char s[8][512];
	size_t blen = 0;
	char * sha = NULL, * date = NULL, * auth = NULL, * q = NULL;

	if (sscanf(l, "sig %15s %lld %1023s %1023s %1023s %1023s %1023s %1023s %524287s %d", var, &t, f[0], f[1], f[2], f[3], f[4], f[5], bodyhex, &expiry) < 9) return;
	for (i = 0; i < 6; i++) { size_t n = unhex(f[i], (uint8_t *)s[i], 511); s[i][n] = 0; }
	/* "none" or "none:N": no body (NULL), with a length argument of N - only a body that exists has a length that counts */
	havebody = strncmp(bodyhex, "none", 4) != 0;
	if (havebody) blen = unhex(bodyhex, msg, sizeof(msg));
	else if (bodyhex[4] == ':') blen = (size_t)atoll(bodyhex + 5);
	fake_time = (time_t)t;
	if (strcmp(var, "s3h") == 0) rc = aws_sign_s3_headers(s[0], s[1], s[2], s[3], s[4], s[5], havebody ? msg : NULL, blen, &sha, &date, &auth);
	else if (strcmp(var, "s3q") == 0) { q = aws_sign_s3_querystr(s[0], s[1], s[2], s[3], s[4], s[5], expiry); rc = q ? 0 : -1; }
	else if (strcmp(var, "svc") == 0) rc = aws_sign_svc_headers(s[0], s[1], s[2], s[3], havebody ? msg : NULL, blen, &sha, &date, &auth);
	else rc = aws_sign_dynamodb_headers(s[0], s[1], s[2], s[3], havebody ? msg : NULL, blen, &sha, &date, &auth);
	vt_begin("sig"); vt_str("var", var); vt_i64s("time", t); vt_int("rc", rc);
	vt_str("keyid", strcmp(f[0], "-") ? f[0] : ""); vt_str("secret", strcmp(f[1], "-") ? f[1] : ""); vt_str("region", strcmp(f[2], "-") ? f[2] : "");
	vt_str("a", strcmp(f[3], "-") ? f[3] : ""); vt_str("b", strcmp(f[4], "-") ? f[4] : ""); vt_str("c", strcmp(f[5], "-") ? f[5] : "");
	vt_bool("havebody", havebody); vt_int("bodylen", (long long)blen);
	{ uint8_t d[32]; SHA256_Buf(msg, havebody ? blen : 0, d); (void)d; }
	if (havebody && blen <= 4096) vt_hex("body", msg, blen);
	vt_int("expiry", expiry);
	if (rc == 0) {
		if (q != NULL) vt_hex("query", q, strlen(q));
		else { vt_hex("sha", sha, strlen(sha)); vt_hex("date", date, strlen(date)); vt_hex("auth", auth, strlen(auth)); }
	}
	vt_end();
	free(sha); free(date); free(auth); free(q);
}

static const char * g_tracepath;
static void
do_keyfile(char * l)
{
	char hex[1 << 14], fname[4200];		/* (the key file lives next to the trace, not in /tmp) */
	size_t len;
	char * id = NULL, * secret = NULL;
	const char * p;
	int fd, rc;

	if (sscanf(l, "keyfile %16383s", hex) != 1) return;
	len = unhex(hex, msg, sizeof(msg));
	msg[len] = 0;
	nsecrets = 0; tainted_frees = 0;
	cur_secret = NULL; nsecret_blocks = 0;
	for (p = (char *)msg; (p = strstr(p, "ACCESS_KEY_SECRET=")) != NULL; p += 18) {
		size_t n = strcspn(p + 18, "\r\n");
		secret_add(p + 18, n, "secret key");		/* (every value the file gives for the secret, not only the first) */
		if (cur_secret == NULL) { cur_secret = p + 18; cur_secret_len = n; }
	}
	scan_all_frees = 1;
	snprintf(fname, sizeof(fname), "%.4000s.kfXXXXXX", g_tracepath ? g_tracepath : "/tmp/verif_ck");
	if ((fd = mkstemp(fname)) < 0) return;
	if (len && write(fd, msg, len) != (ssize_t)len) { close(fd); unlink(fname); return; }
	close(fd);
	rc = aws_readkeys(fname, &id, &secret);
	scan_all_frees = 0;
	unlink(fname);
	vt_begin("keyfile"); vt_str("in", hex); vt_int("rc", rc); vt_int("nsecrets", nsecrets);
	vt_int("tainted", tainted_frees); if (tainted_frees) vt_str("what", tainted_what); vt_end();
	nsecrets = 0;
	cur_secret = NULL; nsecret_blocks = 0;		/* (on success the strings are the caller's) */
	if (rc == 0) { free(id); free(secret); }
}

static int drbg_at_exit;
static void
drbg_exit_read(void)
{
	uint8_t b[16];
	int rc;

	if (!drbg_at_exit) return;
	drbg_at_exit = 0;
	rc = crypto_entropy_read(b, 16);
	vt_begin("drbg_read"); vt_int("n", 16); vt_int("rc", rc);
	if (rc == 0) vt_hex("out", b, 16);
	vt_end();
	vt_flush();
	_exit(0);		/* (nothing else of the driver's needs to run) */
}

static void
do_drbg(char * l)
{
	/* drbg SIZES(comma) ENTROPY(comma list of f|sN|x|e|o) : runs in a forked child (the generator's state is static) */
	char sizes[1 << 14], ent[1 << 14];
	long cuts[2048];
	int n, i;
	pid_t pid;
	int st;
	const char * p;

	if (sscanf(l, "drbg %16383s %16383s", sizes, ent) != 2) return;
	vt_flush(); fflush(NULL);
	if ((pid = fork()) == 0) {
		n = parse_cuts(sizes, cuts, 2048);
		ur_n = 0;
		for (p = ent; *p && ur_n < 4096; ) {
			switch (*p) {
			case 'f': ur_script[ur_n].kind = 0; p++; break;
			case 's': ur_script[ur_n].kind = 1; ur_script[ur_n].n = strtol(p + 1, (char **)&p, 10); break;
			case 'x': ur_script[ur_n].kind = 2; p++; break;
			case 'e': ur_script[ur_n].kind = 3; p++; break;
			case 'o': ur_script[ur_n].kind = 4; p++; break;
			case 'i': ur_script[ur_n].kind = 5; p++; break;
			default: p++; continue;
			}
			ur_n++;
			if (*p == ',') p++;
		}
		{ int atex = 0; for (i = 0; i < n; i++) if (cuts[i] == -2) atex = 1;
		  if (atex) { drbg_at_exit = 1; atexit(drbg_exit_read); } }	/* registered before the generator is first used */
		for (i = 0; i < n; i++) {
			size_t want = (size_t)cuts[i];
			uint8_t * b;
			if (cuts[i] == -2) continue;
			if (cuts[i] == -1) {
				/* the application tidies up its descriptors (as a daemon does) and opens a file of its own */
				int fd;
				for (fd = 3; fd < 256; fd++) if (fd != fileno(vt_out)) close(fd);
				ur_fd = -1;
				(void)__real_open("/proc/self/status", O_RDONLY);
				continue;
			}
			b = malloc(want + 1);
			int rc = crypto_entropy_read(b, want);
			vt_begin("drbg_read"); vt_int("n", (long long)want); vt_int("rc", rc);
			if (rc == 0) vt_hex("out", b, want);
			vt_end();
			free(b);
		}
		vt_flush();
		if (drbg_at_exit) exit(0);		/* through the exit handlers: one of them asks for random bytes once more */
		_exit(0);
	}
	waitpid(pid, &st, 0);
	fseek(vt_out, 0, SEEK_END);
	vt_begin("drbg_end"); vt_int("status", st); vt_end();
}


/* aesfirst K KEY1 KEY2 BLK : (first AES use of this process) the K-th allocation from here fails; two key expansions, then
 * both keys are used, the first one again after the second expansion */
static void
do_aesfirst(char * l)
{
	char k1hex[128], k2hex[128], bhex[64];
	uint8_t k1b[64], k2b[64], blk[16], o[16];
	size_t k1len, k2len;
	struct crypto_aes_key * k1, * k2;
	struct crypto_aesctr * st;
	long failat;
	int round;

	if (sscanf(l, "aesfirst %ld %127s %127s %63s", &failat, k1hex, k2hex, bhex) != 4) return;
	k1len = unhex(k1hex, k1b, 64); k2len = unhex(k2hex, k2b, 64); unhex(bhex, blk, 16);
	aw_reset(); aw_clear_injected(); aw_plan(failat, 0);
	k1 = crypto_aes_key_expand(k1b, k1len);
	vt_begin("aes_expand"); vt_bool("ok", k1 != NULL); vt_int("inj", aw_injected()); vt_end();
	k2 = crypto_aes_key_expand(k2b, k2len);
	vt_begin("aes_expand"); vt_bool("ok", k2 != NULL); vt_int("inj", aw_injected()); vt_end();
	aw_plan(0, 0);
	for (round = 0; round < 2; round++) {
		if (k1 != NULL) {
			crypto_aes_encrypt_block(blk, o, k1);
			vt_begin("aes"); vt_str("key", k1hex); vt_str("in", bhex); vt_hex("out", o, 16); vt_int("tainted", 0); vt_end();
		}
		if (k2 != NULL) {
			crypto_aes_encrypt_block(blk, o, k2);
			vt_begin("aes"); vt_str("key", k2hex); vt_str("in", bhex); vt_hex("out", o, 16); vt_int("tainted", 0); vt_end();
		}
		/* a counter-mode stream in between (its first use may run the self-test again) */
		if (round == 0 && k2 != NULL && (st = crypto_aesctr_init(k2, 0)) != NULL) {
			uint8_t z[16], zo[16];
			memset(z, 0, 16);
			crypto_aesctr_stream(st, z, zo, 16);
			crypto_aesctr_free(st);
			vt_begin("aes"); vt_str("key", k2hex); vt_str("in", "00000000000000000000000000000000"); vt_hex("out", zo, 16); vt_int("tainted", 0); vt_end();
		}
	}
	if (k1 != NULL) crypto_aes_key_free(k1);
	if (k2 != NULL) crypto_aes_key_free(k2);
}

/* aesfresh K KEY1 KEY2 BLK : run "aesfirst ..." in a newly executed copy of this driver (the choice between the hardware and
 * the software AES is made once per process) and splice its events into the trace */
static const char * self_trace;
static void
do_aesfresh(char * l)
{
	char prog[4096], tr[4096], line[8192];
	FILE * f;
	pid_t pid;
	int st = 0;

	snprintf(prog, sizeof(prog), "%s.fresh.prog", self_trace);
	snprintf(tr, sizeof(tr), "%s.fresh.ndjson", self_trace);
	if ((f = fopen(prog, "w")) == NULL) return;
	fprintf(f, "aesfirst %s", l + strlen("aesfresh "));
	fclose(f);
	vt_flush(); fflush(NULL);
	if ((pid = fork()) == 0) {
		execl("/proc/self/exe", "drv_crypto", prog, tr, (char *)NULL);
		_exit(97);
	}
	waitpid(pid, &st, 0);
	if ((f = fopen(tr, "r")) != NULL) {
		while (fgets(line, sizeof(line), f) != NULL)
			if (strstr(line, "\"e\":\"reset\"") == NULL) fputs(line, vt_out);
		fclose(f);
	}
	unlink(prog); unlink(tr);
	vt_begin("fresh_end"); vt_int("status", st); vt_end();
}

int
main(int argc, char ** argv)
{
	static char line[1 << 20];
	FILE * f;

	if (argc < 3) { fprintf(stderr, "usage: drv_crypto programs trace\n"); return (3); }
	CRYPTO_set_mem_functions(ossl_malloc, ossl_realloc, ossl_free);
	if ((f = fopen(argv[1], "r")) == NULL) { perror(argv[1]); return (3); }
	g_tracepath = argv[2];
	vt_open(argv[2]);
	self_trace = argv[2];
	aw_free_hook = free_hook;
	aw_strdup_hook = strdup_hook;
	aw_enable(1);
	while (fgets(line, sizeof(line), f) != NULL) {
		if (strncmp(line, "prog", 4) == 0) { vt_reset(); unsetenv("TZ"); tzset(); ERR_clear_error(); continue; }	/* (programs do not inherit process state) */
		if (strncmp(line, "hash ", 5) == 0) do_hash(line);
		else if (strncmp(line, "hashbig ", 8) == 0) do_hashbig(line);
		else if (strncmp(line, "hmac ", 5) == 0) do_hmac(line);
		else if (strncmp(line, "pbkdf2 ", 7) == 0) do_pbkdf2(line);
		else if (strncmp(line, "crc ", 4) == 0) do_crc(line);
		else if (strncmp(line, "verify ", 7) == 0) do_verify(line);
		else if (strncmp(line, "aes ", 4) == 0) do_aes(line);
		else if (strncmp(line, "aesfirst ", 9) == 0) do_aesfirst(line);
		else if (strncmp(line, "aesfresh ", 9) == 0) do_aesfresh(line);
		else if (strncmp(line, "ctr ", 4) == 0) do_ctr(line);
		else if (strncmp(line, "dh", 2) == 0) do_dh(line);
		else if (strncmp(line, "sig ", 4) == 0) do_sig(line);
		else if (strncmp(line, "tz ", 3) == 0) {
			/* the process's time zone is none of the signature's business */
			char z[64]; if (sscanf(line, "tz %63s", z) == 1) { if (strcmp(z, "-") == 0) unsetenv("TZ"); else setenv("TZ", z, 1); tzset(); }
		}
		else if (strncmp(line, "osslerr", 7) == 0) {
			/* an unrelated, legitimately failing call of the bignum library leaves an entry in its per-thread error queue */
			BN_CTX * ctx = BN_CTX_new(); BIGNUM * a = BN_new(), * n = BN_new(), * r;
			BN_set_word(a, 6); BN_set_word(n, 9);
			r = BN_mod_inverse(NULL, a, n, ctx);
			if (r != NULL) BN_free(r);
			BN_free(a); BN_free(n); BN_CTX_free(ctx);
		}
		else if (strncmp(line, "keyfile ", 8) == 0) do_keyfile(line);
		else if (strncmp(line, "drbg ", 5) == 0) do_drbg(line);
	}
	fclose(f);
	fclose(vt_out);
	return (0);
}
