/*
 * Conformance driver for the HTTP client (properties C08, C09; C14 scenarios):
 * real http.c -> network_connect -> netbuf -> network -> events on the fake
 * kernel with scripted sockets.  One forked child per program, so a crash is
 * one failed execution.  The driver records; TLC judges
 * (specs/http/HttpTrace.tla).
 *
 * Program (text):
 *   plan <json>            structured description of the response (logged verbatim; the oracle input)
 *   method M / path P / hdr <name> <value> / reqbody <hex> / maxrlen N
 *   resp <hex>             server bytes (may be repeated; concatenated)
 *   seg N [N ...]          sizes of the kernel's answers to recv, cycled
 *   noise K                every K-th answer is preceded by an EAGAIN or EINTR answer
 *   fin E|X|none           what follows the last byte: EOF, error, or nothing
 *   connect O|F|P:T|R:T    connection plan (list of addresses)
 *   txseg N [N ...]        how the kernel accepts the request bytes
 *   txcount N              the kernel accepts only N segments of the request, then stalls
 *   early 1                the response starts arriving at once (before the request can have been read)
 *   cancel K               cancel after K non-blocking loop iterations (if still pending)
 *   fail K once|persist    allocation failure plan
 *   https                  https_request started and cancelled at once (ownership of the host name)
 *   tls                    the whole scenario over https_request: netbuf_ssl and network_ssl under http.c, a scripted engine
 */
#include <sys/time.h>
#include <sys/wait.h>

#include <errno.h>
#include <stdio.h>
#include <stdlib.h>
#include <string.h>
#include <unistd.h>

#include "events.h"
#include "http.h"
#include "sha256.h"
#include "sock.h"
#include "warnp.h"

#include "allocwrap.h"
#include "fakekernel.h"
#include "fakenet.h"

/* (the OpenSSL headers clash with the library's own SHA256 names: the few things needed are declared here) */
typedef struct ssl_st SSL;
#define SSL_ERROR_NONE		0
#define SSL_ERROR_WANT_READ	2
#define SSL_ERROR_WANT_WRITE	3
#define SSL_ERROR_SYSCALL	5
#define SSL_ERROR_ZERO_RETURN	6

/*
 * The TLS transport ("tls" programs): https_request over netbuf_ssl and network_ssl, with the engine's plaintext side mapped onto
 * the scripted socket - SSL_read_ex / SSL_write_ex take their answers from the same scripts as recv / send (data in the same
 * fragments; would-block and interrupted become "want read" / "want write"; end of file alternates between a clean TLS end and a
 * socket end; errors become SSL_ERROR_SYSCALL with that errno), so that one response script exercises both transports.
 */
static int tls_fd = -1, tls_err, tls_eofs;
int __real_SSL_set_fd(SSL *, int);
int __wrap_SSL_set_fd(SSL *, int);
int __wrap_SSL_read_ex(SSL *, void *, size_t, size_t *);
int __wrap_SSL_write_ex(SSL *, const void *, size_t, size_t *);
int __wrap_SSL_get_error(const SSL *, int);
int __wrap_SSL_shutdown(SSL *);
int
__wrap_SSL_set_fd(SSL * s, int fd)
{

	tls_fd = fd;
	return (__real_SSL_set_fd(s, fd));
}
int
__wrap_SSL_read_ex(SSL * s, void * buf, size_t num, size_t * done)
{
	ssize_t r = __wrap_recv(tls_fd, buf, num, 0);

	(void)s;
	*done = 0;
	if (r > 0) { *done = (size_t)r; tls_err = SSL_ERROR_NONE; return (1); }
	if (r == 0) { tls_err = (tls_eofs++ & 1) ? SSL_ERROR_SYSCALL : SSL_ERROR_ZERO_RETURN; errno = 0; return (0); }
	tls_err = (errno == EAGAIN || errno == EWOULDBLOCK || errno == EINTR) ? SSL_ERROR_WANT_READ : SSL_ERROR_SYSCALL;
	return (0);
}
int
__wrap_SSL_write_ex(SSL * s, const void * buf, size_t num, size_t * done)
{
	ssize_t r = __wrap_send(tls_fd, buf, num, MSG_NOSIGNAL);	/* (this transport guards against SIGPIPE by other means) */

	(void)s;
	*done = 0;
	if (r > 0) { *done = (size_t)r; tls_err = SSL_ERROR_NONE; return (1); }
	tls_err = (r < 0 && (errno == EAGAIN || errno == EWOULDBLOCK || errno == EINTR)) ? SSL_ERROR_WANT_WRITE : SSL_ERROR_SYSCALL;
	return (0);
}
int
__wrap_SSL_get_error(const SSL * s, int ret)
{

	(void)s; (void)ret;
	return (tls_err);
}
int
__wrap_SSL_shutdown(SSL * s)
{

	(void)s;
	return (1);
}

static int ncb;
static int noop_ran;

static void
common(void)
{

	vt_int("inj", aw_injected());
	aw_clear_injected();
}

static void
vt_hexstr(const char * k, const char * s)
{

	vt_hex(k, s, strlen(s));
}

static int use_https, use_tls;
static int cb_rc, cb_returned;	/* what the callback is told to return / has returned in this run */
static int
http_cb(void * cookie, struct http_response * res)
{
	size_t i;

	(void)cookie;
	ncb++;
	vt_begin("http_cb"); vt_bool("null", res == NULL);
	if (res != NULL) {
		vt_int("status", res->status);
		vt_int("nheaders", (long long)res->nheaders);
		fprintf(vt_out, ",\"headers\":[");
		for (i = 0; i < res->nheaders && i < 4096; i++) {
			size_t j;
			const char * h = res->headers[i].header, * v = res->headers[i].value;
			fprintf(vt_out, "%s[\"", i ? "," : "");
			for (j = 0; h[j]; j++) fprintf(vt_out, "%02x", (unsigned char)h[j]);
			fprintf(vt_out, "\",\"");
			for (j = 0; v[j]; j++) fprintf(vt_out, "%02x", (unsigned char)v[j]);
			fprintf(vt_out, "\"]");
		}
		fprintf(vt_out, "]");
		vt_bool("toobig", res->bodylen == (size_t)(-1));
		vt_int("bodylen", res->bodylen == (size_t)(-1) ? -1 : (long long)res->bodylen);
		vt_bool("bodynull", res->body == NULL);
		if (res->body != NULL && res->bodylen != (size_t)(-1)) {
			uint8_t dig[32];
			/* the body buffer must be a live allocation of at least bodylen bytes */
			vt_bool("bodyalloc", aw_live_size(res->body) >= res->bodylen);
			if (res->bodylen <= 2048)
				vt_hex("body", res->body, res->bodylen);
			SHA256_Buf(res->body, res->bodylen, dig);
			vt_hex("bodysha", dig, 32);
		}
		free(res->body);
	}
	vt_int("rc", cb_rc);
	common(); vt_end();
	cb_returned = cb_rc;
	return (cb_rc);		/* (a callback that has released the body may well report an error of its own) */
}

static int
noop_cb(void * cookie)
{

	(void)cookie;
	noop_ran = 1;
	return (0);
}

static size_t
unhex(const char * h, uint8_t * out, size_t max)
{
	size_t n = 0;
	unsigned v;

	while (h[0] && h[1] && h[0] != '\n' && n < max && sscanf(h, "%2x", &v) == 1) {
		out[n++] = (uint8_t)v;
		h += 2;
	}
	return (n);
}

static void
runk(void)
{
	struct timeval tv0 = {0, 0};
	int rc;
	void * kk = events_timer_register(noop_cb, NULL, &tv0);

	vt_begin("run_call"); vt_end();
	rc = events_run();
	vt_begin("run_ret"); vt_int("rc", rc); vt_int("cbrc", cb_returned); if (use_tls) vt_bool("tls", 1); common(); vt_end();
	cb_returned = 0;
	if (kk != NULL && !noop_ran)
		events_timer_cancel(kk);
	noop_ran = 0;
}

static void
log_end(void)
{

	vt_begin("end"); vt_int("ncb", ncb); vt_int("allocs", aw_count()); vt_end();
}

static char * lines[1 << 12];
static int nlines;
#define MAXRESP (1 << 23)

static void
run_child(void)
{
	static uint8_t * resp;
	static uint8_t reqbody[1 << 16];
	struct http_request req;
	struct http_header hdrs[64];
	char method[64] = "GET", path[1024] = "/";
	size_t resplen = 0, reqbodylen = 0, maxrlen = 1 << 20;
	long segs[256], txsegs[64];
	int nsegs = 0, ntxsegs = 0, noise = 0, fin = 'E', cancel_after = -1, nh = 0, i, txcount = 2048, early = 0;
	long failk = 0;
	int failpersist = 0;
	char conn[256] = "O";
	struct sock_addr * sas[8];
	void * cookie;
	long long t = 1000;	/* the server answers after it has had time to read the request */
	size_t off;
	int k;

	resp = __real_malloc(MAXRESP);
	memset(&req, 0, sizeof(req));
	for (i = 0; i < nlines; i++) {
		char * l = lines[i];
		if (strncmp(l, "plan ", 5) == 0) {
			vt_begin("plan"); vt_raw("p", l + 5); vt_end();
		} else if (sscanf(l, "method %63s", method) == 1) {
		} else if (strncmp(l, "path ", 5) == 0) {
			strncpy(path, l + 5, sizeof(path) - 1);
		} else if (strncmp(l, "hdr ", 4) == 0 && nh < 64) {
			char * sp = strchr(l + 4, ' ');
			if (sp != NULL) {
				*sp = 0;
				hdrs[nh].header = l + 4; hdrs[nh].value = sp + 1; nh++;
			}
		} else if (strncmp(l, "reqbody ", 8) == 0) {
			reqbodylen = unhex(l + 8, reqbody, sizeof(reqbody));
		} else if (strncmp(l, "maxrlen ", 8) == 0) {
			maxrlen = (size_t)strtoull(l + 8, NULL, 10);
		} else if (strncmp(l, "resp ", 5) == 0) {
			resplen += unhex(l + 5, resp + resplen, MAXRESP - resplen);
		} else if (strncmp(l, "seg ", 4) == 0) {
			char * p = l + 4;
			while (*p && nsegs < 256) { segs[nsegs++] = strtol(p, &p, 10); while (*p == ' ') p++; }
		} else if (strncmp(l, "txseg ", 6) == 0) {
			char * p = l + 6;
			while (*p && ntxsegs < 64) { txsegs[ntxsegs++] = strtol(p, &p, 10); while (*p == ' ') p++; }
		} else if (sscanf(l, "noise %d", &noise) == 1) {
		} else if (strncmp(l, "fin ", 4) == 0) {
			fin = l[4];
		} else if (strncmp(l, "connect ", 8) == 0) {
			strncpy(conn, l + 8, sizeof(conn) - 1);
		} else if (sscanf(l, "txcount %d", &txcount) == 1) {
		} else if (strncmp(l, "https", 5) == 0) {
			use_https = 1;
		} else if (strncmp(l, "tls", 3) == 0) {
			use_https = 1; use_tls = 1;
		} else if (sscanf(l, "cbrc %d", &cb_rc) == 1) {
		} else if (strncmp(l, "syslog", 6) == 0) {
			warnp_syslog(1);	/* (warnings go to syslog instead of stderr: a property of the process, not of the request) */
		} else if (sscanf(l, "early %d", &early) == 1) {
		} else if (sscanf(l, "cancel %d", &cancel_after) == 1) {
		} else if (strncmp(l, "fail ", 5) == 0) {
			char mode[16];
			if (sscanf(l, "fail %ld %15s", &failk, mode) == 2)
				failpersist = (strcmp(mode, "persist") == 0);
		}
	}
	/* connection plan */
	fn_init();
	fk_maxpolls = 200000;
	fk_quiescent_fn = log_end;
	{
		char * save = NULL, * tok;
		fn_nplan = 0;
		for (tok = strtok_r(conn, " ", &save); tok != NULL && fn_nplan < 7; tok = strtok_r(NULL, " ", &save)) {
			fn_plan[fn_nplan].kind = tok[0];
			fn_plan[fn_nplan].t = (tok[1] == ':') ? atoll(tok + 2) : 0;
			fn_nplan++;
		}
		for (i = 0; i < fn_nplan; i++) {
			char addr[64];
			struct sock_addr ** one;
			snprintf(addr, sizeof(addr), "127.0.0.1:%d", 10000 + i);
			one = sock_resolve(addr);
			sas[i] = one ? one[0] : NULL;
			free(one);
		}
		sas[fn_nplan] = NULL;
		fn_attempt = 0;
	}
	req.method = method; req.path = path; req.nheaders = (size_t)nh; req.headers = hdrs;
	req.bodylen = reqbodylen; req.body = reqbodylen ? reqbody : NULL;
	vt_begin("request"); vt_hexstr("method", method); vt_hexstr("path", path);
	fprintf(vt_out, ",\"headers\":[");
	for (i = 0; i < nh; i++) {
		size_t j;
		fprintf(vt_out, "%s[\"", i ? "," : "");
		for (j = 0; hdrs[i].header[j]; j++) fprintf(vt_out, "%02x", (unsigned char)hdrs[i].header[j]);
		fprintf(vt_out, "\",\"");
		for (j = 0; hdrs[i].value[j]; j++) fprintf(vt_out, "%02x", (unsigned char)hdrs[i].value[j]);
		fprintf(vt_out, "\"]");
	}
	fprintf(vt_out, "]");
	vt_hex("body", reqbody, reqbodylen); vt_u64s("maxrlen", maxrlen); vt_int("resplen", (long long)resplen);
	vt_bool("willcancel", cancel_after >= 0); vt_end();

	/* script for every socket this request creates (times relative to the socket's creation) */
	fn_use_template = 1;
	fn_template.capture = 1;
	if (ntxsegs == 0) { txsegs[0] = 1 << 24; ntxsegs = 1; }
	if (early)
		t = 0;
	for (k = 0; k < txcount && k < 2048; k++)
		fn_push(&fn_template.tx, FN_DATA, txsegs[k % ntxsegs] < 1 ? 1 : txsegs[k % ntxsegs], 0, 0);
	if (nsegs == 0) { segs[0] = (long)resplen; nsegs = 1; }
	off = 0; k = 0;
	while (off < resplen) {
		long n = segs[k % nsegs];
		if (n < 1) n = 1;
		if ((size_t)n > resplen - off) n = (long)(resplen - off);
		if (noise > 0 && (k % noise) == noise - 1)
			fn_push(&fn_template.rx, (k / noise) % 2 ? FN_EINTR : FN_EAGAIN, 0, 0, t);
		fn_push(&fn_template.rx, FN_DATA, n, 0, t);
		off += (size_t)n; k++;
		if (k % 3 == 0) t += 700;
	}
	if (fin == 'E') fn_push(&fn_template.rx, FN_EOF, 0, 0, t);
	else if (fin == 'X') fn_push(&fn_template.rx, FN_ERR, 0, 104, t);
	fn_template.content = resp; fn_template.contentlen = resplen;

	aw_enable(1);
	aw_reset();
	if (failk > 0)
		aw_plan(failk, failpersist);
	{
		/* everything but the body buffer is the caller's again when the call returns: the request, its header array and all
		 * its strings are handed over in blocks that are released straight afterwards */
		struct http_request * rq = __real_malloc(sizeof(*rq));
		struct http_header * hh = __real_malloc(sizeof(*hh) * (req.nheaders ? req.nheaders : 1));
		char ** strs = __real_malloc(sizeof(char *) * (2 * req.nheaders + 2));
		size_t q, ns = 0;

		*rq = req;
		strs[ns] = __real_malloc(strlen(req.method) + 1); strcpy(strs[ns], req.method); rq->method = strs[ns++];
		strs[ns] = __real_malloc(strlen(req.path) + 1); strcpy(strs[ns], req.path); rq->path = strs[ns++];
		for (q = 0; q < req.nheaders; q++) {
			strs[ns] = __real_malloc(strlen(req.headers[q].header) + 1); strcpy(strs[ns], req.headers[q].header); hh[q].header = strs[ns++];
			strs[ns] = __real_malloc(strlen(req.headers[q].value) + 1); strcpy(strs[ns], req.headers[q].value); hh[q].value = strs[ns++];
		}
		rq->headers = hh;
		if (use_https) {
			/* the TLS variant shares everything with http_request() except who owns the host name: only its start-up and its
			 * cancellation are exercised here (no handshake is attempted) */
			cookie = https_request(sas, rq, maxrlen, http_cb, NULL, "host.example");
		} else
			cookie = http_request(sas, rq, maxrlen, http_cb, NULL);
		for (q = 0; q < ns; q++) { memset(strs[q], '#', strlen(strs[q])); __real_free(strs[q]); }
		__real_free(strs); __real_free(hh); __real_free(rq);
	}
	vt_begin("http_request"); vt_bool("ok", cookie != NULL); common(); vt_end();
	if (cookie != NULL && use_https && !use_tls) {
		http_request_cancel(cookie);
		vt_begin("cancel"); common(); vt_end();
	} else if (cookie != NULL) {
		/* run */
		if (cancel_after >= 0) {
			for (i = 0; i < cancel_after && ncb == 0; i++)
				runk();
			if (ncb == 0) {
				http_request_cancel(cookie);
				vt_begin("cancel"); common(); vt_end();
			}
			runk(); runk();
		} else {
			for (i = 0; i < 400000 && ncb == 0; i++) {
				vt_begin("run_call"); vt_end();
				k = events_run();
				vt_begin("run_ret"); vt_int("rc", k); vt_int("cbrc", cb_returned); if (use_tls) vt_bool("tls", 1); common(); vt_end();
				cb_returned = 0;
				if (k != 0)
					break;		/* the loop reported a fatal error (allocation failure) */
			}
			if (i < 400000 && ncb == 0 && k != 0) {
				/* no callback has told the caller that the request is over, so the caller releases it the normal way */
				http_request_cancel(cookie);
				vt_begin("cancel"); common(); vt_end();
			}
		}
	}
	/* what the server received */
	{
		int f;
		for (f = 0; f < fk_n; f++)
			if (fn_fds[f].sentlen > 0 || f == fn_last_socket) {
				vt_begin("sent"); vt_int("fd", f); vt_int("len", (long long)fn_fds[f].sentlen);
				if (fn_fds[f].sentlen <= 70000) vt_hex("data", fn_fds[f].sent, fn_fds[f].sentlen);
				vt_end();
			}
	}
	log_end();
	aw_plan(0, 0);
	vt_flush();
	exit(0);
}

static void
at_exit_report(void)
{

	vt_begin("exit"); vt_int("live", aw_live()); vt_end();
	vt_flush();
}

int
main(int argc, char ** argv)
{
	static char * buf;
	FILE * f;
	size_t len = 0, cap = (size_t)MAXRESP * 2 + (1 << 20);
	char * p, * q;

	if (argc < 3) {
		fprintf(stderr, "usage: drv_http programs trace\n");
		return (3);
	}
	buf = __real_malloc(cap);
	if ((f = fopen(argv[1], "r")) == NULL) { perror(argv[1]); return (3); }
	vt_open(argv[2]);
	for (;;) {
		int have = 0;
		pid_t pid;
		int st;
		nlines = 0; len = 0;
		while (fgets(buf + len, (int)(cap - len > 0x7fffffff ? 0x7fffffff : cap - len), f) != NULL) {
			p = buf + len;
			if (!have) {
				if (strncmp(p, "prog", 4) == 0) have = 1;
				continue;
			}
			if (strncmp(p, "end\n", 4) == 0 || strcmp(p, "end") == 0)
				break;
			q = p + strlen(p);
			if (q > p && q[-1] == '\n') q[-1] = 0;
			if (nlines < (1 << 12)) lines[nlines++] = p;
			len += strlen(p) + 1;
			if (len > cap - (1 << 20)) break;
		}
		if (!have)
			break;
		vt_reset();
		vt_flush();
		if ((pid = fork()) == 0) {
			__real_close(fileno(f));
			atexit(at_exit_report);
			run_child();
		}
		waitpid(pid, &st, 0);
		fseek(vt_out, 0, SEEK_END);
		if (!(WIFEXITED(st) && WEXITSTATUS(st) == 0)) {
			vt_begin("crash"); vt_int("status", st); vt_end();
			vt_flush();
			return (WIFEXITED(st) ? WEXITSTATUS(st) : 99);
		}
	}
	fclose(f);
	fclose(vt_out);
	return (0);
}
