/*
 * Conformance driver for netbuf_read / netbuf_write (property C07; C14
 * scenarios) on the real network layer and event loop with scripted sockets.
 * One forked child per program.  The driver records; TLC judges
 * (specs/netbuf/NbTrace.tla).
 */
#include <sys/time.h>
#include <sys/wait.h>

#include <errno.h>
#include <stdio.h>
#include <stdlib.h>
#include <string.h>
#include <unistd.h>

#include "events.h"
#include "netbuf.h"
#include "network.h"

#include "allocwrap.h"
#include "fakekernel.h"
#include "fakenet.h"

#include "network_ssl.h"

/*
 * The TLS transport ("tls" as the first op of a program): the reader and the writer are built with netbuf_ssl_read_init /
 * netbuf_ssl_write_init over network_ssl contexts whose engine is scripted - its plaintext side is mapped onto the scripted
 * sockets, so that SSL_read_ex / SSL_write_ex take their answers from the same scripts as recv / send (would-block and
 * interrupted become "want read" / "want write", end of file alternates between a clean TLS end and a socket end, errors
 * become SSL_ERROR_SYSCALL with that errno).
 */
typedef struct ssl_st SSL;
#define SSL_ERROR_NONE		0
#define SSL_ERROR_WANT_READ	2
#define SSL_ERROR_WANT_WRITE	3
#define SSL_ERROR_SYSCALL	5
#define SSL_ERROR_ZERO_RETURN	6
static int use_tls;
static struct network_ssl_ctx * Cr, * Cw;
static struct { SSL * s; int fd; } tls_map[8];
static int tls_nmap, tls_err, tls_eofs;
int __real_SSL_set_fd(SSL *, int);
int __wrap_SSL_set_fd(SSL *, int);
int __wrap_SSL_read_ex(SSL *, void *, size_t, size_t *);
int __wrap_SSL_write_ex(SSL *, const void *, size_t, size_t *);
int __wrap_SSL_get_error(const SSL *, int);
int __wrap_SSL_shutdown(SSL *);
static int
tls_fdof(const SSL * s)
{
	int i;

	for (i = tls_nmap - 1; i >= 0; i--) if (tls_map[i].s == s) return (tls_map[i].fd);
	return (-1);
}
int
__wrap_SSL_set_fd(SSL * s, int fd)
{

	if (tls_nmap < 8) { tls_map[tls_nmap].s = s; tls_map[tls_nmap].fd = fd; tls_nmap++; }
	return (__real_SSL_set_fd(s, fd));
}
int
__wrap_SSL_read_ex(SSL * s, void * buf, size_t num, size_t * done)
{
	ssize_t r = __wrap_recv(tls_fdof(s), buf, num, 0);

	*done = 0;
	if (r > 0) { *done = (size_t)r; tls_err = SSL_ERROR_NONE; return (1); }
	if (r == 0) { tls_err = (tls_eofs++ & 1) ? SSL_ERROR_SYSCALL : SSL_ERROR_ZERO_RETURN; errno = 0; return (0); }
	tls_err = (errno == EAGAIN || errno == EWOULDBLOCK || errno == EINTR) ? SSL_ERROR_WANT_READ : SSL_ERROR_SYSCALL;
	return (0);
}
int
__wrap_SSL_write_ex(SSL * s, const void * buf, size_t num, size_t * done)
{
	ssize_t r = __wrap_send(tls_fdof(s), buf, num, MSG_NOSIGNAL);	/* (this transport guards against SIGPIPE by other means) */

	*done = 0;
	if (r > 0) { *done = (size_t)r; tls_err = SSL_ERROR_NONE; return (1); }
	tls_err = (r < 0 && (errno == EAGAIN || errno == EWOULDBLOCK || errno == EINTR)) ? SSL_ERROR_WANT_WRITE : SSL_ERROR_SYSCALL;
	return (0);
}
int
__wrap_SSL_get_error(const SSL * s, int ret)
{

	(void)s; (void)ret;
	return (tls_err);
}
int
__wrap_SSL_shutdown(SSL * s)
{

	(void)s;
	return (1);
}

#define MAXW 512
#define MAXOPS 16
struct waitrec {
	int id;
	char * ops[MAXOPS];
	int nops;
	int rc;
	int state;		/* 0 none, 1 pending, 2 fired, 3 cancelled */
};
static struct waitrec waits[MAXW + 1];
static struct netbuf_read * R;
static struct netbuf_write * W;
static int rfd = 0, wfd = 1;
static long long consumed;	/* driver's count of bytes consumed from the reader */
static long long written;	/* driver's count of bytes passed to the writer (pattern offset) */
static uint8_t * reserved;
static size_t reservedlen;
static int noop_ran;
static int wdead;	/* a reservation failed: the writer is only freed from now on */

static void exec_op(const char *, int);

static void
common(void)
{

	vt_int("inj", aw_injected());
	aw_clear_injected();
}

static void
log_peek(void)
{
	uint8_t * data;
	size_t len, i;
	int match = 1;

	netbuf_read_peek(R, &data, &len);
	for (i = 0; i < len; i++)
		if (data[i] != fn_rxbyte(rfd, consumed + (long long)i)) { match = 0; break; }
	vt_int("peeklen", (long long)len); vt_bool("match", match);
	if (len <= 48) vt_hex("data", data, len);
}

static int
wait_cb(void * cookie, int status)
{
	struct waitrec * w = cookie;
	int i;

	if (w < &waits[1] || w > &waits[MAXW]) {
		vt_begin("wait_cb"); vt_int("id", -1); vt_int("status", status); vt_end();
		return (0);
	}
	vt_begin("wait_cb"); vt_int("id", w->id); vt_int("status", status); log_peek(); common(); vt_end();
	if (w->state == 1)
		w->state = 2;
	for (i = 0; i < w->nops; i++)
		exec_op(w->ops[i], w->id);
	vt_begin("cb_ret"); vt_int("id", w->id); vt_int("rc", w->rc); vt_end();
	return (w->rc);
}

static int
fail_cb(void * cookie)
{

	(void)cookie;
	vt_begin("fail_cb"); common(); vt_end();
	return (0);
}

static int
noop_cb(void * cookie)
{

	(void)cookie;
	noop_ran = 1;
	return (0);
}

static int
kindof(const char * s)
{

	switch (s[0]) {
	case 'D': return (FN_DATA);
	case 'A': return (FN_EAGAIN);
	case 'I': return (FN_EINTR);
	case 'E': return (FN_EOF);
	default: return (FN_ERR);
	}
}

static void
exec_op(const char * l, int ctx)
{
	char op[32], k[16];
	long a = 0, b = 0, c = 0;
	long long at = 0;
	size_t i;

	if (sscanf(l, "%31s", op) < 1)
		return;
	if (strcmp(op, "tls") == 0 && R == NULL && W == NULL) {
		use_tls = 1;

	} else if (strcmp(op, "rx") == 0 || strcmp(op, "tx") == 0) {
		struct fn_list * L;
		if (sscanf(l, "%*s %ld %15s %ld %ld %lld", &a, k, &b, &c, &at) < 2 || a < 0 || a >= fk_n)
			return;
		L = op[0] == 'r' ? &fn_fds[a].rx : &fn_fds[a].tx;
		fn_push(L, kindof(k), b, (int)c, fk_clock_us + at);
		vt_begin(op); vt_int("fd", a); vt_str("kind", fn_kindname(kindof(k))); vt_int("n", b); vt_end();
	} else if (strcmp(op, "rinit") == 0) {
		if (R != NULL)
			return;
		if (use_tls) {
			if ((Cr = network_ssl_open(fk_real(rfd), "host.example")) != NULL && (R = netbuf_ssl_read_init(Cr)) == NULL) {
				network_ssl_close(Cr); Cr = NULL;
			}
		} else
			R = netbuf_read_init(fk_real(rfd));
		vt_begin("rinit"); vt_bool("ok", R != NULL); common(); vt_end();
	} else if (strcmp(op, "winit") == 0) {
		if (W != NULL)
			return;
		fn_fds[wfd].txstream = 1;
		if (use_tls) {
			if ((Cw = network_ssl_open(fk_real(wfd), "host.example")) != NULL && (W = netbuf_ssl_write_init(Cw, fail_cb, NULL)) == NULL) {
				network_ssl_close(Cw); Cw = NULL;
			}
		} else
			W = netbuf_write_init(fk_real(wfd), fail_cb, NULL);
		vt_begin("winit"); vt_bool("ok", W != NULL); common(); vt_end();
	} else if (strcmp(op, "wait") == 0) {
		/* wait ID K: only if no wait is pending (API precondition) */
		struct waitrec * w;
		int rc, j, busy = 0;
		if (R == NULL || sscanf(l, "%*s %ld %ld", &a, &b) != 2 || a < 1 || a > MAXW || b < 1)
			return;
		for (j = 1; j <= MAXW; j++)
			if (waits[j].state == 1) busy = 1;
		w = &waits[a];
		if (busy || w->state != 0)
			return;
		w->state = 1;
		rc = netbuf_read_wait(R, (size_t)b, wait_cb, w);
		if (rc != 0)
			w->state = 4;
		vt_begin("wait"); vt_int("id", a); vt_int("k", b); vt_int("rc", rc); vt_int("ctx", ctx); common(); vt_end();
	} else if (strcmp(op, "wcancel") == 0) {
		int j;
		if (R == NULL)
			return;
		netbuf_read_wait_cancel(R);
		for (j = 1; j <= MAXW; j++)
			if (waits[j].state == 1) waits[j].state = 3;
		vt_begin("wait_cancel"); vt_int("ctx", ctx); vt_end();
	} else if (strcmp(op, "peek") == 0) {
		if (R == NULL)
			return;
		vt_begin("peek"); log_peek(); vt_end();
	} else if (strcmp(op, "consume") == 0) {
		uint8_t * data;
		size_t len;
		int j;
		if (R == NULL || sscanf(l, "%*s %ld", &a) != 1 || a < 0)
			return;
		for (j = 1; j <= MAXW; j++)
			if (waits[j].state == 1)
				return;		/* assumption: the application does not consume while a wait is pending */
		netbuf_read_peek(R, &data, &len);
		if ((size_t)a > len) a = (long)len;	/* API precondition: cannot consume what is not there */
		netbuf_read_consume(R, (size_t)a);
		consumed += a;
		vt_begin("consume"); vt_int("j", a); vt_end();
	} else if (strcmp(op, "wwrite") == 0) {
		uint8_t * buf;
		int rc;
		if (W == NULL || wdead || reserved != NULL || sscanf(l, "%*s %ld", &a) != 1 || a < 0)
			return;
		buf = __real_malloc((size_t)a + 1);
		for (i = 0; i < (size_t)a; i++) buf[i] = fn_txstream(written + (long long)i);
		rc = netbuf_write_write(W, buf, (size_t)a);
		__real_free(buf);
		vt_begin("nb_write"); vt_int("len", a); vt_int("rc", rc); vt_int("woff", written); vt_int("ctx", ctx); common(); vt_end();
		if (rc != 0)
			wdead = 1;	/* a failed buffered write is not retried (the interface promises nothing about that) */
		written += a;
	} else if (strcmp(op, "reserve") == 0) {
		if (W == NULL || wdead || reserved != NULL || sscanf(l, "%*s %ld", &a) != 1 || a < 0)
			return;
		reserved = netbuf_write_reserve(W, (size_t)a);
		reservedlen = (size_t)a;
		vt_begin("nb_reserve"); vt_int("len", a); vt_bool("ok", reserved != NULL); common(); vt_end();
		if (reserved == NULL)
			wdead = 1;
	} else if (strcmp(op, "wconsume") == 0) {
		int rc;
		if (W == NULL || reserved == NULL || sscanf(l, "%*s %ld", &a) != 1 || a < 0)
			return;
		if ((size_t)a > reservedlen) a = (long)reservedlen;
		for (i = 0; i < (size_t)a; i++) reserved[i] = fn_txstream(written + (long long)i);
		rc = netbuf_write_consume(W, (size_t)a);
		reserved = NULL;
		vt_begin("nb_consume"); vt_int("len", a); vt_int("rc", rc); vt_int("woff", written); common(); vt_end();
		written += a;
	} else if (strcmp(op, "tick") == 0) {
		if (sscanf(l, "%*s %ld %ld", &a, &b) == 2)
			fk_tick((long long)a * 1000000 + b);
	} else if (strcmp(op, "fail") == 0) {
		char mode[16];
		if (sscanf(l, "%*s %ld %15s", &a, mode) == 2)
			aw_plan(a, strcmp(mode, "persist") == 0);
	} else if (strcmp(op, "runk") == 0 && ctx == 0) {
		struct timeval tv0 = {0, 0};
		int rc;
		void * kk = events_timer_register(noop_cb, NULL, &tv0);
		vt_begin("run_call"); vt_end();
		rc = events_run();
		vt_begin("run_ret"); vt_int("rc", rc); common(); vt_end();
		if (kk != NULL && !noop_ran)
			events_timer_cancel(kk);
		noop_ran = 0;
	} else if (strcmp(op, "drain") == 0 && ctx == 0) {
		int n, rc;
		/* run until the kernel has nothing more to offer (poll would block: the child then exits as quiescent) */
		for (n = 0; n < 5000; n++) {
			vt_begin("run_call"); vt_end();
			rc = events_run();
			vt_begin("run_ret"); vt_int("rc", rc); common(); vt_end();
		}
	}
}

static void
log_end(void)
{
	int j, pend = 0;

	for (j = 1; j <= MAXW; j++)
		if (waits[j].state == 1) pend = j;
	vt_begin("end"); vt_int("pending_wait", pend); vt_int("allocs", aw_count()); vt_end();
}

static char * lines[1 << 16];
static int nlines;

static void
run_child(void)
{
	int i, cur = 0, inmain = 0;

	for (i = 1; i <= MAXW; i++)
		waits[i].id = i;
	for (i = 0; i < nlines; i++) {
		char * l = lines[i];
		long a, b;
		while (*l == ' ' || *l == '\t') l++;
		if (sscanf(l, "script %ld rc %ld", &a, &b) == 2) { cur = (a >= 1 && a <= MAXW) ? (int)a : 0; if (cur) waits[cur].rc = (int)b; continue; }
		if (strncmp(l, "endscript", 9) == 0) { cur = 0; continue; }
		if (cur && waits[cur].nops < MAXOPS)
			waits[cur].ops[waits[cur].nops++] = l;
	}
	fn_init();
	fk_maxpolls = 12000;
	for (i = 0; i < 2; i++) {
		int lfd = fk_open();
		memset(&fn_fds[lfd], 0, sizeof(struct fn_fd));
		fn_fds[lfd].addr = -1;
	}
	fk_quiescent_fn = log_end;
	aw_enable(1);
	aw_reset();
	for (i = 0; i < nlines; i++) {
		char * l = lines[i];
		while (*l == ' ' || *l == '\t') l++;
		if (strncmp(l, "main", 4) == 0) { inmain = 1; continue; }
		if (strncmp(l, "endmain", 7) == 0) break;
		if (inmain)
			exec_op(l, 0);
	}
	log_end();
	aw_plan(0, 0);
	if (R != NULL) { netbuf_read_wait_cancel(R); netbuf_read_free(R); }
	if (W != NULL) netbuf_write_free(W);
	if (Cr != NULL) network_ssl_close(Cr);
	if (Cw != NULL) network_ssl_close(Cw);
	vt_flush();
	exit(0);
}

static void
at_exit_report(void)
{

	vt_begin("exit"); vt_int("live", aw_live()); vt_end();
	vt_flush();
}

int
main(int argc, char ** argv)
{
	static char buf[1 << 22];
	FILE * f;
	size_t len = 0;
	char * p, * q;

	if (argc < 3) {
		fprintf(stderr, "usage: drv_netbuf programs trace\n");
		return (3);
	}
	if ((f = fopen(argv[1], "r")) == NULL) { perror(argv[1]); return (3); }
	vt_open(argv[2]);
	for (;;) {
		int have = 0;
		pid_t pid;
		int st;
		nlines = 0; len = 0;
		while (fgets(buf + len, (int)(sizeof(buf) - len), f) != NULL) {
			p = buf + len;
			if (!have) {
				if (strncmp(p, "prog", 4) == 0) have = 1;
				continue;
			}
			if (strncmp(p, "end\n", 4) == 0 || strcmp(p, "end") == 0)
				break;
			q = p + strlen(p);
			if (q > p && q[-1] == '\n') q[-1] = 0;
			if (nlines < (1 << 16)) lines[nlines++] = p;
			len += strlen(p) + 1;
			if (len > sizeof(buf) - 4096) break;
		}
		if (!have)
			break;
		vt_reset();
		vt_flush();
		if ((pid = fork()) == 0) {
			__real_close(fileno(f));
			atexit(at_exit_report);
			run_child();
		}
		waitpid(pid, &st, 0);
		fseek(vt_out, 0, SEEK_END);
		if (!(WIFEXITED(st) && WEXITSTATUS(st) == 0)) {
			vt_begin("crash"); vt_int("status", st); vt_end();
			vt_flush();
			return (WIFEXITED(st) ? WEXITSTATUS(st) : 99);
		}
	}
	fclose(f);
	fclose(vt_out);
	return (0);
}
