/*
 * Conformance driver for datastruct/elasticarray.c, elasticqueue.c,
 * seqptrmap.c and mpool.h (properties C12 and C14).  Programs are text
 * ("prog <kind>" ... "end"); one ndjson execution per program.  Allocation
 * failures are injected by the wrapper on request of the program ("fail K
 * once|persist").  The driver records; TLC judges.
 */
#include <sys/wait.h>

#include <errno.h>
#include <stdint.h>
#include <stdio.h>
#include <stdlib.h>
#include <string.h>
#include <unistd.h>

#include "elasticarray.h"
#include "elasticqueue.h"
#include "mpool.h"
#include "seqptrmap.h"

#include "allocwrap.h"
#include "vtrace.h"

#define MAXLINE (1 << 20)
static char * line;

static size_t
unhex(const char * h, uint8_t * out, size_t max)
{
	size_t n = 0;
	unsigned v;

	while (h[0] && h[1] && n < max && sscanf(h, "%2x", &v) == 1) {
		out[n++] = (uint8_t)v;
		h += 2;
	}
	return (n);
}

static void
common(void)
{

	vt_int("inj", aw_injected());
	aw_clear_injected();
}

static int
parse_fail(const char * l)
{
	long k;
	char mode[16];

	if (sscanf(l, "fail %ld %15s", &k, mode) == 2) {
		aw_plan(k, strcmp(mode, "persist") == 0);
		return (1);
	}
	return (0);
}

/* ---------------- elastic array ---------------- */
/* ---------------- typed wrappers of the elastic array (ELASTICARRAY_DECL) ---------------- */
struct rec1 { uint8_t b[1]; }; struct rec3 { uint8_t b[3]; }; struct rec4 { uint8_t b[4]; }; struct rec12 { uint8_t b[12]; };
ELASTICARRAY_DECL(R1L, r1l, struct rec1);
ELASTICARRAY_DECL(R3L, r3l, struct rec3);
ELASTICARRAY_DECL(R4L, r4l, struct rec4);
ELASTICARRAY_DECL(R12L, r12l, struct rec12);
static int typed;	/* calls with record sizes 1, 3, 4, 12 go through the typed wrappers (same object, same events) */
#define TYPEDSZ(n) (typed && ((n) == 1 || (n) == 3 || (n) == 4 || (n) == 12))
#define TCALL(n, EA, f1, f3, f4, f12) ((n) == 1 ? f1 : (n) == 3 ? f3 : (n) == 4 ? f4 : f12)
static int
t_append(struct elasticarray * EA, const void * d, size_t nrec, size_t n)
{
	return (TCALL(n, EA, r1l_append((void *)EA, d, nrec), r3l_append((void *)EA, d, nrec), r4l_append((void *)EA, d, nrec), r12l_append((void *)EA, d, nrec)));
}
static int
t_resize(struct elasticarray * EA, size_t nrec, size_t n)
{
	return (TCALL(n, EA, r1l_resize((void *)EA, nrec), r3l_resize((void *)EA, nrec), r4l_resize((void *)EA, nrec), r12l_resize((void *)EA, nrec)));
}
static void
t_shrink(struct elasticarray * EA, size_t nrec, size_t n)
{
	if (n == 1) r1l_shrink((void *)EA, nrec); else if (n == 3) r3l_shrink((void *)EA, nrec); else if (n == 4) r4l_shrink((void *)EA, nrec); else r12l_shrink((void *)EA, nrec);
}
static size_t
t_getsize(struct elasticarray * EA, size_t n)
{
	return (TCALL(n, EA, r1l_getsize((void *)EA), r3l_getsize((void *)EA), r4l_getsize((void *)EA), r12l_getsize((void *)EA)));
}
static void *
t_get(struct elasticarray * EA, size_t pos, size_t n)
{
	return (TCALL(n, EA, (void *)r1l_get((void *)EA, pos), (void *)r3l_get((void *)EA, pos), (void *)r4l_get((void *)EA, pos), (void *)r12l_get((void *)EA, pos)));
}
static int
t_export(struct elasticarray * EA, void ** buf, size_t * nrec, size_t n, int dup)
{
	if (dup)
		return (TCALL(n, EA, r1l_exportdup((void *)EA, (struct rec1 **)buf, nrec), r3l_exportdup((void *)EA, (struct rec3 **)buf, nrec),
		    r4l_exportdup((void *)EA, (struct rec4 **)buf, nrec), r12l_exportdup((void *)EA, (struct rec12 **)buf, nrec)));
	return (TCALL(n, EA, r1l_export((void *)EA, (struct rec1 **)buf, nrec), r3l_export((void *)EA, (struct rec3 **)buf, nrec),
	    r4l_export((void *)EA, (struct rec4 **)buf, nrec), r12l_export((void *)EA, (struct rec12 **)buf, nrec)));
}

static void
run_ea(FILE * f)
{
	typed = 0;
	struct elasticarray * EA = NULL;
	static uint8_t data[MAXLINE / 2];
	char op[32], arg[64];
	unsigned long a, b;
	int rc;

	while (fgets(line, MAXLINE, f) != NULL) {
		a = b = 0;
		if (sscanf(line, "%31s", op) < 1)
			continue;
		if (strcmp(op, "end") == 0)
			break;
		if (parse_fail(line))
			continue;
		if (strcmp(op, "typed") == 0) { typed = 1; continue; }
		if (strcmp(op, "init") == 0) {
			if (EA != NULL || sscanf(line, "init %lu %lu", &a, &b) != 2)
				continue;
			EA = elasticarray_init(a, b);
			vt_begin("ea_init"); vt_int("nrec", (long long)a); vt_int("reclen", (long long)b);
			vt_bool("ok", EA != NULL); vt_int("alloc", (long long)(EA ? aw_last_realloc_size() : 0)); common(); vt_end();
			continue;
		}
		if (EA == NULL)
			continue;
		if (strcmp(op, "append") == 0) {
			size_t n;
			char * h = strchr(line + 7, ' ');
			if (sscanf(line, "append %lu", &a) != 1 || a == 0 || h == NULL)
				continue;
			n = unhex(h + 1, data, sizeof(data));
			n -= n % a;
			rc = TYPEDSZ(a) ? t_append(EA, data, n / a, a) : elasticarray_append(EA, data, n / a, a);
			vt_begin("ea_append"); vt_int("reclen", (long long)a); vt_hex("data", data, n); vt_int("rc", rc);
			vt_int("alloc", (long long)aw_last_realloc_size()); common(); vt_end();
		} else if (strcmp(op, "resize") == 0 || strcmp(op, "shrink") == 0) {
			if (sscanf(line, "%*s %63s %lu", arg, &b) != 2 || b == 0)
				continue;
			/* "big" = a record count whose product with reclen overflows size_t */
			if (strcmp(arg, "big") == 0) {
				if (b < 2)
					continue;	/* no record count overflows with 1-byte records */
				a = SIZE_MAX / b + 1;
			} else
				a = strtoul(arg, NULL, 10);
			if (op[0] == 'r') {
				rc = TYPEDSZ(b) ? t_resize(EA, a, b) : elasticarray_resize(EA, a, b);
				vt_begin("ea_resize");
			} else {
				if (TYPEDSZ(b)) t_shrink(EA, a, b); else elasticarray_shrink(EA, a, b);
				rc = 0;
				vt_begin("ea_shrink");
			}
			vt_bool("big", strcmp(arg, "big") == 0);
			vt_int("nrec", strcmp(arg, "big") == 0 ? -1 : (long long)a); vt_int("reclen", (long long)b); vt_int("rc", rc);
			vt_int("alloc", (long long)aw_last_realloc_size()); common(); vt_end();
		} else if (strcmp(op, "appendbig") == 0) {
			/* nrec * reclen overflows, or does not fit on top of the current size */
			if (sscanf(line, "appendbig %lu %lu", &a, &b) != 2 || b == 0)
				continue;
			if (a && b < 2)
				continue;
			if (!a && elasticarray_getsize(EA, 1) < b)
				continue;	/* cannot exceed SIZE_MAX on top of the current size */
			a = a ? SIZE_MAX / b + 1 : (SIZE_MAX - elasticarray_getsize(EA, 1)) / b + 1;
			rc = elasticarray_append(EA, data, a, b);
			vt_begin("ea_appendbig"); vt_int("rc", rc); vt_int("errno", rc ? errno : 0);
			vt_int("alloc", (long long)aw_last_realloc_size()); common(); vt_end();
		} else if (strcmp(op, "truncate") == 0) {
			rc = elasticarray_truncate(EA);
			vt_begin("ea_truncate"); vt_int("rc", rc); vt_int("alloc", (long long)aw_last_realloc_size()); common(); vt_end();
		} else if (strcmp(op, "getsize") == 0) {
			if (sscanf(line, "getsize %lu", &a) != 1 || a == 0)
				continue;
			vt_begin("ea_getsize"); vt_int("reclen", (long long)a);
			vt_int("n", (long long)(TYPEDSZ(a) ? t_getsize(EA, a) : elasticarray_getsize(EA, a))); vt_end();
		} else if (strcmp(op, "get") == 0) {
			/* read record pos of length reclen (only if the driver knows it exists) */
			if (sscanf(line, "get %lu %lu", &a, &b) != 2 || b == 0)
				continue;
			if (a >= elasticarray_getsize(EA, b))
				continue;
			vt_begin("ea_get"); vt_int("pos", (long long)a); vt_int("reclen", (long long)b);
			vt_hex("data", TYPEDSZ(b) ? t_get(EA, a, b) : elasticarray_get(EA, a, b), b); vt_end();
		} else if (strcmp(op, "exportdup") == 0 || strcmp(op, "export") == 0) {
			void * buf = NULL;
			size_t nrec = 0, total = elasticarray_getsize(EA, 1);
			if (sscanf(line, "%*s %lu", &a) != 1 || a == 0)
				continue;
			if (TYPEDSZ(a))
				rc = t_export(EA, &buf, &nrec, a, op[6] == 'd');
			else if (op[6] == 'd')
				rc = elasticarray_exportdup(EA, &buf, &nrec, a);
			else
				rc = elasticarray_export(EA, &buf, &nrec, a);
			vt_begin(op[6] == 'd' ? "ea_exportdup" : "ea_export"); vt_int("reclen", (long long)a); vt_int("rc", rc);
			vt_int("nrec", (long long)nrec);
			/* the buffer handed over must be a live allocation of at least the content size */
			vt_int("bufsize", (long long)(rc == 0 && buf ? aw_live_size(buf) : 0));
			vt_hex("data", buf, rc == 0 ? total : 0); common(); vt_end();
			if (rc == 0) {
				free(buf);
				if (op[6] != 'd')
					EA = NULL;
			}
		}
	}
	/* Final observation (needs no allocation) and release. */
	if (EA != NULL) {
		size_t total = elasticarray_getsize(EA, 1);
		vt_begin("ea_dump"); vt_int("size", (long long)total);
		vt_hex("data", total ? elasticarray_get(EA, 0, 1) : NULL, total); vt_end();
		elasticarray_free(EA);
	}
	{ long nallocs = aw_count(); aw_plan(0, 0);
	vt_begin("end"); vt_int("live", aw_live()); vt_int("allocs", nallocs); vt_end(); }
}

/* ---------------- elastic queue ---------------- */
static void
run_eq(FILE * f)
{
	struct elasticqueue * EQ = NULL;
	uint8_t rec[64];
	char op[32];
	unsigned long a, reclen = 0;
	size_t i, n;
	int rc;

	while (fgets(line, MAXLINE, f) != NULL) {
		if (sscanf(line, "%31s", op) < 1)
			continue;
		if (strcmp(op, "end") == 0)
			break;
		if (parse_fail(line))
			continue;
		if (strcmp(op, "qinit") == 0) {
			if (EQ != NULL || sscanf(line, "qinit %lu", &reclen) != 1 || reclen == 0 || reclen > sizeof(rec))
				continue;
			EQ = elasticqueue_init(reclen);
			vt_begin("eq_init"); vt_int("reclen", (long long)reclen); vt_bool("ok", EQ != NULL); common(); vt_end();
			continue;
		}
		if (EQ == NULL)
			continue;
		if (strcmp(op, "qadd") == 0) {
			memset(rec, 0, sizeof(rec));
			unhex(line + 5, rec, reclen);
			rc = elasticqueue_add(EQ, rec);
			vt_begin("eq_add"); vt_hex("rec", rec, reclen); vt_int("rc", rc); common(); vt_end();
		} else if (strcmp(op, "qdelete") == 0) {
			elasticqueue_delete(EQ);
			vt_begin("eq_delete"); common(); vt_end();
		} else if (strcmp(op, "qgetlen") == 0) {
			vt_begin("eq_getlen"); vt_int("n", (long long)elasticqueue_getlen(EQ)); vt_end();
		} else if (strcmp(op, "qget") == 0) {
			void * p;
			if (sscanf(line, "qget %lu", &a) != 1)
				continue;
			p = elasticqueue_get(EQ, a);
			/* (positions beyond 2^31 are logged as 2^31 - 1: beyond the end of any queue a program builds) */
			vt_begin("eq_get"); vt_int("pos", a > 0x7fffffffUL ? 0x7fffffffLL : (long long)a); vt_bool("null", p == NULL);
			vt_hex("rec", p, p ? reclen : 0); vt_end();
		}
	}
	if (EQ != NULL) {
		n = elasticqueue_getlen(EQ);
		vt_begin("eq_dump"); vt_int("n", (long long)n);
		fprintf(vt_out, ",\"recs\":[");
		for (i = 0; i < n && i < 100000; i++) {
			const uint8_t * p = elasticqueue_get(EQ, i);
			size_t j;
			fprintf(vt_out, "%s\"", i ? "," : "");
			for (j = 0; p != NULL && j < reclen; j++) fprintf(vt_out, "%02x", p[j]);
			fputc('"', vt_out);
		}
		fputc(']', vt_out);
		vt_end();
		elasticqueue_free(EQ);
	}
	{ long nallocs = aw_count(); aw_plan(0, 0);
	vt_begin("end"); vt_int("live", aw_live()); vt_int("allocs", nallocs); vt_end(); }
}

/* ---------------- sequential pointer map ---------------- */
#define NPTR 4096
static char ptrtab[NPTR + 1];
static long
ptrid(void * p)
{

	if (p == NULL)
		return (0);
	if ((char *)p < &ptrtab[1] || (char *)p > &ptrtab[NPTR])
		return (-1);
	return ((char *)p - ptrtab);
}

static void
run_sm(FILE * f)
{
	struct seqptrmap * M;
	char op[32];
	long a, issued = 0, i;
	int64_t r;

	M = seqptrmap_init();
	vt_begin("sm_init"); vt_bool("ok", M != NULL); common(); vt_end();
	while (fgets(line, MAXLINE, f) != NULL) {
		a = 0;
		if (sscanf(line, "%31s %ld", op, &a) < 1)
			continue;
		if (strcmp(op, "end") == 0)
			break;
		if (parse_fail(line))
			continue;
		if (M == NULL)
			continue;
		if (strcmp(op, "sadd") == 0) {
			if (a < 1 || a > NPTR)
				continue;
			r = seqptrmap_add(M, &ptrtab[a]);
			if (r >= 0 && r + 1 > issued) issued = (long)r + 1;
			vt_begin("sm_add"); vt_int("ptr", a); vt_int("num", (long long)r); common(); vt_end();
		} else if (strcmp(op, "sget") == 0) {
			/* (numbers beyond +-2^31 are logged as +-(2^31 - 1): outside any map a program builds) */
			vt_begin("sm_get"); vt_int("num", a > 0x7fffffffL ? 0x7fffffffL : a < -0x7fffffffL ? -0x7fffffffL : a); vt_int("ptr", ptrid(seqptrmap_get(M, a))); vt_end();
		} else if (strcmp(op, "sdelete") == 0) {
			seqptrmap_delete(M, a);
			vt_begin("sm_delete"); vt_int("num", a); common(); vt_end();
		} else if (strcmp(op, "sgetmin") == 0) {
			vt_begin("sm_getmin"); vt_int("num", (long long)seqptrmap_getmin(M)); vt_end();
		}
	}
	if (M != NULL) {
		/* Final observation: every number issued so far, plus the two around the range. */
		vt_begin("sm_dump"); vt_int("min", (long long)seqptrmap_getmin(M));
		fprintf(vt_out, ",\"ptrs\":[");
		for (i = -1; i <= issued && i < 100000; i++)
			fprintf(vt_out, "%s%ld", i >= 0 ? "," : "", ptrid(seqptrmap_get(M, i)));
		fputc(']', vt_out);
		vt_end();
		seqptrmap_free(M);
	}
	{ long nallocs = aw_count(); aw_plan(0, 0);
	vt_begin("end"); vt_int("live", aw_live()); vt_int("allocs", nallocs); vt_end(); }
}

/* ---------------- object pool ---------------- */
struct obj { char payload[40]; };
MPOOL(obj, struct obj, 4);
MPOOL(obj1, struct obj, 1);
static int pool1;	/* use the pool with a cache of one object */
#define POOL_MALLOC() (pool1 ? mpool_obj1_malloc() : mpool_obj_malloc())
#define POOL_FREE(p) do { if (pool1) mpool_obj1_free(p); else mpool_obj_free(p); } while (0)
#define NSLOT 256
static struct obj * slots[NSLOT + 1];

static long mp_allocs;
static void
mp_exit_handler(void)
{

	/* Runs after the pool's own atexit handler: everything the pool obtained must be gone. */
	vt_begin("mp_exit"); vt_int("live", aw_live()); vt_int("allocs", mp_allocs); vt_end();
	vt_flush();
}

/* objects handed back to the pool by exit handlers of the application, registered in the middle of the pool's use */
static long late[NSLOT + 1];
static int nlate, late_done;
static void
mp_late_free(void)
{
	long a, i;

	if (late_done >= nlate) return;
	a = late[nlate - 1 - late_done++];		/* handlers run in reverse order of registration */
	if (slots[a] == NULL) return;
	vt_begin("mp_free"); vt_int("slot", a); vt_int("obj", aw_live_id(slots[a]));
	for (i = 0; i < (long)sizeof(struct obj); i++)
		if (slots[a]->payload[i] != (char)a) break;
	vt_bool("intact", i == (long)sizeof(struct obj)); vt_bool("late", 1);
	POOL_FREE(slots[a]);
	slots[a] = NULL;
	common(); vt_end();
}

static void
run_mp_child(FILE * f)
{
	char op[32];
	long a, i;

	atexit(mp_exit_handler);	/* registered first => runs last */
	while (fgets(line, MAXLINE, f) != NULL) {
		a = 0;
		if (sscanf(line, "%31s %ld", op, &a) < 1)
			continue;
		if (strcmp(op, "end") == 0)
			break;
		if (parse_fail(line))
			continue;
		if (strcmp(op, "pool1") == 0) { pool1 = 1; continue; }
		if (a < 1 || a > NSLOT)
			continue;
		if (strcmp(op, "pmalloc") == 0) {
			if (slots[a] != NULL)
				continue;
			slots[a] = POOL_MALLOC();
			vt_begin("mp_malloc"); vt_int("slot", a); vt_int("obj", aw_live_id(slots[a]));
			vt_bool("null", slots[a] == NULL); common(); vt_end();
			if (slots[a] != NULL)
				memset(slots[a], (int)a, sizeof(struct obj));	/* the object is ours: use all of it */
		} else if (strcmp(op, "patexit") == 0) {
			/* the application registers an exit handler that will hand this object back */
			if (slots[a] == NULL || nlate >= 24)
				continue;
			for (i = 0; i < nlate; i++) if (late[i] == a) break;
			if (i < nlate) continue;
			late[nlate++] = a;
			atexit(mp_late_free);
		} else if (strcmp(op, "pfree") == 0) {
			if (slots[a] == NULL)
				continue;
			for (i = 0; i < nlate; i++) if (late[i] == a) break;
			if (i < nlate) continue;		/* (promised to an exit handler) */
			vt_begin("mp_free"); vt_int("slot", a); vt_int("obj", aw_live_id(slots[a]));
			/* still intact? (nobody else was handed the same object) */
			for (i = 0; i < (long)sizeof(struct obj); i++)
				if (slots[a]->payload[i] != (char)a) break;
			vt_bool("intact", i == (long)sizeof(struct obj));
			POOL_FREE(slots[a]);
			slots[a] = NULL;
			common(); vt_end();
		}
	}
	for (i = 1; i <= NSLOT; i++)
		if (slots[i] != NULL) {
			long j;
			for (j = 0; j < nlate; j++) if (late[j] == i) break;
			if (j < nlate) continue;
			vt_begin("mp_free"); vt_int("slot", i); vt_int("obj", aw_live_id(slots[i])); vt_bool("intact", 1);
			POOL_FREE(slots[i]); slots[i] = NULL;
			common(); vt_end();
		}
	mp_allocs = aw_count();
	aw_plan(0, 0);
	vt_flush();
	exit(0);
}

static void
run_mp(FILE * f)
{
	pid_t pid;
	long pos;
	int st;

	vt_flush();
	fflush(NULL);
	pos = ftell(f);
	if ((pid = fork()) == 0)
		run_mp_child(f);
	waitpid(pid, &st, 0);
	/* The child consumed the program from the shared descriptor; resynchronise the parent's streams. */
	fseek(f, pos, SEEK_SET);
	fseek(vt_out, 0, SEEK_END);
	if (!(WIFEXITED(st) && WEXITSTATUS(st) == 0)) {
		vt_begin("mp_crash"); vt_int("status", st); vt_end();
	}
	/* skip the program text in the parent */
	while (fgets(line, MAXLINE, f) != NULL)
		if (strncmp(line, "end", 3) == 0)
			break;
}

int
main(int argc, char ** argv)
{
	char kind[32];
	FILE * f;

	if (argc < 3) {
		fprintf(stderr, "usage: drv_ds programs trace\n");
		return (3);
	}
	line = __real_malloc(MAXLINE);
	if ((f = fopen(argv[1], "r")) == NULL) { perror(argv[1]); return (3); }
	vt_open(argv[2]);
	aw_enable(1);
	while (fgets(line, MAXLINE, f) != NULL) {
		if (sscanf(line, "prog %31s", kind) != 1)
			continue;
		vt_reset();
		aw_reset();
		if (strcmp(kind, "ea") == 0) run_ea(f);
		else if (strcmp(kind, "eq") == 0) run_eq(f);
		else if (strcmp(kind, "sm") == 0) run_sm(f);
		else if (strcmp(kind, "mp") == 0) run_mp(f);
		aw_reset();
	}
	fclose(f);
	fclose(vt_out);
	return (0);
}
