/*
 * Fake kernel for the conformance drivers (single translation unit: include
 * once from the driver).  Interposed at link time with
 *   -Wl,--wrap=poll,--wrap=clock_gettime[,--wrap=recv,--wrap=send,...]
 * so that readiness, the clock, and the answers to I/O calls are inputs
 * chosen by the program, never by the host.  Mirrors specs/events (Env part).
 *
 * Descriptors: "logical" descriptors 0..n-1 are backed by real descriptors
 * obtained from open("/dev/null"), so close()/fcntl() need no wrapping.
 */
#ifndef FAKEKERNEL_H_
#define FAKEKERNEL_H_
#include <sys/socket.h>
#include <sys/types.h>

#include <errno.h>
#include <fcntl.h>
#include <poll.h>
#include <stdlib.h>
#include <string.h>
#include <time.h>
#include <unistd.h>

#include "vtrace.h"

#define FK_IN	1
#define FK_OUT	2
#define FK_ERR	4
#define FK_HUP	8
#define FK_MAXFD 1024
/* times are logged as (seconds, microseconds) pairs: TLC integers are 32-bit */
#define FK_CLOCK(k, t) do { vt_int(k "s", (t) / 1000000); vt_int(k "u", (t) % 1000000); } while (0)

static int fk_n;
static int fk_realfd[FK_MAXFD];
static int fk_ready[FK_MAXFD];		/* explicit readiness (events driver) */
static long long fk_clock_us = 1000000;	/* starts at 1 s so that nothing is "time zero" */
static int fk_polls;			/* number of poll calls (runaway guard) */
static int fk_maxpolls = 20000;
/* A signal handler running while the loop is inside poll(2): armed by the driver for the next poll call.  1: the handler runs
 * as poll returns its (normal) answer; 2: if poll would have to sleep, it is interrupted instead (-1 / EINTR, no answer). */
static int fk_clockfail, fk_clockfailed;	/* the fk_clockfail-th reading of the clock from now fails (EPERM); count of failures */
static int fk_sig_armed;
static void (*fk_sig_fn)(void);

struct fk_sched { long long t; int fd; int flags; int done; };
static struct fk_sched fk_sch[4096];
static int fk_nsch;

/* readiness provider: default = explicit flags; stream drivers override */
static int (*fk_ready_fn)(int lfd);
/* called when a scheduled entry fires (stream drivers use it to make data arrive) */
static void (*fk_sched_fn)(int lfd, int flags);

static inline int
fk_open(void)
{
	int fd;

	if (fk_n >= FK_MAXFD)
		return (-1);
	if ((fd = open("/dev/null", O_RDWR)) == -1) {
		perror("open /dev/null");
		exit(3);
	}
	fk_realfd[fk_n] = fd;
	fk_ready[fk_n] = 0;
	return (fk_n++);
}

static inline int fk_real(int lfd) { return ((lfd >= 0 && lfd < fk_n) ? fk_realfd[lfd] : -1); }
static inline int
fk_logical(int realfd)
{
	int i;

	for (i = 0; i < fk_n; i++)
		if (fk_realfd[i] == realfd)
			return (i);
	return (-1);
}

static inline void
fk_flags_json(const char * k, int fl)
{

	fprintf(vt_out, ",\"%s\":[", k);
	{
		const char * sep = "";
		if (fl & FK_IN) { fprintf(vt_out, "%s\"IN\"", sep); sep = ","; }
		if (fl & FK_OUT) { fprintf(vt_out, "%s\"OUT\"", sep); sep = ","; }
		if (fl & FK_ERR) { fprintf(vt_out, "%s\"ERR\"", sep); sep = ","; }
		if (fl & FK_HUP) { fprintf(vt_out, "%s\"HUP\"", sep); sep = ","; }
	}
	fputc(']', vt_out);
}

static inline int
fk_parse_flags(const char * s)
{
	int fl = 0;

	for (; *s; s++) {
		if (*s == 'I') fl |= FK_IN;
		if (*s == 'O') fl |= FK_OUT;
		if (*s == 'E') fl |= FK_ERR;
		if (*s == 'H') fl |= FK_HUP;
	}
	return (fl);
}

/* readiness changes are logged as environment events */
static inline void
fk_set_ready(int lfd, int flags)
{

	if (lfd < 0 || lfd >= fk_n)
		return;
	fk_ready[lfd] = flags;
	vt_begin("env"); vt_int("fd", lfd); vt_int("flags", flags); FK_CLOCK("c", fk_clock_us); vt_end();
}

static inline void
fk_add_sched(long long t, int lfd, int flags)
{

	if (fk_nsch < 4096) {
		fk_sch[fk_nsch].t = t; fk_sch[fk_nsch].fd = lfd; fk_sch[fk_nsch].flags = flags;
		fk_sch[fk_nsch].done = 0; fk_nsch++;
	}
}

static inline void
fk_apply_due(void)
{
	int i, again = 1;

	/* apply in time order */
	while (again) {
		int best = -1;
		again = 0;
		for (i = 0; i < fk_nsch; i++)
			if (!fk_sch[i].done && fk_sch[i].t <= fk_clock_us &&
			    (best < 0 || fk_sch[i].t < fk_sch[best].t))
				best = i;
		if (best >= 0) {
			fk_sch[best].done = 1;
			if (fk_sched_fn != NULL)
				fk_sched_fn(fk_sch[best].fd, fk_sch[best].flags);
			else
				fk_set_ready(fk_sch[best].fd, fk_sch[best].flags);
			again = 1;
		}
	}
}

/* further source of future events (stream drivers: arrival times of scripted answers); -1 = none */
static long long (*fk_next_fn)(void);

static inline long long
fk_next_sched(void)
{
	long long t = -1, u;
	int i;

	for (i = 0; i < fk_nsch; i++)
		if (!fk_sch[i].done && (t < 0 || fk_sch[i].t < t))
			t = fk_sch[i].t;
	if (fk_next_fn != NULL && (u = fk_next_fn()) >= 0 && (t < 0 || u < t))
		t = u;
	return (t);
}

static inline void
fk_tick(long long us)
{

	fk_clock_us += us;
	vt_begin("tick"); FK_CLOCK("c", fk_clock_us); vt_end();
	fk_apply_due();
}

/* hook: called when poll would block forever with nothing scheduled */
static void (*fk_quiescent_fn)(void);
/* hook: number of library allocations so far (reported with the quiescent event, so that fault enumeration sees the whole run) */
static long (*fk_allocs_fn)(void);

int __wrap_poll(struct pollfd *, nfds_t, int);
int
__wrap_poll(struct pollfd * fds, nfds_t n, int timeout)
{
	long long c0 = fk_clock_us, deadline, next;
	nfds_t i;
	int nready;

	if (++fk_polls > fk_maxpolls) {
		vt_begin("runaway"); vt_int("polls", fk_polls); vt_end();
		vt_flush();
		_exit(0);
	}
	fk_apply_due();
	deadline = (timeout < 0) ? -1 : c0 + (long long)timeout * 1000;
	for (;;) {
		nready = 0;
		for (i = 0; i < n; i++) {
			int lfd = fk_logical(fds[i].fd), fl, rev = 0;
			fl = (lfd < 0) ? 0 : (fk_ready_fn ? fk_ready_fn(lfd) : fk_ready[lfd]);
			if ((fl & FK_IN) && (fds[i].events & POLLIN)) rev |= POLLIN;
			if ((fl & FK_OUT) && (fds[i].events & POLLOUT)) rev |= POLLOUT;
			if (fl & FK_ERR) rev |= POLLERR;
			if (fl & FK_HUP) rev |= POLLHUP;
			fds[i].revents = (short)rev;
			if (rev) nready++;
		}
		if (nready > 0 || timeout == 0)
			break;
		if (fk_sig_armed == 2 && fk_sig_fn != NULL) {
			fk_sig_armed = 0;
			vt_begin("poll"); fprintf(vt_out, ",\"fds\":[");
			for (i = 0; i < n; i++)
				fprintf(vt_out, "%s[%d,%d]", i ? "," : "", fk_logical(fds[i].fd),
				    ((fds[i].events & POLLIN) ? 1 : 0) | ((fds[i].events & POLLOUT) ? 2 : 0));
			fprintf(vt_out, "]"); vt_int("timeout", timeout); vt_raw("ret", "[]");
			FK_CLOCK("c0", c0); FK_CLOCK("c1", fk_clock_us); vt_bool("blocked", 0); vt_bool("eintr", 1); vt_end();
			fk_sig_fn();
			errno = EINTR;
			return (-1);
		}
		next = fk_next_sched();
		if (deadline < 0 && next < 0) {
			/* would block forever */
			vt_begin("poll"); fprintf(vt_out, ",\"fds\":[");
			for (i = 0; i < n; i++)
				fprintf(vt_out, "%s[%d,%d]", i ? "," : "", fk_logical(fds[i].fd),
				    ((fds[i].events & POLLIN) ? 1 : 0) | ((fds[i].events & POLLOUT) ? 2 : 0));
			fprintf(vt_out, "]"); vt_int("timeout", timeout); vt_raw("ret", "[]");
			FK_CLOCK("c0", c0); FK_CLOCK("c1", fk_clock_us); vt_bool("blocked", 1); vt_end();
			if (fk_quiescent_fn != NULL)
				fk_quiescent_fn();
			vt_begin("quiescent"); if (fk_allocs_fn != NULL) vt_int("allocs", fk_allocs_fn()); vt_end();
			vt_flush();
			_exit(0);
		}
		if (next >= 0 && (deadline < 0 || next <= deadline)) {
			if (next > fk_clock_us)
				fk_clock_us = next;
			fk_apply_due();
			continue;
		}
		/* timeout expires */
		fk_clock_us = deadline;
		fk_apply_due();
		/* one more look (something may have become ready exactly at the deadline) */
		nready = 0;
		for (i = 0; i < n; i++) {
			int lfd = fk_logical(fds[i].fd), fl, rev = 0;
			fl = (lfd < 0) ? 0 : (fk_ready_fn ? fk_ready_fn(lfd) : fk_ready[lfd]);
			if ((fl & FK_IN) && (fds[i].events & POLLIN)) rev |= POLLIN;
			if ((fl & FK_OUT) && (fds[i].events & POLLOUT)) rev |= POLLOUT;
			if (fl & FK_ERR) rev |= POLLERR;
			if (fl & FK_HUP) rev |= POLLHUP;
			fds[i].revents = (short)rev;
			if (rev) nready++;
		}
		break;
	}
	vt_begin("poll"); fprintf(vt_out, ",\"fds\":[");
	for (i = 0; i < n; i++)
		fprintf(vt_out, "%s[%d,%d]", i ? "," : "", fk_logical(fds[i].fd),
		    ((fds[i].events & POLLIN) ? 1 : 0) | ((fds[i].events & POLLOUT) ? 2 : 0));
	fprintf(vt_out, "],\"ret\":[");
	{
		int first = 1;
		for (i = 0; i < n; i++)
			if (fds[i].revents) {
				int r = fds[i].revents;
				fprintf(vt_out, "%s[%d,%d]", first ? "" : ",", fk_logical(fds[i].fd),
				    ((r & POLLIN) ? FK_IN : 0) | ((r & POLLOUT) ? FK_OUT : 0) |
				    ((r & POLLERR) ? FK_ERR : 0) | ((r & POLLHUP) ? FK_HUP : 0));
				first = 0;
			}
	}
	fprintf(vt_out, "]");
	vt_int("timeout", timeout); FK_CLOCK("c0", c0); FK_CLOCK("c1", fk_clock_us); vt_bool("blocked", 0); vt_end();
	if (fk_sig_armed && fk_sig_fn != NULL) {
		fk_sig_armed = 0;
		fk_sig_fn();
	}
	return (nready);
}

int __wrap_clock_gettime(clockid_t, struct timespec *);
int
__wrap_clock_gettime(clockid_t id, struct timespec * tp)
{

	(void)id;
	/* a reading of the clock that fails (armed by the driver for the next reading) */
	if (fk_clockfail > 0 && --fk_clockfail == 0) {
		fk_clockfailed++;
		errno = EPERM;
		return (-1);
	}
	tp->tv_sec = (time_t)(fk_clock_us / 1000000);
	tp->tv_nsec = (long)(fk_clock_us % 1000000) * 1000;
	return (0);
}
#endif
