/*
 * Conformance driver for network_ssl/network_ssl.c (extra X04): the real module and the real event loop, the fake kernel for
 * readiness, and a scripted TLS engine - SSL_read_ex / SSL_write_ex / SSL_get_error / SSL_shutdown are interposed at link time,
 * the SSL objects themselves are the real library's (never used for I/O).  events_immediate_register / events_network_register
 * / events_network_cancel are interposed as well: registrations are recorded, and the callbacks the module hands to the event
 * loop are wrapped so that every poke of the module (immediate, socket readable, socket writable) is recorded with its return.
 * One forked child per program.
 *   rq ANS...   wq ANS...      answers of the engine to reads / writes, in order: D<n>, R, W, Z, S0, SE, X (exhausted: R for reads, W for writes)
 *   script ID rc N / ops / endscript        what the callback of request ID does (read, write, rcancel, wcancel, close)
 *   main: open | read ID LEN MIN | write ID LEN MIN | rcancel | wcancel | env MASK | runk | close
 */
#include <sys/time.h>
#include <sys/wait.h>

#include <errno.h>
#include <stdio.h>
#include <stdlib.h>
#include <string.h>
#include <unistd.h>

#include <openssl/ssl.h>

#include "events.h"
#include "network_ssl.h"

#include "fakekernel.h"

#define MAXREQ 64
#define MAXOPS 16
struct req {
	int id, kind, state;		/* state: 0 none, 1 pending, 2 done, 3 cancelled */
	uint8_t * buf;
	size_t buflen, min;
	long long s0;			/* stream offset when the request was made */
	char * ops[MAXOPS];
	int nops, rc;
};
static struct req reqs[MAXREQ + 1];
static struct network_ssl_ctx * C;
static int cur_r, cur_w;		/* ids of the pending requests */
static long long rtotal, wtotal;	/* plaintext bytes delivered / accepted so far */
static uint8_t rstream(long long o) { return ((uint8_t)((o * 7 + 1) & 0xff)); }
static uint8_t wstream(long long o) { return ((uint8_t)((o * 13 + 5) & 0xff)); }

struct ans { int kind; long n; };
static struct ans rq[256], wq[256];
static int nrq, nwq, irq, iwq;
static int last_err;

static void exec_op(const char *, int);

/* ---- the scripted engine ---- */
int __wrap_SSL_read_ex(SSL *, void *, size_t, size_t *);
int __wrap_SSL_write_ex(SSL *, const void *, size_t, size_t *);
int __wrap_SSL_get_error(const SSL *, int);
int __wrap_SSL_shutdown(SSL *);

static int
answer(struct ans * a, int isread, size_t num, size_t * done)
{

	switch (a->kind) {
	case 'D':
		*done = ((size_t)a->n < num) ? (size_t)a->n : num;
		if (*done == 0) *done = 1;
		last_err = SSL_ERROR_NONE;
		return (1);
	/* "want": the engine has used up what the socket had to offer in that direction (else the loop would spin) */
	case 'R': last_err = SSL_ERROR_WANT_READ; fk_ready[0] &= ~FK_IN; return (0);
	case 'W': last_err = SSL_ERROR_WANT_WRITE; fk_ready[0] &= ~FK_OUT; return (0);
	case 'Z': last_err = SSL_ERROR_ZERO_RETURN; return (0);
	case 'S': last_err = SSL_ERROR_SYSCALL; errno = a->n ? ECONNRESET : 0; return (0);
	default: last_err = SSL_ERROR_SSL; (void)isread; return (0);
	}
}

static const char *
ansname(struct ans * a)
{

	switch (a->kind) {
	case 'D': return ("D"); case 'R': return ("R"); case 'W': return ("W"); case 'Z': return ("Z");
	case 'S': return (a->n ? "SE" : "S0");
	default: return ("X");
	}
}

int
__wrap_SSL_read_ex(SSL * s, void * buf, size_t num, size_t * done)
{
	static struct ans blocked = { 'R', 0 };
	struct ans * a = (irq < nrq) ? &rq[irq++] : &blocked;
	struct req * r = cur_r ? &reqs[cur_r] : NULL;
	size_t i;
	int ret;

	(void)s;
	*done = 0;
	ret = answer(a, 1, num, done);
	for (i = 0; i < *done; i++) ((uint8_t *)buf)[i] = rstream(rtotal + (long long)i);
	rtotal += (long long)*done;
	vt_begin("sslcall"); vt_str("kind", "r"); vt_int("req", r ? r->id : 0);
	vt_int("off", r ? (long long)((uint8_t *)buf - r->buf) : -1); vt_int("len", (long long)num);
	vt_str("ans", ansname(a)); vt_int("n", (long long)*done); vt_end();
	return (ret);
}

int
__wrap_SSL_write_ex(SSL * s, const void * buf, size_t num, size_t * done)
{
	static struct ans blocked = { 'W', 0 };
	struct ans * a = (iwq < nwq) ? &wq[iwq++] : &blocked;
	struct req * r = cur_w ? &reqs[cur_w] : NULL;
	size_t i;
	int ret, ok = 1;

	(void)s;
	*done = 0;
	/* what is offered must be the request's data from the first byte not yet accepted on */
	for (i = 0; i < num; i++) if (((const uint8_t *)buf)[i] != wstream(wtotal + (long long)i)) { ok = 0; break; }
	ret = answer(a, 0, num, done);
	wtotal += (long long)*done;
	vt_begin("sslcall"); vt_str("kind", "w"); vt_int("req", r ? r->id : 0);
	vt_int("off", r ? (long long)((const uint8_t *)buf - r->buf) : -1); vt_int("len", (long long)num);
	vt_str("ans", ansname(a)); vt_int("n", (long long)*done); vt_bool("dataok", ok); vt_end();
	return (ret);
}

int
__wrap_SSL_get_error(const SSL * s, int ret)
{

	(void)s; (void)ret;
	return (last_err);
}

int
__wrap_SSL_shutdown(SSL * s)
{

	(void)s;
	vt_begin("shutdown"); vt_end();
	return (1);
}

/* ---- registrations and pokes ---- */
struct tramp { int (* func)(void *); void * cookie; const char * cause; };
static struct tramp tr_imm, tr_r, tr_w;

static int
poke(void * cookie)
{
	struct tramp * t = cookie, copy = *t;
	int rc;

	vt_begin("poke"); vt_str("cause", copy.cause); vt_end();
	rc = copy.func(copy.cookie);
	vt_begin("poke_ret"); vt_str("cause", copy.cause); vt_int("rc", rc); vt_end();
	return (rc);
}

void * __real_events_immediate_register(int (*)(void *), void *, int);
void * __wrap_events_immediate_register(int (*)(void *), void *, int);
void *
__wrap_events_immediate_register(int (* func)(void *), void * cookie, int prio)
{
	void * k;

	tr_imm.func = func; tr_imm.cookie = cookie; tr_imm.cause = "imm";
	k = __real_events_immediate_register(poke, &tr_imm, prio);
	vt_begin("immreg"); vt_bool("ok", k != NULL); vt_int("prio", prio); vt_end();
	return (k);
}
void __real_events_immediate_cancel(void *);
void __wrap_events_immediate_cancel(void *);
void
__wrap_events_immediate_cancel(void * k)
{

	vt_begin("immcancel"); vt_end();
	__real_events_immediate_cancel(k);
}

int __real_events_network_register(int (*)(void *), void *, int, int);
int __wrap_events_network_register(int (*)(void *), void *, int, int);
int
__wrap_events_network_register(int (* func)(void *), void * cookie, int s, int op)
{
	struct tramp * t = (op == EVENTS_NETWORK_OP_READ) ? &tr_r : &tr_w;
	int rc;

	t->func = func; t->cookie = cookie; t->cause = (op == EVENTS_NETWORK_OP_READ) ? "R" : "W";
	rc = __real_events_network_register(poke, t, s, op);
	vt_begin("evreg"); vt_str("op", op == EVENTS_NETWORK_OP_READ ? "regR" : "regW"); vt_int("fd", fk_logical(s)); vt_int("rc", rc); vt_end();
	return (rc);
}
int __real_events_network_cancel(int, int);
int __wrap_events_network_cancel(int, int);
int
__wrap_events_network_cancel(int s, int op)
{
	int rc = __real_events_network_cancel(s, op);

	vt_begin("evreg"); vt_str("op", op == EVENTS_NETWORK_OP_READ ? "cancelR" : "cancelW"); vt_int("fd", fk_logical(s)); vt_int("rc", rc); vt_end();
	return (rc);
}

/* ---- user callbacks ---- */
static int
cb(void * cookie, ssize_t n)
{
	struct req * r = cookie;
	int ok = 1, i;
	ssize_t j;

	if (r->kind == 'r') {
		for (j = 0; j < n; j++) if (r->buf[j] != rstream(r->s0 + (long long)j)) ok = 0;
		cur_r = 0;
	} else
		cur_w = 0;
	vt_begin("cb"); vt_str("kind", r->kind == 'r' ? "r" : "w"); vt_int("req", r->id); vt_int("n", (long long)n);
	vt_bool("dataok", ok); vt_bool("was_pending", r->state == 1); vt_end();
	r->state = 2;
	for (i = 0; i < r->nops; i++)
		exec_op(r->ops[i], r->id);
	vt_begin("cb_ret"); vt_int("req", r->id); vt_int("rc", r->rc); vt_end();
	return (r->rc);
}

static int noop_ran;
static int
noop_cb(void * cookie)
{

	(void)cookie;
	noop_ran = 1;
	return (0);
}

static void
exec_op(const char * l, int ctx)
{
	char op[16];
	long a = 0, b = 0, c = 0;
	size_t i;

	while (*l == ' ' || *l == '\t') l++;
	if (sscanf(l, "%15s %ld %ld %ld", op, &a, &b, &c) < 1)
		return;
	if (strcmp(op, "open") == 0 && C == NULL && ctx == 0) {
		C = network_ssl_open(fk_real(0), "host.example");
		vt_begin("open"); vt_bool("ok", C != NULL); vt_end();
	} else if ((strcmp(op, "read") == 0 || strcmp(op, "write") == 0) && C != NULL) {
		struct req * r;
		int isr = (op[0] == 'r');
		void * k;
		if (a < 1 || a > MAXREQ || reqs[a].state != 0 || b < 1 || c < 0 || c > b || (isr ? cur_r : cur_w))
			return;
		r = &reqs[a];
		r->kind = isr ? 'r' : 'w'; r->buflen = (size_t)b; r->min = (size_t)c;
		r->buf = malloc(r->buflen);
		r->s0 = isr ? rtotal : wtotal;
		if (!isr) for (i = 0; i < r->buflen; i++) r->buf[i] = wstream(wtotal + (long long)i);
		else memset(r->buf, 0xEE, r->buflen);
		r->state = 1;
		if (isr) cur_r = (int)a; else cur_w = (int)a;
		vt_begin("req"); vt_str("kind", isr ? "r" : "w"); vt_int("req", a); vt_int("buflen", b); vt_int("min", c); vt_int("ctx", ctx); vt_end();
		k = isr ? network_ssl_read(C, r->buf, r->buflen, r->min, cb, r) : network_ssl_write(C, r->buf, r->buflen, r->min, cb, r);
		vt_begin("req_ret"); vt_int("req", a); vt_bool("ok", k != NULL); vt_end();
	} else if (strcmp(op, "rcancel") == 0 && C != NULL && cur_r) {
		vt_begin("cancel"); vt_str("kind", "r"); vt_int("req", cur_r); vt_int("ctx", ctx); vt_end();
		reqs[cur_r].state = 3; cur_r = 0;
		network_ssl_read_cancel(C);
		vt_begin("cancel_ret"); vt_end();
	} else if (strcmp(op, "wcancel") == 0 && C != NULL && cur_w) {
		vt_begin("cancel"); vt_str("kind", "w"); vt_int("req", cur_w); vt_int("ctx", ctx); vt_end();
		reqs[cur_w].state = 3; cur_w = 0;
		network_ssl_write_cancel(C);
		vt_begin("cancel_ret"); vt_end();
	} else if (strcmp(op, "env") == 0 && ctx == 0) {
		fk_set_ready(0, (int)a);
	} else if (strcmp(op, "runk") == 0 && ctx == 0) {
		struct timeval tv0;
		void * k;
		int rc;
		tv0.tv_sec = 0; tv0.tv_usec = 1000;
		noop_ran = 0;
		k = events_timer_register(noop_cb, NULL, &tv0);
		vt_begin("run_call"); vt_end();
		rc = events_run();
		vt_begin("run_ret"); vt_int("rc", rc); vt_end();
		if (k != NULL && !noop_ran)
			events_timer_cancel(k);
	} else if (strcmp(op, "close") == 0 && C != NULL && !cur_r && !cur_w) {
		/* (also from inside a callback: http.c closes the context whenever a request ends) */
		vt_begin("close"); vt_int("ctx", ctx); vt_end();
		network_ssl_close(C);
		C = NULL;
		vt_begin("close_ret"); vt_end();
	}
}

static char * lines[4096];
static int nlines;

static void
parse_answers(const char * l, struct ans * q, int * n)
{
	char tok[32];
	int used;

	while (sscanf(l, "%31s%n", tok, &used) == 1 && *n < 256) {
		l += used;
		q[*n].kind = tok[0];
		q[*n].n = (tok[0] == 'D') ? atol(tok + 1) : (tok[0] == 'S' && tok[1] == 'E') ? 1 : 0;
		(*n)++;
	}
}

static void
run_child(void)
{
	int i, cur = 0, inmain = 0;

	for (i = 1; i <= MAXREQ; i++) reqs[i].id = i;
	for (i = 0; i < nlines; i++) {
		char * l = lines[i];
		long a, b;
		while (*l == ' ' || *l == '\t') l++;
		if (strncmp(l, "rq ", 3) == 0 && !cur) { parse_answers(l + 3, rq, &nrq); continue; }
		if (strncmp(l, "wq ", 3) == 0 && !cur) { parse_answers(l + 3, wq, &nwq); continue; }
		if (sscanf(l, "script %ld rc %ld", &a, &b) == 2) { cur = (a >= 1 && a <= MAXREQ) ? (int)a : 0; if (cur) reqs[cur].rc = (int)b; continue; }
		if (strncmp(l, "endscript", 9) == 0) { cur = 0; continue; }
		if (cur && reqs[cur].nops < MAXOPS) reqs[cur].ops[reqs[cur].nops++] = l;
	}
	fk_maxpolls = 2000;
	fk_open();
	for (i = 0; i < nlines; i++) {
		char * l = lines[i];
		while (*l == ' ' || *l == '\t') l++;
		if (strncmp(l, "main", 4) == 0) { inmain = 1; continue; }
		if (strncmp(l, "endmain", 7) == 0) break;
		if (inmain) exec_op(l, 0);
	}
	/* release what is still pending by the normal calls, then close */
	vt_begin("end"); vt_int("r", cur_r); vt_int("w", cur_w); vt_end();
	if (C != NULL) {
		if (cur_r) exec_op("rcancel", 0);
		if (cur_w) exec_op("wcancel", 0);
		exec_op("close", 0);
	}
	vt_flush();
	_exit(0);
}

int
main(int argc, char ** argv)
{
	static char buf[1 << 20];
	FILE * f;
	size_t len = 0;
	char * p, * q;

	if (argc < 3) { fprintf(stderr, "usage: drv_ssl programs trace\n"); return (3); }
	if ((f = fopen(argv[1], "r")) == NULL) { perror(argv[1]); return (3); }
	vt_open(argv[2]);
	for (;;) {
		int have = 0, st;
		pid_t pid;
		nlines = 0; len = 0;
		while (fgets(buf + len, (int)(sizeof(buf) - len), f) != NULL) {
			p = buf + len;
			if (!have) { if (strncmp(p, "prog", 4) == 0) have = 1; continue; }
			if (strncmp(p, "end\n", 4) == 0 || strcmp(p, "end") == 0) break;
			q = p + strlen(p);
			if (q > p && q[-1] == '\n') q[-1] = 0;
			if (nlines < 4096) lines[nlines++] = p;
			len += strlen(p) + 1;
			if (len > sizeof(buf) - 4096) break;
		}
		if (!have) break;
		vt_reset(); vt_flush();
		if ((pid = fork()) == 0) {
			close(fileno(f));
			run_child();
		}
		waitpid(pid, &st, 0);
		fseek(vt_out, 0, SEEK_END);
		if (!(WIFEXITED(st) && WEXITSTATUS(st) == 0)) {
			vt_begin("crash"); vt_int("status", st); vt_end(); vt_flush();
			return (WIFEXITED(st) ? WEXITSTATUS(st) : 99);
		}
	}
	fclose(f);
	fclose(vt_out);
	return (0);
}
