/*
 * Conformance driver for util/warnp.[ch] (extra X02: the library's diagnostics channel).
 * Every program runs in a forked child (warnp keeps its state in the process: program name, syslog
 * switch, priority, the exit handler), with stderr redirected to a file and syslog(3) / closelog(3)
 * replaced by recorders, so that every byte the library emits is observed.
 *   name HEX|-                 warnp_setprogname(bytes)            ("-" = empty string)
 *   init HEX|NULL              WARNP_INIT with argv[0] = bytes / NULL
 *   warn|warnx|warnp|warn0 ERRNO FMT HEX|- INT     FMT: 0 = NULL format (warn / warnx only), 1 = "%s", 2 = "%s:%d", 3 = "%d%%%s"
 *   syslog N | prio N
 *   exit                       (implicit at the end: the child returns from main through exit(3))
 * The expected message text is produced by the driver's own snprintf with the same format.
 */
#include <sys/types.h>
#include <sys/wait.h>

#include <errno.h>
#include <fcntl.h>
#include <stdarg.h>
#include <stdio.h>
#include <stdlib.h>
#include <string.h>
#include <syslog.h>
#include <unistd.h>

#include "warnp.h"

#include "allocwrap.h"

static int tfd = -1;
static int efd = -1;
static off_t eoff;
static char obuf[1 << 17];
static size_t olen;

static void
oflush(void)
{
	size_t o = 0;
	ssize_t w;

	while (o < olen) {
		if ((w = write(tfd, obuf + o, olen - o)) <= 0) _exit(4);
		o += (size_t)w;
	}
	olen = 0;
}
static void
oput(const char * fmt, ...)
{
	va_list ap;
	int n;

	va_start(ap, fmt);
	n = vsnprintf(obuf + olen, sizeof(obuf) - olen, fmt, ap);
	va_end(ap);
	if (n < 0 || (size_t)n >= sizeof(obuf) - olen) _exit(4);
	olen += (size_t)n;
}
static void
ohex(const char * k, const void * p, size_t n)
{
	const unsigned char * b = p;
	size_t i;

	oput(",\"%s\":\"", k);
	for (i = 0; i < n; i++) oput("%02x", b[i]);
	oput("\"");
}

/* recorders for the syslog side */
static int nsys, ncl;
static int sprio;
static char stext[1 << 15];
static int slen;

void __wrap_syslog(int, const char *, ...);
void __wrap___syslog_chk(int, int, const char *, ...);
void __wrap_closelog(void);
void __wrap_vsyslog(int, const char *, va_list);
void
__wrap_vsyslog(int prio, const char * fmt, va_list ap)
{

	nsys++; sprio = prio;
	errno = 77;	/* (a real syslog(3) may leave anything in errno) */
	slen = vsnprintf(stext, sizeof(stext), fmt, ap);
	if (slen < 0 || (size_t)slen >= sizeof(stext)) _exit(4);
}
void
__wrap_syslog(int prio, const char * fmt, ...)
{
	va_list ap;

	va_start(ap, fmt); __wrap_vsyslog(prio, fmt, ap); va_end(ap);
}
void
__wrap___syslog_chk(int prio, int flag, const char * fmt, ...)
{
	va_list ap;

	(void)flag;
	va_start(ap, fmt); __wrap_vsyslog(prio, fmt, ap); va_end(ap);
}
static int in_exit;
void
__wrap_closelog(void)
{

	ncl++;
	if (in_exit) { oput("{\"e\":\"closelog_atexit\"}\n"); oflush(); }
}

static size_t
unhex(const char * h, char * out, size_t max)
{
	size_t n = 0;
	unsigned v;

	if (strcmp(h, "-") == 0) { out[0] = 0; return (0); }
	while (h[0] && h[1] && n + 1 < max && sscanf(h, "%2x", &v) == 1) { out[n++] = (char)v; h += 2; }
	out[n] = 0;
	return (n);
}

/* What reached stderr since the last look. */
static void
grab_stderr(void)
{
	static char buf[1 << 15];
	ssize_t r;
	size_t n = 0;

	fflush(stderr);
	while ((r = pread(efd, buf + n, sizeof(buf) - n, eoff + (off_t)n)) > 0) n += (size_t)r;
	eoff += (off_t)n;
	ohex("stderr", buf, n);
}

/* Runs last (registered first): after the library's own exit handler. */
static void
last_atexit(void)
{

	oput("{\"e\":\"atexit\",\"live\":%ld,\"ncl\":%d}\n", aw_live(), ncl);
	oflush();
}

static void
do_msg(const char * kind, int e, int fmt, const char * s, int d)
{
	static char want[1 << 15];
	const char * es;
	int e2;

	nsys = 0; ncl = 0; slen = 0; sprio = -1;
	switch (fmt) {
	case 1: snprintf(want, sizeof(want), "%s", s); break;
	case 2: snprintf(want, sizeof(want), "%s:%d", s, d); break;
	case 3: snprintf(want, sizeof(want), "%d%%%s", d, s); break;
	default: want[0] = 0;
	}
	es = strerror(e);
	oput("{\"e\":\"errno\",\"v\":%d}\n", e);
	oput("{\"e\":\"msg\",\"kind\":\"%s\",\"errno\":%d,\"fmt\":%d", kind, e, fmt);
	ohex("want", want, strlen(want));
	ohex("es", es, strlen(es));
	errno = e;
#define CALL(F)	do {						\
	switch (fmt) {						\
	case 1: F("%s", s); break;				\
	case 2: F("%s:%d", s, d); break;			\
	case 3: F("%d%%%s", d, s); break;			\
	}							\
} while (0)
	if (strcmp(kind, "warn") == 0) { if (fmt == 0) warn(NULL); else CALL(warn); }
	else if (strcmp(kind, "warnx") == 0) { if (fmt == 0) warnx(NULL); else CALL(warnx); }
	else if (strcmp(kind, "warnp") == 0) CALL(warnp);
	else CALL(warn0);
	e2 = errno;
	oput(",\"errno_after\":%d,\"nsys\":%d,\"sprio\":%d,\"ncl\":%d", e2, nsys, sprio, ncl);
	ohex("stext", stext, (size_t)(slen > 0 ? slen : 0));
	grab_stderr();
	oput("}\n");
	oflush();
}

static void
child(char lines[][20000], int n)
{
	static char a[20000], b[20000];
	char kind[16];
	int i, e, fmt, d;
	char ** argv;
	char * argv0[2];

	aw_enable(1);
	atexit(last_atexit);
	for (i = 0; i < n; i++) {
		if (sscanf(lines[i], "name %19999s", a) == 1) {
			unhex(a, b, sizeof(b));
			ncl = 0;
			warnp_setprogname(b);
			oput("{\"e\":\"name\""); ohex("path", b, strlen(b)); oput(",\"ncl\":%d}\n", ncl); oflush();
		} else if (sscanf(lines[i], "init %19999s", a) == 1) {
			if (strcmp(a, "NULL") == 0) argv0[0] = NULL; else { unhex(a, b, sizeof(b)); argv0[0] = b; }
			argv0[1] = NULL; argv = argv0; ncl = 0;
			WARNP_INIT;
			oput("{\"e\":\"init\",\"null\":%s", argv0[0] == NULL ? "true" : "false");
			ohex("path", argv0[0] ? argv0[0] : "", argv0[0] ? strlen(argv0[0]) : 0); oput(",\"ncl\":%d}\n", ncl); oflush();
		} else if (sscanf(lines[i], "syslog %d", &d) == 1) {
			ncl = 0;
			warnp_syslog(d);
			oput("{\"e\":\"syslog\",\"on\":%d,\"ncl\":%d}\n", d, ncl); oflush();
		} else if (sscanf(lines[i], "prio %d", &d) == 1) {
			ncl = 0;
			warnp_syslog_priority(d);
			oput("{\"e\":\"prio\",\"p\":%d,\"ncl\":%d}\n", d, ncl); oflush();
		} else if (sscanf(lines[i], "%15s %d %d %19999s %d", kind, &e, &fmt, a, &d) == 5) {
			unhex(a, b, sizeof(b));
			do_msg(kind, e, fmt, b, d);
		}
	}
	in_exit = 1; ncl = 0;
	exit(0);
}

int
main(int argc, char ** argv)
{
	static char line[20000], lines[48][20000];
	static char tmpl[4200];
	FILE * f;
	int n = 0, inprog = 0, st;
	pid_t pid;

	if (argc < 3) { fprintf(stderr, "usage: drv_warnp programs trace\n"); return (3); }
	if ((f = fopen(argv[1], "r")) == NULL) { perror(argv[1]); return (3); }
	if ((tfd = open(argv[2], O_WRONLY | O_CREAT | O_TRUNC | O_APPEND, 0644)) < 0) { perror(argv[2]); return (3); }
	snprintf(tmpl, sizeof(tmpl), "%.4000s.errXXXXXX", argv[2]);
	if ((efd = mkstemp(tmpl)) < 0) { perror("mkstemp"); return (3); }
	unlink(tmpl);
	aw_enable(0);
	while (fgets(line, sizeof(line), f) != NULL) {
		if (strncmp(line, "prog", 4) == 0) { inprog = 1; n = 0; continue; }
		if (strncmp(line, "end", 3) == 0) {
			if (inprog) {
				oput("{\"e\":\"reset\"}\n"); oflush();
				eoff = lseek(efd, 0, SEEK_END);
				if ((pid = fork()) == 0) {
					/* (exit(3) would otherwise move the shared offset of the programs file back over what stdio has buffered) */
					close(fileno(f));
					setvbuf(stderr, NULL, _IONBF, 0);
					if (dup2(efd, 2) < 0) _exit(4);
					child(lines, n);
				}
				if (pid < 0 || waitpid(pid, &st, 0) != pid) { perror("fork"); return (3); }
				if (!WIFEXITED(st) || WEXITSTATUS(st) != 0) {
					/* the child's own stderr went to the file: show it */
					char eb[4096]; ssize_t r = pread(efd, eb, sizeof(eb) - 1, eoff);
					if (r > 0) { eb[r] = 0; fprintf(stderr, "%s", eb); }
					fprintf(stderr, "child status %d\n", st);
					return (WIFEXITED(st) ? WEXITSTATUS(st) : 99);
				}
				oput("{\"e\":\"exit\"}\n"); oflush();
			}
			inprog = 0; continue;
		}
		if (inprog && n < 48) { strcpy(lines[n], line); n++; }
	}
	fclose(f);
	close(tfd);
	return (0);
}
