/*
 * Conformance driver for datastruct/ptrheap.c and datastruct/timerqueue.c
 * (property C13).  Reads programs (text, one op per line, "prog"/"end"
 * delimited) and writes one ndjson execution per program.  The driver only
 * records what the library did; comparison with the specification is TLC's
 * job (specs/ds/PtrHeapTrace.tla, TimerQueueTrace.tla).
 */
#include <sys/time.h>

#include <assert.h>
#include <stdio.h>
#include <stdlib.h>
#include <string.h>

#include "ptrheap.h"
#include "timerqueue.h"

#include "allocwrap.h"
#include "vtrace.h"

#define MAXEL 4096
struct el {
	int id;
	long key;
	long handle;	/* position last reported, -1 none */
	int in;		/* driver's own bookkeeping: inserted and not deleted */
};
static struct el els[MAXEL + 1];
static int count;

#define MAXNOTES 65536
static long long notes[MAXNOTES][2];
static size_t nnotes;

static int
parse_fail(const char * l)
{
	long k;
	char mode[16];

	if (sscanf(l, "fail %ld %15s", &k, mode) == 2) {
		aw_plan(k, strcmp(mode, "persist") == 0);
		return (1);
	}
	return (0);
}

static void
common(void)
{

	vt_int("inj", aw_injected());
	aw_clear_injected();
}

static int
compar(void * cookie, const void * x, const void * y)
{
	const struct el * a = x, * b = y;

	(void)cookie;
	return ((a->key > b->key) - (a->key < b->key));
}

static void
setrc(void * cookie, void * ptr, size_t rc)
{
	struct el * e = ptr;

	(void)cookie;
	e->handle = (long)rc;
	if (nnotes < MAXNOTES) {
		notes[nnotes][0] = e->id;
		notes[nnotes][1] = (long long)rc;
		nnotes++;
	}
}

static int nocb;		/* this heap was made without a record-cookie callback (no handles, no notifications) */
static void
vt_notes(void)
{
	size_t i;

	if (nocb) fprintf(vt_out, ",\"nocb\":true");
	fprintf(vt_out, ",\"notes\":[");
	for (i = 0; i < nnotes; i++)
		fprintf(vt_out, "%s[%lld,%lld]", i ? "," : "", notes[i][0], notes[i][1]);
	fputc(']', vt_out);
	nnotes = 0;
}

static int
elid(void * p)
{
	struct el * e = p;

	if (p == NULL)
		return (0);
	if (e < &els[1] || e > &els[MAXEL] || ((char *)e - (char *)els) % sizeof(struct el))
		return (-1);
	return (e->id);
}

/* Returns the id reported by getmin, logging it. */
static int
do_getmin(struct ptrheap * H)
{
	int id = elid(ptrheap_getmin(H));

	vt_begin("h_getmin"); vt_int("el", id); vt_end();
	return (id);
}

static void
run_heap(FILE * f)
{
	char line[1 << 16], op[32];
	struct ptrheap * H = NULL;
	long a, b;
	int i, id, stop = 0;

	for (i = 1; i <= MAXEL; i++) {
		els[i].id = i; els[i].key = 0; els[i].handle = -1; els[i].in = 0;
	}
	count = 0;
	nnotes = 0;
	nocb = 0;

	while (fgets(line, sizeof(line), f) != NULL) {
		a = b = 0;
		if (sscanf(line, "%31s %ld %ld", op, &a, &b) < 1)
			continue;
		if (strcmp(op, "end") == 0)
			break;
		if (parse_fail(line))
			continue;
		if (stop)
			continue;
		if (strcmp(op, "nocb") == 0) { if (H == NULL) nocb = 1; continue; }
		if (nocb && (strcmp(op, "delete") == 0 || strcmp(op, "increase") == 0 || strcmp(op, "decrease") == 0))
			continue;		/* (operations by handle need the callback) */
		if (strcmp(op, "create") == 0) {
			/* create e:k e:k ... */
			void * ptrs[MAXEL];
			long long ids[MAXEL], keys[MAXEL];
			size_t n = 0;
			char * tok = strtok(line, " \n");
			while ((tok = strtok(NULL, " \n")) != NULL) {
				long e, k;
				if (sscanf(tok, "%ld:%ld", &e, &k) != 2 || e < 1 || e > MAXEL || els[e].in)
					continue;
				els[e].key = k; els[e].in = 1;
				ptrs[n] = &els[e]; ids[n] = e; keys[n] = k; n++;
			}
			if (H != NULL)
				continue;
			H = ptrheap_create(compar, nocb ? NULL : setrc, NULL, n, ptrs);
			count = (int)n;
			vt_begin("h_create"); vt_ints("els", ids, n); vt_ints("keys", keys, n);
			vt_bool("ok", H != NULL); vt_notes(); common(); vt_end();
			if (H == NULL) {
				for (i = 1; i <= MAXEL; i++) els[i].in = 0;
				count = 0;
			}
			continue;
		}
		if (H == NULL) {
			H = ptrheap_init(compar, nocb ? NULL : setrc, NULL);
			vt_begin("h_init"); vt_bool("ok", H != NULL); common(); vt_end();
			if (H == NULL)
				continue;
		}
		if (strcmp(op, "add") == 0) {
			int rc;
			if (a < 1 || a > MAXEL || els[a].in)
				continue;
			els[a].key = b;
			rc = ptrheap_add(H, &els[a]);
			if (rc == 0) { els[a].in = 1; count++; }
			vt_begin("h_add"); vt_int("el", a); vt_int("key", b); vt_int("rc", rc); vt_notes(); common(); vt_end();
		} else if (strcmp(op, "getmin") == 0) {
			do_getmin(H);
		} else if (strcmp(op, "delete") == 0) {
			long h;
			if (a < 1 || a > MAXEL || !els[a].in)
				continue;
			h = els[a].handle;
			if (h < 0 || h >= count) {
				vt_begin("h_badhandle"); vt_int("el", a); vt_int("h", h); vt_end();
				stop = 1; continue;
			}
			ptrheap_delete(H, (size_t)h);
			els[a].in = 0; count--;
			vt_begin("h_delete"); vt_int("el", a); vt_int("h", h); vt_notes(); vt_end();
		} else if (strcmp(op, "deletemin") == 0) {
			if (count == 0)
				continue;
			id = do_getmin(H);
			if (id < 1 || !els[id].in) { stop = 1; continue; }
			ptrheap_deletemin(H);
			els[id].in = 0; count--;
			vt_begin("h_deletemin"); vt_int("el", id); vt_notes(); vt_end();
		} else if (strcmp(op, "increase") == 0 || strcmp(op, "decrease") == 0) {
			int inc = (op[0] == 'i');
			long h;
			if (a < 1 || a > MAXEL || !els[a].in)
				continue;
			if ((inc && b < els[a].key) || (!inc && b > els[a].key))
				continue;
			h = els[a].handle;
			if (h < 0 || h >= count) {
				vt_begin("h_badhandle"); vt_int("el", a); vt_int("h", h); vt_end();
				stop = 1; continue;
			}
			els[a].key = b;
			if (inc)
				ptrheap_increase(H, (size_t)h);
			else
				ptrheap_decrease(H, (size_t)h);
			vt_begin(inc ? "h_increase" : "h_decrease"); vt_int("el", a); vt_int("key", b);
			vt_int("h", h); vt_notes(); vt_end();
		} else if (strcmp(op, "increasemin") == 0) {
			if (count == 0)
				continue;
			id = do_getmin(H);
			if (id < 1 || !els[id].in) { stop = 1; continue; }
			if (b < els[id].key)
				continue;
			els[id].key = b;
			ptrheap_increasemin(H);
			vt_begin("h_increasemin"); vt_int("el", id); vt_int("key", b); vt_notes(); vt_end();
		}
	}

	/* Drain: the heap must hand back everything still in it, in order. */
	if (H != NULL && !stop) {
		while (count > 0) {
			id = do_getmin(H);
			if (id < 1 || !els[id].in) { stop = 1; break; }
			ptrheap_deletemin(H);
			els[id].in = 0; count--;
			vt_begin("h_deletemin"); vt_int("el", id); vt_notes(); vt_end();
		}
		if (!stop) {
			do_getmin(H);
			vt_begin("h_end"); vt_end();
		}
	}
	ptrheap_free(H);
	{ long nallocs = aw_count(); aw_plan(0, 0);
	vt_begin("end"); vt_int("live", aw_live()); vt_int("allocs", nallocs); vt_end(); }
}

/* ---- timer queue ---- */
struct tent {
	int id;
	void * cookie;
	int in;
	long s, u;
};
static struct tent tents[MAXEL + 1];

static int
tentid(void * p)
{
	struct tent * e = p;

	if (p == NULL)
		return (0);
	if (e < &tents[1] || e > &tents[MAXEL] || ((char *)e - (char *)tents) % sizeof(struct tent))
		return (-1);
	return (e->id);
}

static void
run_tq(FILE * f)
{
	char line[256], op[32];
	struct timerqueue * Q;
	struct timeval tv;
	const struct timeval * tvp;
	long a, b, c;
	int i, id, n = 0, stop = 0;

	for (i = 1; i <= MAXEL; i++) {
		tents[i].id = i; tents[i].in = 0; tents[i].cookie = NULL;
	}
	Q = NULL;
	while (fgets(line, sizeof(line), f) != NULL) {
		a = b = c = 0;
		if (sscanf(line, "%31s %ld %ld %ld", op, &a, &b, &c) < 1)
			continue;
		if (strcmp(op, "end") == 0)
			break;
		if (parse_fail(line))
			continue;
		if (Q == NULL && !stop) {
			Q = timerqueue_init();
			vt_begin("t_init"); vt_bool("ok", Q != NULL); common(); vt_end();
		}
		if (stop || Q == NULL)
			continue;
		if (strcmp(op, "tadd") == 0) {
			if (a < 1 || a > MAXEL || tents[a].in)
				continue;
			tv.tv_sec = b; tv.tv_usec = c;
			tents[a].cookie = timerqueue_add(Q, &tv, &tents[a]);
			if (tents[a].cookie != NULL) { tents[a].in = 1; tents[a].s = b; tents[a].u = c; n++; }
			vt_begin("t_add"); vt_int("id", a); vt_int("sh", (long long)(b) >> 30); vt_int("s", (long long)(b) & 0x3fffffff); vt_int("u", c);
			vt_bool("ok", tents[a].cookie != NULL); common(); vt_end();
		} else if (strcmp(op, "tdelete") == 0) {
			if (a < 1 || a > MAXEL || !tents[a].in)
				continue;
			timerqueue_delete(Q, tents[a].cookie);
			tents[a].in = 0; n--;
			vt_begin("t_delete"); vt_int("id", a); vt_end();
		} else if (strcmp(op, "tincrease") == 0) {
			if (a < 1 || a > MAXEL || !tents[a].in)
				continue;
			if (b < tents[a].s || (b == tents[a].s && c < tents[a].u))
				continue;
			tv.tv_sec = b; tv.tv_usec = c;
			timerqueue_increase(Q, tents[a].cookie, &tv);
			tents[a].s = b; tents[a].u = c;
			vt_begin("t_increase"); vt_int("id", a); vt_int("sh", (long long)(b) >> 30); vt_int("s", (long long)(b) & 0x3fffffff); vt_int("u", c); vt_end();
		} else if (strcmp(op, "tgetmin") == 0) {
			tvp = timerqueue_getmin(Q);
			vt_begin("t_getmin"); vt_bool("none", tvp == NULL);
			vt_int("sh", (long long)(tvp ? (long)tvp->tv_sec : 0) >> 30); vt_int("s", (long long)(tvp ? (long)tvp->tv_sec : 0) & 0x3fffffff); vt_int("u", tvp ? (long)tvp->tv_usec : 0); vt_end();
		} else if (strcmp(op, "tgetptr") == 0) {
			tv.tv_sec = a; tv.tv_usec = b;
			id = tentid(timerqueue_getptr(Q, &tv));
			if (id > 0) {
				if (!tents[id].in) stop = 1;
				tents[id].in = 0; n--;
			}
			vt_begin("t_getptr"); vt_int("sh", (long long)(a) >> 30); vt_int("s", (long long)(a) & 0x3fffffff); vt_int("u", b); vt_int("id", id); vt_end();
		}
	}
	/* Drain with a time later than everything. */
	if (Q != NULL && !stop) {
		tv.tv_sec = 1000000000000000LL; tv.tv_usec = 0;		/* later than any time a program uses */
		for (i = 0; i <= MAXEL + 1; i++) {
			id = tentid(timerqueue_getptr(Q, &tv));
			vt_begin("t_getptr"); vt_int("sh", (long long)(1000000000000000LL) >> 30); vt_int("s", (long long)(1000000000000000LL) & 0x3fffffff); vt_int("u", 0); vt_int("id", id); vt_end();
			if (id <= 0)
				break;
			tents[id].in = 0;
		}
		vt_begin("t_end"); vt_end();
	}
	timerqueue_free(Q);
	{ long nallocs = aw_count(); aw_plan(0, 0);
	vt_begin("end"); vt_int("live", aw_live()); vt_int("allocs", nallocs); vt_end(); }
}

int
main(int argc, char ** argv)
{
	char line[256], kind[32];
	FILE * f;

	if (argc < 3) {
		fprintf(stderr, "usage: drv_heap programs trace\n");
		return (3);
	}
	if ((f = fopen(argv[1], "r")) == NULL) { perror(argv[1]); return (3); }
	vt_open(argv[2]);
	aw_enable(1);
	while (fgets(line, sizeof(line), f) != NULL) {
		if (sscanf(line, "prog %31s", kind) != 1)
			continue;
		vt_reset();
		aw_reset();
		if (strcmp(kind, "heap") == 0)
			run_heap(f);
		else
			run_tq(f);
	}
	fclose(f);
	fclose(vt_out);
	return (0);
}
