/*
 * Conformance driver for util/getopt.[ch] (property C18; hostile argv for C15).
 * Program lines:  <table> <abandon> <hextoken> <hextoken> ...   ("-" stands for the empty string)
 * All vectors are parsed in one process, with optreset = 1 between them, so every parse except the
 * first is a "parse after reset following a different vector"; `abandon` >= 0 stops calling getopt()
 * after that many options (the next vector is then parsed after a reset from a half-finished parse).
 * A line "fresh" makes the driver fork: the child parses the following vector as its first one.
 */
#include <sys/wait.h>

#include <stdio.h>
#include <stdlib.h>
#include <string.h>
#include <unistd.h>

#include "getopt.h"

#include "vtrace.h"

static void
logopt(const char * label, const char * ch)
{

	vt_begin("go"); vt_hex("label", label, strlen(label));
	if (optarg != NULL) vt_hex("arg", optarg, strlen(optarg)); else vt_str("arg", "NULL");
	vt_hex("ch", ch, strlen(ch)); vt_end();
}

static void
parse1(int argc, char ** argv, int abandon)
{
	const char * ch;
	int n = 0;

	while ((abandon < 0 || n < abandon) && n < 2000 && (ch = GETOPT(argc, argv)) != NULL) {
		n++;
		GETOPT_SWITCH(ch) {
		GETOPT_OPT("-a"):
			logopt("-a", ch); break;
		GETOPT_OPT("-b"):
			logopt("-b", ch); break;
		GETOPT_OPTARG("-f"):
			logopt("-f", ch); break;
		GETOPT_OPTARG("--foo"):
			logopt("--foo", ch); break;
		GETOPT_OPT("--foobar"):
			logopt("--foobar", ch); break;
		GETOPT_OPT("--bar"):
			logopt("--bar", ch); break;
		GETOPT_OPTARG("--b"):
			logopt("--b", ch); break;
		GETOPT_MISSING_ARG:
			logopt("missing", ch); break;
		GETOPT_DEFAULT:
			logopt("default", ch); break;
		}
	}
}

static void
parse2(int argc, char ** argv, int abandon)
{
	const char * ch;
	int n = 0;

	while ((abandon < 0 || n < abandon) && n < 2000 && (ch = GETOPT(argc, argv)) != NULL) {
		n++;
		GETOPT_SWITCH(ch) {
		GETOPT_OPT("-a"):
			logopt("-a", ch); break;
		GETOPT_OPT("-b"):
			logopt("-b", ch); break;
		GETOPT_OPTARG("-f"):
			logopt("-f", ch); break;
		GETOPT_OPTARG("--foo"):
			logopt("--foo", ch); break;
		GETOPT_OPT("--foobar"):
			logopt("--foobar", ch); break;
		GETOPT_OPT("--bar"):
			logopt("--bar", ch); break;
		GETOPT_OPTARG("--b"):
			logopt("--b", ch); break;
		GETOPT_DEFAULT:
			logopt("default", ch); break;
		}
	}
}

static void
parse3(int argc, char ** argv, int abandon)
{
	const char * ch;
	int n = 0;

	while ((abandon < 0 || n < abandon) && n < 2000 && (ch = GETOPT(argc, argv)) != NULL) {
		n++;
		GETOPT_SWITCH(ch) {
		GETOPT_OPT("-x"):
			logopt("-x", ch); break;
		GETOPT_OPTARG("-a"):
			logopt("-a", ch); break;
		/* (only GETOPT_DEFAULT has to come last: here the missing-argument label sits in the middle of the options) */
		GETOPT_MISSING_ARG:
			logopt("missing", ch); break;
		GETOPT_OPT("--long"):
			logopt("--long", ch); break;
		GETOPT_OPTARG("--long-opt"):
			logopt("--long-opt", ch); break;
		GETOPT_OPT("--x"):
			logopt("--x", ch); break;
		GETOPT_OPTARG("--a"):
			logopt("--a", ch); break;
		GETOPT_DEFAULT:
			logopt("default", ch); break;
		}
	}
}

static size_t
unhex(const char * h, char * out, size_t max)
{
	size_t n = 0;
	unsigned v;

	while (h[0] && h[1] && n < max && sscanf(h, "%2x", &v) == 1) { out[n++] = (char)v; h += 2; }
	out[n] = 0;
	return (n);
}

static void
one(char * line)
{
	char * argv[64];
	char * tok, * save = NULL;
	int table, abandon, argc = 1, i;

	tok = strtok_r(line, " \n", &save); table = tok ? atoi(tok) : 1;
	tok = strtok_r(NULL, " \n", &save); abandon = tok ? atoi(tok) : -1;
	argv[0] = strdup("prog");
	while ((tok = strtok_r(NULL, " \n", &save)) != NULL && argc < 62) {
		/* exact-size allocations, so that ASan sees any read past a token's terminator */
		size_t len = strcmp(tok, "-") == 0 ? 0 : strlen(tok) / 2;
		argv[argc] = malloc(len + 1);
		if (strcmp(tok, "-") == 0) argv[argc][0] = 0; else unhex(tok, argv[argc], len);
		argc++;
	}
	/* the vector handed over is argc words long; what lies behind it is not the parser's (every other parse finds a word there
	 * that looks like an option argument instead of the customary NULL) */
	{
		static unsigned flip;
		argv[argc] = (flip++ & 1) ? strdup("-f") : NULL;
		argv[argc + 1] = NULL;
	}
	vt_begin("go_begin"); vt_int("t", table); vt_int("abandon", abandon);
	fprintf(vt_out, ",\"argv\":[");
	for (i = 1; i < argc; i++) {
		size_t j;
		fprintf(vt_out, "%s\"", i > 1 ? "," : "");
		for (j = 0; argv[i][j]; j++) fprintf(vt_out, "%02x", (unsigned char)argv[i][j]);
		fputc('"', vt_out);
	}
	fprintf(vt_out, "]"); vt_end();
	optreset = 1;
	opterr = 0;
	switch (table) {
	case 1: parse1(argc, argv, abandon); break;
	case 2: parse2(argc, argv, abandon); break;
	default: parse3(argc, argv, abandon); break;
	}
	if (abandon < 0) {
		vt_begin("go_end"); vt_int("optind", optind); vt_end();
	} else {
		vt_begin("go_abandoned"); vt_end();
	}
	for (i = 0; i <= argc; i++) free(argv[i]);
}

int
main(int argc, char ** argv)
{
	static char line[1 << 16];
	FILE * f;
	int fresh = 0;

	if (argc < 3) { fprintf(stderr, "usage: drv_getopt programs trace\n"); return (3); }
	if ((f = fopen(argv[1], "r")) == NULL) { perror(argv[1]); return (3); }
	vt_open(argv[2]);
	while (fgets(line, sizeof(line), f) != NULL) {
		if (strncmp(line, "prog", 4) == 0) { vt_reset(); continue; }
		if (strncmp(line, "end", 3) == 0) continue;
		if (strncmp(line, "fresh", 5) == 0) { fresh = 1; continue; }
		if (fresh) {
			pid_t pid;
			int st;
			long pos = ftell(f);
			fresh = 0;
			vt_flush();
			if ((pid = fork()) == 0) { one(line); vt_flush(); _exit(0); }
			waitpid(pid, &st, 0);
			fseek(f, pos, SEEK_SET);
			fseek(vt_out, 0, SEEK_END);
			if (!(WIFEXITED(st) && WEXITSTATUS(st) == 0)) { fclose(vt_out); return (99); }
			continue;
		}
		one(line);
	}
	fclose(f);
	fclose(vt_out);
	return (0);
}
