/* ndjson event writer shared by the conformance drivers. */
#ifndef VTRACE_H_
#define VTRACE_H_
#include <stdint.h>
#include <stdio.h>
#include <stdlib.h>
#include <string.h>

static FILE * vt_out;
static int vt_first;

static inline void vt_open(const char * path) {
	vt_out = path ? fopen(path, "w") : stdout;
	if (vt_out == NULL) { perror("vtrace"); exit(3); }
	setvbuf(vt_out, NULL, _IOFBF, 1 << 16);
}
static inline void vt_begin(const char * ev) { fprintf(vt_out, "{\"e\":\"%s\"", ev); vt_first = 0; }
static inline void vt_int(const char * k, long long v) { fprintf(vt_out, ",\"%s\":%lld", k, v); }
static inline void vt_bool(const char * k, int v) { fprintf(vt_out, ",\"%s\":%s", k, v ? "true" : "false"); }
static inline void vt_str(const char * k, const char * v) { fprintf(vt_out, ",\"%s\":\"%s\"", k, v); }
/* unsigned 64-bit as decimal string (TLC ints are 32-bit) */
static inline void vt_u64s(const char * k, uint64_t v) { fprintf(vt_out, ",\"%s\":\"%llu\"", k, (unsigned long long)v); }
static inline void vt_i64s(const char * k, int64_t v) { fprintf(vt_out, ",\"%s\":\"%lld\"", k, (long long)v); }
static inline void vt_hex(const char * k, const void * p, size_t n) {
	const uint8_t * b = p; size_t i;
	fprintf(vt_out, ",\"%s\":\"", k);
	for (i = 0; i < n; i++) fprintf(vt_out, "%02x", b[i]);
	fputc('"', vt_out);
}
static inline void vt_ints(const char * k, const long long * v, size_t n) {
	size_t i;
	fprintf(vt_out, ",\"%s\":[", k);
	for (i = 0; i < n; i++) fprintf(vt_out, "%s%lld", i ? "," : "", v[i]);
	fputc(']', vt_out);
}
static inline void vt_raw(const char * k, const char * json) { fprintf(vt_out, ",\"%s\":%s", k, json); }
static inline void vt_end(void) { fputs("}\n", vt_out); }
static inline void vt_flush(void) { fflush(vt_out); }
static inline void vt_reset(void) { fputs("{\"e\":\"reset\"}\n", vt_out); fflush(vt_out); }
#endif
