/*
 * drv_ipc programs trace : util/ipc_sync.c between two real processes.
 *
 *  prog ipc
 *  A wait | A wait_prep | A signal | A signal_prep | A done | A die      (same for B)
 *  end
 *
 * The coordinator creates the object, forks the workers A and B (each inherits its own copy of the two descriptors), releases
 * its own copy with ipc_sync_done, and then hands out one command at a time: the next command is sent only when the previous
 * one has returned or its worker is blocked inside read(2) on the pipe (seen in /proc/<pid>/syscall), so the order of the
 * events in the trace is the order in which the calls took effect.  Every event is one write(2) to an O_APPEND descriptor.
 */
#include <sys/types.h>
#include <sys/wait.h>

#include <errno.h>
#include <fcntl.h>
#include <poll.h>
#include <signal.h>
#include <stdarg.h>
#include <stdio.h>
#include <stdlib.h>
#include <string.h>
#include <unistd.h>

#include "ipc_sync.h"

static int tfd;

static void
ev(const char * fmt, ...)
{
	char b[512];
	va_list ap;
	int n;

	va_start(ap, fmt);
	n = vsnprintf(b, sizeof(b) - 1, fmt, ap);
	va_end(ap);
	b[n++] = '\n';
	if (write(tfd, b, (size_t)n) != n) _exit(98);
}

struct worker {
	char name;
	pid_t pid;
	int cmd[2], rep[2];	/* coordinator -> worker, worker -> coordinator */
	int state;		/* 0 idle, 1 blocked in wait, 2 finished/dead */
};

static const char * OPS[] = { "wait", "wait_prep", "signal", "signal_prep", "done", "die" };

static void
worker_main(struct worker * w, struct ipc_sync * IS)
{
	unsigned char c;
	int rc;

	signal(SIGPIPE, SIG_IGN);
	for (;;) {
		if (read(w->cmd[0], &c, 1) != 1) _exit(0);
		if (c >= 6) _exit(0);
		if (c == 5) { ev("{\"e\":\"die\",\"p\":\"%c\"}", w->name); _exit(0); }
		ev("{\"e\":\"call\",\"p\":\"%c\",\"op\":\"%s\"}", w->name, OPS[c]);
		switch (c) {
		case 0: rc = ipc_sync_wait(IS); break;
		case 1: rc = ipc_sync_wait_prep(IS); break;
		case 2: rc = ipc_sync_signal(IS); break;
		case 3: rc = ipc_sync_signal_prep(IS); break;
		default: rc = ipc_sync_done(IS); break;
		}
		ev("{\"e\":\"ret\",\"p\":\"%c\",\"op\":\"%s\",\"rc\":%d}", w->name, OPS[c], rc);
		if (write(w->rep[1], &c, 1) != 1) _exit(0);
		if (c == 4) { /* the object is gone: accept nothing but the order to leave */
			if (read(w->cmd[0], &c, 1) != 1) _exit(0);
			_exit(0);
		}
	}
}

/* is the process in interruptible sleep (and not merely waiting for a processor inside the system call)? */
static int
asleep(pid_t pid)
{
	char path[64], buf[512], * p;
	int fd;
	ssize_t n;

	snprintf(path, sizeof(path), "/proc/%d/stat", (int)pid);
	if ((fd = open(path, O_RDONLY)) < 0) return (0);
	n = read(fd, buf, sizeof(buf) - 1);
	close(fd);
	if (n <= 0) return (0);
	buf[n] = 0;
	if ((p = strrchr(buf, ')')) == NULL || p[1] != ' ') return (0);
	return (p[2] == 'S');
}

/* 1: the worker answered; 0: it is blocked in read(2) on a descriptor other than its command pipe; -1: it is gone */
static int
await(struct worker * w)
{
	struct pollfd pf;
	char path[64], buf[256];
	unsigned char c;
	int i, fd;
	ssize_t n;
	long sysno;
	unsigned long a0;

	for (i = 0; i < 4000; i++) {
		pf.fd = w->rep[0]; pf.events = POLLIN; pf.revents = 0;
		if (poll(&pf, 1, 1) == 1) {
			if (read(w->rep[0], &c, 1) == 1) return (1);
			return (-1);
		}
		snprintf(path, sizeof(path), "/proc/%d/syscall", (int)w->pid);
		if ((fd = open(path, O_RDONLY)) < 0) continue;
		n = read(fd, buf, sizeof(buf) - 1);
		close(fd);
		if (n <= 0) continue;
		buf[n] = 0;
		if (sscanf(buf, "%ld %lx", &sysno, &a0) == 2 && sysno == 0 && (int)a0 != w->cmd[0] && asleep(w->pid)) {
			/* look again: the call may be about to return */
			pf.fd = w->rep[0]; pf.events = POLLIN; pf.revents = 0;
			if (poll(&pf, 1, 5) == 1) continue;
			if (!asleep(w->pid)) continue;
			return (0);
		}
	}
	return (-1);
}

static void
run_program(char lines[][32], int n)
{
	struct ipc_sync * IS;
	struct worker W[2];
	int i, k, rc, st;

	ev("{\"e\":\"reset\"}");
	if ((IS = ipc_sync_init()) == NULL) { ev("{\"e\":\"init\",\"ok\":false}"); return; }
	for (k = 0; k < 2; k++) {
		W[k].name = (char)('A' + k); W[k].state = 0;
		if (pipe(W[k].cmd) || pipe(W[k].rep)) _exit(3);
	}
	for (k = 0; k < 2; k++) {
		if ((W[k].pid = fork()) == 0) {
			/* keep only this worker's ends of the control pipes */
			close(W[k].cmd[1]); close(W[k].rep[0]);
			close(W[1 - k].cmd[0]); close(W[1 - k].cmd[1]); close(W[1 - k].rep[0]); close(W[1 - k].rep[1]);
			worker_main(&W[k], IS);
			_exit(0);
		}
	}
	for (k = 0; k < 2; k++) { close(W[k].cmd[0]); close(W[k].rep[1]); }
	rc = ipc_sync_done(IS);
	ev("{\"e\":\"init\",\"ok\":true,\"coord_done\":%d}", rc);
	for (i = 0; i < n; i++) {
		char who; char op[24]; unsigned char c;
		struct worker * w, * o;

		if (sscanf(lines[i], " %c %23s", &who, op) != 2 || (who != 'A' && who != 'B')) continue;
		w = &W[who - 'A']; o = &W[1 - (who - 'A')];
		for (c = 0; c < 6; c++) if (strcmp(op, OPS[c]) == 0) break;
		if (c == 6 || w->state != 0) continue;			/* blocked, finished or dead workers take no commands */
		if (write(w->cmd[1], &c, 1) != 1) continue;
		if (c == 5) { waitpid(w->pid, &st, 0); w->state = 2; w->pid = -1; }
		else {
			rc = await(w);
			if (rc == 0) { w->state = 1; ev("{\"e\":\"blocked\",\"p\":\"%c\"}", w->name); }
			else if (rc < 0) { ev("{\"e\":\"lost\",\"p\":\"%c\"}", w->name); w->state = 2; }
			else if (c == 4) w->state = 2;
		}
		/* whatever happened may have released the other worker */
		if (o->state == 1) {
			rc = await(o);
			if (rc == 1) o->state = 0;
			else if (rc < 0) { ev("{\"e\":\"lost\",\"p\":\"%c\"}", o->name); o->state = 2; }
		}
	}
	ev("{\"e\":\"end\",\"A\":%d,\"B\":%d}", W[0].state, W[1].state);
	/* a worker still asleep in wait goes first: once the other one leaves it would see end-of-file and log a late return */
	for (k = 0; k < 2; k++)
		if (W[k].pid > 0 && W[k].state == 1) { kill(W[k].pid, SIGKILL); waitpid(W[k].pid, &st, 0); W[k].pid = -1; }
	for (k = 0; k < 2; k++) {
		close(W[k].cmd[1]);
		if (W[k].pid > 0) waitpid(W[k].pid, &st, 0);
		close(W[k].rep[0]);
	}
}

int
main(int argc, char ** argv)
{
	static char line[256], lines[64][32];
	FILE * f;
	int n = 0, inprog = 0;

	if (argc < 3) { fprintf(stderr, "usage: drv_ipc programs trace\n"); return (3); }
	if ((f = fopen(argv[1], "r")) == NULL) { perror(argv[1]); return (3); }
	if ((tfd = open(argv[2], O_WRONLY | O_CREAT | O_TRUNC | O_APPEND, 0644)) < 0) { perror(argv[2]); return (3); }
	signal(SIGPIPE, SIG_IGN);
	while (fgets(line, sizeof(line), f) != NULL) {
		if (strncmp(line, "prog", 4) == 0) { inprog = 1; n = 0; continue; }
		if (strncmp(line, "end", 3) == 0) { if (inprog) run_program(lines, n); inprog = 0; continue; }
		if (inprog && n < 64) { strncpy(lines[n], line, 31); lines[n][31] = 0; n++; }
	}
	fclose(f);
	close(tfd);
	return (0);
}
