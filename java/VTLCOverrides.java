import tlc2.overrides.ITLCOverrides;
public class VTLCOverrides implements ITLCOverrides {
    @Override
    public Class[] get() { return new Class[] { VOverrides.class }; }
}
