import tlc2.overrides.TLAPlusOperator;
import tlc2.value.impl.*;
import util.UniqueString;
import java.math.BigInteger;
import java.security.MessageDigest;
import javax.crypto.Cipher;
import javax.crypto.spec.SecretKeySpec;

/* Primitive operators for module VPrims, backed by the JDK (trusted base). */
public class VOverrides {
    private static byte[] bytes(Value v) {
        TupleValue t = (TupleValue) v.toTuple();
        if (t == null) throw new RuntimeException("VPrims: expected a tuple of bytes, got " + v);
        byte[] b = new byte[t.size()];
        for (int i = 0; i < b.length; i++) b[i] = (byte) ((IntValue) t.elems[i]).val;
        return b;
    }
    private static Value tuple(byte[] b) {
        Value[] e = new Value[b.length];
        for (int i = 0; i < b.length; i++) e[i] = IntValue.gen(b[i] & 0xff);
        return new TupleValue(e);
    }
    private static String str(Value v) { return ((StringValue) v).val.toString(); }
    private static Value sv(String s) { return new StringValue(UniqueString.uniqueStringOf(s)); }
    private static byte[] unhex(String s) {
        byte[] b = new byte[s.length() / 2];
        for (int i = 0; i < b.length; i++) b[i] = (byte) Integer.parseInt(s.substring(2 * i, 2 * i + 2), 16);
        return b;
    }
    private static String hex(byte[] b) {
        StringBuilder sb = new StringBuilder();
        for (byte x : b) sb.append(String.format("%02x", x & 0xff));
        return sb.toString();
    }
    private static byte[] md(String alg, byte[] in) {
        try { return MessageDigest.getInstance(alg).digest(in); } catch (Exception e) { throw new RuntimeException(e); }
    }
    @TLAPlusOperator(identifier = "SHA256", module = "VPrims", warn = false)
    public static Value sha256(final Value m) { return tuple(md("SHA-256", bytes(m))); }
    @TLAPlusOperator(identifier = "SHA1", module = "VPrims", warn = false)
    public static Value sha1(final Value m) { return tuple(md("SHA-1", bytes(m))); }
    @TLAPlusOperator(identifier = "MD5", module = "VPrims", warn = false)
    public static Value md5(final Value m) { return tuple(md("MD5", bytes(m))); }
    /* digest of the first n bytes of the periodic pattern message used for very long inputs (harness/drv_crypto.c hashbig):
       byte i = P[i mod 1048573], P[j] = (131 j + 7 (j >> 8) + 13) mod 256 */
    @TLAPlusOperator(identifier = "DigestOfPattern", module = "VPrims", warn = false)
    public static Value digestOfPattern(final Value alg, final Value n) {
        try {
            String a = str(alg);
            MessageDigest d = MessageDigest.getInstance(a.equals("sha256") ? "SHA-256" : a.equals("sha1") ? "SHA-1" : "MD5");
            final int period = 1048573;
            byte[] pat = new byte[period];
            for (int j = 0; j < period; j++) pat[j] = (byte) ((131 * j + 7 * (j >> 8) + 13) & 0xff);
            long left = ((IntValue) n).val;
            while (left > 0) { int k = (int) Math.min(left, period); d.update(pat, 0, k); left -= k; }
            return tuple(d.digest());
        } catch (Exception e) { throw new RuntimeException(e); }
    }
    /* the library's CRC32C value of a byte tuple: the four bytes c such that the bit string 1 || data || c (least significant bit of each
       byte first) is a multiple of the Castagnoli polynomial.  Bit-serial reflected division; the register starts as the polynomial
       itself, which is what the leading 1 bit leaves behind.  For messages too long for the bit-level definition of Hash.tla, against
       which it is compared on every short message. */
    @TLAPlusOperator(identifier = "Crc32cBytes", module = "VPrims", warn = false)
    public static Value crc32cBytes(final Value m) {
        byte[] b = bytes(m);
        int poly = 0x82F63B78, crc = poly;
        for (byte x : b) {
            crc ^= (x & 0xff);
            for (int k = 0; k < 8; k++) crc = (crc >>> 1) ^ ((crc & 1) != 0 ? poly : 0);
        }
        return tuple(new byte[] { (byte) crc, (byte) (crc >>> 8), (byte) (crc >>> 16), (byte) (crc >>> 24) });
    }
    @TLAPlusOperator(identifier = "SHA256HexOfHex", module = "VPrims", warn = false)
    public static Value sha256hex(final Value m) { return sv(hex(md("SHA-256", unhex(str(m))))); }
    @TLAPlusOperator(identifier = "AESEncryptBlock", module = "VPrims", warn = false)
    public static Value aes(final Value key, final Value blk) {
        try {
            Cipher c = Cipher.getInstance("AES/ECB/NoPadding");
            c.init(Cipher.ENCRYPT_MODE, new SecretKeySpec(bytes(key), "AES"));
            return tuple(c.doFinal(bytes(blk)));
        } catch (Exception e) { throw new RuntimeException(e); }
    }
    @TLAPlusOperator(identifier = "HexOf", module = "VPrims", warn = false)
    public static Value hexOf(final Value b) { return sv(hex(bytes(b))); }
    @TLAPlusOperator(identifier = "BytesOf", module = "VPrims", warn = false)
    public static Value bytesOf(final Value h) { return tuple(unhex(str(h))); }
    @TLAPlusOperator(identifier = "StrBytes", module = "VPrims", warn = false)
    public static Value strBytes(final Value s) {
        try { return tuple(str(s).getBytes("ISO-8859-1")); } catch (Exception e) { throw new RuntimeException(e); }
    }
    @TLAPlusOperator(identifier = "BytesStr", module = "VPrims", warn = false)
    public static Value bytesStr(final Value b) {
        try { return sv(new String(bytes(b), "ISO-8859-1")); } catch (Exception e) { throw new RuntimeException(e); }
    }
    @TLAPlusOperator(identifier = "StrLen", module = "VPrims", warn = false)
    public static Value strLen(final Value s) { return IntValue.gen(str(s).length()); }
    @TLAPlusOperator(identifier = "XorBytes", module = "VPrims", warn = false)
    public static Value xor(final Value a, final Value b) {
        byte[] x = bytes(a), y = bytes(b);
        byte[] r = new byte[Math.min(x.length, y.length)];
        for (int i = 0; i < r.length; i++) r[i] = (byte) (x[i] ^ y[i]);
        return tuple(r);
    }
    /* big integers as lower-case hex strings without leading zeros ("0" for zero) */
    private static BigInteger bi(Value v) { String s = str(v); return s.isEmpty() ? BigInteger.ZERO : new BigInteger(s, 16); }
    @TLAPlusOperator(identifier = "ModExpHex", module = "VPrims", warn = false)
    public static Value modexp(final Value b, final Value e, final Value m) { return sv(bi(b).modPow(bi(e), bi(m)).toString(16)); }
    @TLAPlusOperator(identifier = "AddHex", module = "VPrims", warn = false)
    public static Value addhex(final Value a, final Value b) { return sv(bi(a).add(bi(b)).toString(16)); }
    @TLAPlusOperator(identifier = "CmpHex", module = "VPrims", warn = false)
    public static Value cmphex(final Value a, final Value b) { return IntValue.gen(bi(a).compareTo(bi(b))); }
    @TLAPlusOperator(identifier = "Pow2Hex", module = "VPrims", warn = false)
    public static Value pow2hex(final Value n) { return sv(BigInteger.ONE.shiftLeft(((IntValue) n).val).toString(16)); }
    @TLAPlusOperator(identifier = "PadHex", module = "VPrims", warn = false)
    public static Value padhex(final Value a, final Value n) {
        String s = bi(a).toString(16); int w = ((IntValue) n).val;
        StringBuilder sb = new StringBuilder();
        for (int i = s.length(); i < w; i++) sb.append('0');
        return sv(sb.append(s).toString());
    }
    /* decimal strings (64-bit and beyond) compare/arith, for values TLC's 32-bit ints cannot hold */
    @TLAPlusOperator(identifier = "DecCmp", module = "VPrims", warn = false)
    public static Value deccmp(final Value a, final Value b) { return IntValue.gen(new BigInteger(str(a)).compareTo(new BigInteger(str(b)))); }
    private static BigInteger dec(Value v) { return new BigInteger(str(v)); }
    @TLAPlusOperator(identifier = "DecAdd", module = "VPrims", warn = false)
    public static Value decadd(final Value a, final Value b) { return sv(dec(a).add(dec(b)).toString()); }
    @TLAPlusOperator(identifier = "DecSub", module = "VPrims", warn = false)
    public static Value decsub(final Value a, final Value b) { return sv(dec(a).subtract(dec(b)).toString()); }
    @TLAPlusOperator(identifier = "DecMul", module = "VPrims", warn = false)
    public static Value decmul(final Value a, final Value b) { return sv(dec(a).multiply(dec(b)).toString()); }
    @TLAPlusOperator(identifier = "DecDiv", module = "VPrims", warn = false)
    public static Value decdiv(final Value a, final Value b) { return sv(dec(a).divide(dec(b)).toString()); }
    @TLAPlusOperator(identifier = "DecPow", module = "VPrims", warn = false)
    public static Value decpow(final Value a, final Value n) { return sv(dec(a).pow(((IntValue) n).val).toString()); }
    @TLAPlusOperator(identifier = "DecAbs", module = "VPrims", warn = false)
    public static Value decabs(final Value a) { return sv(dec(a).abs().toString()); }
    @TLAPlusOperator(identifier = "DecMod", module = "VPrims", warn = false)
    public static Value decmod(final Value a, final Value b) { return sv(dec(a).mod(dec(b)).toString()); }
    @TLAPlusOperator(identifier = "DecToInt", module = "VPrims", warn = false)
    public static Value dectoint(final Value a) { return IntValue.gen(dec(a).intValueExact()); }
    @TLAPlusOperator(identifier = "DecToBytes", module = "VPrims", warn = false)
    public static Value dectobytes(final Value a, final Value n) {
        int w = ((IntValue) n).val; byte[] r = new byte[w]; byte[] b = dec(a).toByteArray();
        for (int i = 0; i < w && i < b.length; i++) r[w - 1 - i] = b[b.length - 1 - i];
        return tuple(r);
    }
    @TLAPlusOperator(identifier = "StrCat", module = "VPrims", warn = false)
    public static Value strcat(final Value a, final Value b) { return sv(str(a) + str(b)); }
    @TLAPlusOperator(identifier = "SubStr", module = "VPrims", warn = false)
    public static Value substr(final Value s, final Value from, final Value to) {
        String x = str(s); int f = ((IntValue) from).val, t = ((IntValue) to).val;
        if (f < 1) f = 1; if (t > x.length()) t = x.length();
        return sv(t < f ? "" : x.substring(f - 1, t));
    }
}
