SPECIFICATION Spec
CONSTANTS MAXB = 4
          MAXE = 5
          KIND = "json"
INVARIANT Emit
CHECK_DEADLOCK FALSE
