------------------------------ MODULE CodecTrace ------------------------------
(* Trace validation for C17 (codecs, byte orders, socket addresses, JSON key finder) and the value-range clauses of C15
   (hostile inputs): every call of the real code must give what Codec.tla / the address and JSON rules below define. *)
EXTENDS TraceBase, Codec, FiniteSets
vars == <<l>>
Init == l = 1
TReset == IsEvent("reset")
B(h) == BytesOf(h)
TB64e == IsEvent("b64e") /\ B(Ev.out) = B64Enc(B(Ev.in))
\* accepts exactly the well-formed encodings; decoding returns the original; never more output than the contract allows
TB64d == /\ IsEvent("b64d")
         /\ LET s == B(Ev.in) IN
            /\ (Ev.rc = 0) => (Ev.outlen >= 0 /\ Ev.outlen <= (Len(s) \div 4) * 3)                 \* C15
            /\ IF ~WellFormedB64(s) THEN Ev.rc # 0
               ELSE IF Canonical(s) THEN Ev.rc = 0 /\ B(Ev.out) = B64Dec(s)
               ELSE (Ev.rc = 0 => B(Ev.out) = B64Dec(s))                                            \* non-zero padding bits: either verdict
THexe == IsEvent("hexe") /\ B(Ev.out) = HexEnc(B(Ev.in))
THexd == /\ IsEvent("hexd")
         /\ LET s == B(Ev.in) IN IF IsHexText(s, 2 * Ev.len) THEN Ev.rc = 0 /\ B(Ev.out) = HexDec(s, Ev.len) ELSE Ev.rc # 0
TEn == /\ IsEvent("en") /\ Ev.clean /\ Ev.back = Ev.v
       /\ B(Ev.bytes) = (IF Ev.order = "be" THEN BE(B(Ev.v)) ELSE LE(B(Ev.v)))
\* addresses: a numeric / Unix-path literal resolves to the address it denotes; printing resolves back; serialise / duplicate keep it
TSr == /\ IsEvent("sr")
       /\ IF Has("wfam")
          THEN /\ Ev.n >= 1 /\ Ev.fam = Ev.wfam /\ Ev.addr = Ev.waddr /\ Ev.port = Ev.wport
               /\ Ev.ser_rt /\ Ev.dup_rt /\ Ev.pp_rt
               /\ Ev.bfam = Ev.fam /\ Ev.baddr = Ev.addr /\ Ev.bport = Ev.port
          ELSE Ev.n >= -1 /\ (Ev.n >= 1 => (Ev.ser_rt /\ Ev.dup_rt))
       \* a copy (deserialised, duplicated, duplicated again as a list member) is as good as the original: it prints the same
       /\ (Has("pp") /\ Has("pp_ser")) => Ev.pp_ser = Ev.pp
       /\ (Has("pp") /\ Has("pp_dup")) => Ev.pp_dup = Ev.pp
       /\ (Has("pp") /\ Has("pp_dup2")) => (Ev.pp_dup2 = Ev.pp /\ Ev.dup2_rt)
TSd == IsEvent("sd") /\ (Ev.null \/ ~Has("same") \/ Ev.same)        \* what the decoder accepts serialises back to the same bytes
\* JSON key finder: a pointer inside [buf, end]; on a valid object, the value of the first top-level member whose decoded
\* name equals the key (names written with \u escapes never match), else the end
TJf == /\ IsEvent("jf") /\ Ev.off >= 0 /\ Ev.off <= Ev.len
       /\ Has("members") =>
            LET M == Ev.members
                hit == {k \in 1..Len(M) : M[k][1] = Ev.key /\ ~M[k][2]}
            IN Ev.off = (IF hit = {} THEN Ev.len ELSE M[CHOOSE k \in hit : \A j \in hit : k <= j][3])
\* key file and passphrase file (KeyFile.tla); contents with a NUL byte are outside the formats: value range only (C15)
KF == INSTANCE KeyFile
NulFree(c) == \A i \in 1..Len(c) : c[i] # 0
TKf == /\ IsEvent("kf") /\ Ev.rc \in {0, -1}
       /\ LET c == B(Ev.in)  r == KF!ReadKeys(c) IN
          NulFree(c) => /\ (Ev.rc = 0) = r.ok
                        /\ r.ok => (B(Ev.id) = r.id /\ B(Ev.secret) = r.secret)
TPf == /\ IsEvent("pf") /\ Ev.rc \in {0, -1}
       /\ LET c == B(Ev.in)  r == KF!ReadPass(c) IN
          (NulFree(c) /\ KF!Documented(c)) => /\ (Ev.rc = 0) = r.ok
                                              /\ r.ok => B(Ev.pw) = r.pw
Next == TReset \/ TB64e \/ TB64d \/ THexe \/ THexd \/ TEn \/ TSr \/ TSd \/ TJf \/ TKf \/ TPf
Spec == Init /\ [][Next]_vars
=============================================================================
