SPECIFICATION Spec
CONSTANTS TYPES = {"u8", "u16", "u32", "u64", "size", "umax", "uint", "i8", "i16", "i32", "i64", "imax", "int"}
          BASES = {0, 2, 8, 10, 16, 36}
INVARIANT Emit
CHECK_DEADLOCK FALSE
