SPECIFICATION Spec
CONSTANTS MAXLEN = 3
          TABLE = 2
INVARIANTS InRange Terminates Emit
CHECK_DEADLOCK FALSE
