SPECIFICATION Spec
CONSTANTS MAXB = 4
          MAXE = 4
          KIND = "json"
INVARIANT Emit
CHECK_DEADLOCK FALSE
