SPECIFICATION Spec
CONSTANTS MAXLEN = 4
          TABLE = 1
INVARIANTS InRange Terminates Emit
CHECK_DEADLOCK FALSE
