------------------------------- MODULE Getopt -------------------------------
(***************************************************************************)
(* The option grammar documented in util/getopt.h, as a step function: one  *)
(* getopt() call = Step(argv, i, k).  argv excludes argv[0], so the index i *)
(* (1-based) equals C's optind; k is the position inside a pack of short    *)
(* options (0 = not inside one).  Strings are tuples of character codes.    *)
(* Three option tables (the driver compiles the same three loops).          *)
(***************************************************************************)
EXTENDS Naturals, Integers, Sequences, VPrims
S(x) == StrBytes(x)
Ch(x) == StrBytes(x)[1]
DASH == 45
EQ == 61
Tables == <<
  [shortNo |-> {Ch("a"), Ch("b")}, shortArg |-> {Ch("f")},
   longNo |-> {S("--foobar"), S("--bar")}, longArg |-> {S("--foo"), S("--b")}, missing |-> TRUE],
  [shortNo |-> {Ch("a"), Ch("b")}, shortArg |-> {Ch("f")},
   longNo |-> {S("--foobar"), S("--bar")}, longArg |-> {S("--foo"), S("--b")}, missing |-> FALSE],
  [shortNo |-> {Ch("x")}, shortArg |-> {Ch("a")},
   longNo |-> {S("--long"), S("--x")}, longArg |-> {S("--long-opt"), S("--a")}, missing |-> TRUE] >>
NONE == <<-1>>                      \* "no argument" (optarg == NULL); distinct from the empty string <<>>
IsPrefix(p, s) == Len(p) <= Len(s) /\ SubSeq(s, 1, Len(p)) = p
\* the registered long option which s names exactly, or followed by '=' (<<>> if none)
LongMatch(T, s) ==
  LET C == {nm \in T.longNo \cup T.longArg : IsPrefix(nm, s) /\ (Len(s) = Len(nm) \/ s[Len(nm) + 1] = EQ)}
  IN IF C = {} THEN <<>> ELSE CHOOSE nm \in C : TRUE
Default == S("default")
MissingL(T) == IF T.missing THEN S("missing") ELSE Default
\* result of one call: [done, label, arg, i, k]
Res(d, lab, a, i, k) == [done |-> d, label |-> lab, arg |-> a, i |-> i, k |-> k]
Step(T, argv, i, k) ==
  LET n == Len(argv) IN
  IF k = 0 /\ i > n THEN Res(TRUE, <<>>, NONE, i, 0)
  ELSE LET s == argv[i] IN
  IF k = 0 /\ ~(Len(s) >= 2 /\ s[1] = DASH /\ s[2] # DASH)
  THEN \* not a pack: a long option, "--", or the first operand
       IF Len(s) >= 2 /\ s[1] = DASH /\ s[2] = DASH
       THEN IF Len(s) = 2 THEN Res(TRUE, <<>>, NONE, i + 1, 0)                       \* "--": consumed, parsing stops
            ELSE LET nm == LongMatch(T, s) IN
                 IF nm = <<>> THEN Res(FALSE, Default, NONE, i + 1, 0)               \* unknown option
                 ELSE LET hasv == Len(s) > Len(nm)
                          val == IF hasv THEN SubSeq(s, Len(nm) + 2, Len(s)) ELSE NONE
                      IN IF nm \in T.longArg
                         THEN IF hasv THEN Res(FALSE, nm, val, i + 1, 0)              \* --name=value
                              ELSE IF i + 1 <= n THEN Res(FALSE, nm, argv[i + 1], i + 2, 0)   \* --name value
                              ELSE Res(FALSE, MissingL(T), NONE, i + 1, 0)            \* missing argument
                         ELSE IF hasv THEN Res(FALSE, Default, NONE, i + 1, 0)        \* unwanted =value
                              ELSE Res(FALSE, nm, NONE, i + 1, 0)
       ELSE Res(TRUE, <<>>, NONE, i, 0)                                              \* operand, "-" or "": not consumed
  ELSE \* inside (or starting) a pack of short options
       LET kk   == IF k = 0 THEN 2 ELSE k
           c    == s[kk]
           os   == <<DASH, c>>
           last == kk = Len(s)
           rest == IF last THEN NONE ELSE SubSeq(s, kk + 1, Len(s))
       IN IF c \in T.shortArg
          THEN IF ~last THEN Res(FALSE, os, rest, i + 1, 0)                           \* attached argument
               ELSE IF i + 1 <= n THEN Res(FALSE, os, argv[i + 1], i + 2, 0)          \* separate argument
               ELSE Res(FALSE, MissingL(T), NONE, i + 1, 0)
          ELSE LET lab == IF c \in T.shortNo THEN os ELSE Default IN
               IF last THEN Res(FALSE, lab, NONE, i + 1, 0) ELSE Res(FALSE, lab, NONE, i, kk + 1)
=============================================================================
