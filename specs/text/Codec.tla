-------------------------------- MODULE Codec --------------------------------
(***************************************************************************)
(* Property C17, codecs: RFC 4648 base-64 with padding (encode, decode,     *)
(* exact well-formedness), hexadecimal (lower-case encode, either-case      *)
(* decode), and the big-/little-endian byte orders.  Byte strings and texts *)
(* are tuples of integers 0..255.                                           *)
(***************************************************************************)
EXTENDS Naturals, Integers, Sequences, VPrims
Alpha == StrBytes("ABCDEFGHIJKLMNOPQRSTUVWXYZabcdefghijklmnopqrstuvwxyz0123456789+/")
PAD == 61
RECURSIVE B64Enc(_)
B64Enc(b) ==
  IF b = <<>> THEN <<>>
  ELSE LET n == IF Len(b) >= 3 THEN 3 ELSE Len(b)
           x == b[1] * 65536 + (IF n >= 2 THEN b[2] ELSE 0) * 256 + (IF n = 3 THEN b[3] ELSE 0)
           c(k) == Alpha[((x \div (64 ^ (3 - k))) % 64) + 1]
       IN << c(0), c(1), (IF n >= 2 THEN c(2) ELSE PAD), (IF n = 3 THEN c(3) ELSE PAD) >> \o B64Enc(SubSeq(b, n + 1, Len(b)))
InAlpha(ch) == \E i \in 1..64 : Alpha[i] = ch
Idx(ch) == CHOOSE i \in 1..64 : Alpha[i] = ch
\* well-formed: length a multiple of 4, alphabet characters, at most two '=' and only at the very end
WellFormedB64(s) == /\ (Len(s) % 4) = 0
                    /\ \E p \in 0..2 : /\ p <= Len(s)
                                       /\ \A i \in 1..(Len(s) - p) : InAlpha(s[i])
                                       /\ \A i \in (Len(s) - p + 1)..Len(s) : s[i] = PAD
                                       /\ (p > 0 => Len(s) >= 4)
RECURSIVE B64DecQ(_)
B64DecQ(s) == IF s = <<>> THEN <<>>
              ELSE LET v(k) == IF s[k] = PAD THEN 0 ELSE Idx(s[k]) - 1
                       x == ((v(1) * 64 + v(2)) * 64 + v(3)) * 64 + v(4)
                   IN << x \div 65536, ((x \div 256) % 256), (x % 256) >> \o B64DecQ(SubSeq(s, 5, Len(s)))
NPad(s) == IF Len(s) >= 2 /\ s[Len(s) - 1] = PAD THEN 2 ELSE IF Len(s) >= 1 /\ s[Len(s)] = PAD THEN 1 ELSE 0
B64Dec(s) == LET full == B64DecQ(s) IN SubSeq(full, 1, Len(full) - NPad(s))
\* canonical: re-encoding the decoded bytes gives the text back (non-zero padding bits are the only other well-formed texts)
Canonical(s) == B64Enc(B64Dec(s)) = s
\* hexadecimal
HexDigits == StrBytes("0123456789abcdef")
RECURSIVE HexEnc(_)
HexEnc(b) == IF b = <<>> THEN <<>> ELSE <<HexDigits[b[1] \div 16 + 1], HexDigits[(b[1] % 16) + 1]>> \o HexEnc(Tail(b))
HexVal(c) == IF c >= 48 /\ c <= 57 THEN c - 48 ELSE IF c >= 97 /\ c <= 102 THEN c - 87 ELSE IF c >= 65 /\ c <= 70 THEN c - 55 ELSE 99
IsHexText(s, n) == Len(s) >= n /\ \A i \in 1..n : HexVal(s[i]) < 16
HexDec(s, len) == [i \in 1..len |-> HexVal(s[2 * i - 1]) * 16 + HexVal(s[2 * i])]
\* byte orders: value given as a tuple of its bytes, most significant first
BE(bytes) == bytes
LE(bytes) == [i \in 1..Len(bytes) |-> bytes[Len(bytes) + 1 - i]]
=============================================================================
