------------------------------ MODULE Humansize ------------------------------
(* Property C16, sizes: the language  digits [' '] [kMGTPE] ['B']  with value digits * 1000^k (overflow past 2^64 - 1
   rejected), and the formatting rule: the largest value not exceeding the size in the 2-to-3-significant-digit form.
   Values are decimal strings (big-integer arithmetic through the Dec* primitives). *)
EXTENDS Naturals, Integers, Sequences, VPrims
U64MAX == "18446744073709551615"
IsDigit(c) == c >= 48 /\ c <= 57
Prefixes == StrBytes("kMGTPE")
PrefixIdx(c) == IF \E k \in 1..6 : Prefixes[k] = c THEN CHOOSE k \in 1..6 : Prefixes[k] = c ELSE 0
RECURSIVE DEnd(_, _)
DEnd(s, i) == IF i <= Len(s) /\ IsDigit(s[i]) THEN DEnd(s, i + 1) ELSE i
\* <<ok, value>>
Parse(s) ==
  LET d == DEnd(s, 1)
      i1 == IF d <= Len(s) /\ s[d] = 32 THEN d + 1 ELSE d
      k == IF i1 <= Len(s) THEN PrefixIdx(s[i1]) ELSE 0
      i2 == IF k > 0 THEN i1 + 1 ELSE i1
      i3 == IF i2 <= Len(s) /\ s[i2] = 66 THEN i2 + 1 ELSE i2
      digits == IF d > 1 THEN BytesStr(SubSeq(s, 1, d - 1)) ELSE "0"
      v == DecMul(digits, DecPow("1000", k))
  IN IF d = 1 \/ i3 <= Len(s) \/ DecCmp(v, U64MAX) > 0 THEN <<FALSE, "0">> ELSE <<TRUE, v>>
RECURSIVE Unit(_, _)
Unit(n, k) == IF DecCmp(n, DecPow("1000", k + 1)) < 0 THEN k ELSE Unit(n, k + 1)
Format(n) ==
  IF DecCmp(n, "1000") < 0 THEN StrCat(n, " B")
  ELSE LET k == Unit(n, 1)
           tenths == DecDiv(DecMul(n, "10"), DecPow("1000", k))
           p == BytesStr(<<Prefixes[k]>>)
       IN IF DecCmp(tenths, "100") < 0
          THEN StrCat(StrCat(StrCat(DecDiv(tenths, "10"), "."), DecSub(tenths, DecMul(DecDiv(tenths, "10"), "10"))), StrCat(StrCat(" ", p), "B"))
          ELSE StrCat(DecDiv(tenths, "10"), StrCat(StrCat(" ", p), "B"))
=============================================================================
