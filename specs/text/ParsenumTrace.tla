---------------------------- MODULE ParsenumTrace ----------------------------
(* Trace validation of PARSENUM / PARSENUM_EX, humansize and humansize_parse (C16): every call of the real code
   must give the verdict and the value the specification (Parsenum, ParsenumFloat, Humansize) defines. *)
EXTENDS TraceBase, Parsenum, FiniteSets, VPrims
PF == INSTANCE ParsenumFloat
HS == INSTANCE Humansize
vars == <<l>>
Types == [u8 |-> [signed |-> FALSE, bits |-> 8], u16 |-> [signed |-> FALSE, bits |-> 16], u32 |-> [signed |-> FALSE, bits |-> 32],
          u64 |-> [signed |-> FALSE, bits |-> 64], size |-> [signed |-> FALSE, bits |-> 64], umax |-> [signed |-> FALSE, bits |-> 64],
          uint |-> [signed |-> FALSE, bits |-> 32],
          i8 |-> [signed |-> TRUE, bits |-> 8], i16 |-> [signed |-> TRUE, bits |-> 16], i32 |-> [signed |-> TRUE, bits |-> 32],
          i64 |-> [signed |-> TRUE, bits |-> 64], imax |-> [signed |-> TRUE, bits |-> 64], int |-> [signed |-> TRUE, bits |-> 32]]
\* a decimal string (optional '-') as a [neg, mag] pair
Signed(str) == LET b == StrBytes(str) IN
               IF b # <<>> /\ b[1] = 45 THEN [neg |-> TRUE, mag |-> FromDecBytes(Tail(b))] ELSE [neg |-> FALSE, mag |-> FromDecBytes(b)]
Canon(p) == IF p.mag = <<>> THEN [neg |-> FALSE, mag |-> <<>>] ELSE p
Init == l = 1
TReset == IsEvent("reset")
\* the macros are used with expressions that have side effects (`PARSENUM(&n, *argv++)`): the string, the base and the trailing
\* flag are each evaluated exactly once, so the string parsed is the one the caller's cursor pointed at
Once == Has("sevals") =>
          /\ Ev.sevals = 1
          /\ Ev.tevals = (IF Ev.form \in {"e4", "e6i", "e6u", "e6d"} THEN 1 ELSE 0)
          /\ Ev.bevals = (IF Ev.form \in {"e4", "e6i", "e6u"} /\ Ev.type \notin {"float", "double"} THEN 1 ELSE 0)
TPnInt ==
  /\ IsEvent("pn") /\ Ev.type \in DOMAIN Types /\ Once
  /\ LET t == Types[Ev.type]
         bounded == Ev.form \in {"4i", "4u", "e6i", "e6u"}
         lo == IF bounded THEN Canon(Signed(Ev.min)) ELSE TypeLo(t)
         hi == IF bounded THEN Canon(Signed(Ev.max)) ELSE TypeHi(t)
         base == IF Ev.form \in {"2", "4i", "4u"} THEN 0 ELSE Ev.base
         trailing == Ev.form \in {"e4", "e6i", "e6u"} /\ Ev.trailing
         x == Expect(BytesOf(Ev.s), t, lo, hi, base, trailing)
     IN IF x[1] = "OK"
        THEN /\ Ev.rc = 0 /\ Ev.errno = "0"
             /\ Canon(Signed(Ev.val)) = Canon([neg |-> x[2], mag |-> x[3]])          \* exactly that value
        ELSE Ev.rc # 0 /\ Ev.errno = x[1]                                             \* EINVAL / ERANGE, never wraparound
Bound(str) == IF str \in {"inf", "-inf"} THEN str ELSE str
TPnFloat ==
  /\ IsEvent("pn") /\ Ev.type \in {"float", "double"} /\ Once
  /\ LET s == BytesOf(Ev.s)
         r == PF!ScanF(s)
         trailing == Ev.form \in {"e4", "e6d"} /\ Ev.trailing
         bounded == Ev.form \in {"4d", "e6d"}
         below == bounded /\ Ev.min # "-inf" /\ (IF r.kind = "inf" THEN r.neg ELSE r.kind = "num" /\ PF!ValCmp(r.neg, r.n, r.p10, r.p2, Ev.min) < 0)
         above == bounded /\ Ev.max # "inf" /\ (IF r.kind = "inf" THEN ~r.neg ELSE r.kind = "num" /\ PF!ValCmp(r.neg, r.n, r.p10, r.p2, Ev.max) > 0)
     IN IF ~r.ok \/ (~trailing /\ r.endpos <= Len(s)) THEN Ev.rc # 0 /\ Ev.errno = "EINVAL"
        ELSE IF below \/ above THEN Ev.rc # 0 /\ Ev.errno = "ERANGE"
        ELSE /\ Ev.rc = 0 /\ Ev.errno = "0"
             /\ CASE r.kind = "nan" -> Ev.cls = "nan"                                 \* nan passes any bounds
                  [] r.kind = "inf" -> Ev.cls = (IF r.neg THEN "-inf" ELSE "inf")
                  [] OTHER -> IF r.n = "0" THEN Ev.cls = (IF r.neg THEN "-zero" ELSE "zero")
                              ELSE /\ Ev.cls = "normal"
                                   /\ (DecCmp(Ev.m, "0") < 0) = r.neg
                                   /\ PF!ErrCmp(r.n, r.p10, r.p2, DecAbs(Ev.m), Ev.ex, Ev.type = "float") <= (IF Ev.type = "float" THEN -1 ELSE 0)
THs == /\ IsEvent("hs") /\ ~Ev.null /\ BytesStr(BytesOf(Ev.out)) = HS!Format(Ev.n)
THp == /\ IsEvent("hp") /\ LET p == HS!Parse(BytesOf(Ev.s)) IN IF p[1] THEN Ev.rc = 0 /\ Ev.val = p[2] ELSE Ev.rc # 0
Next == TReset \/ TPnInt \/ TPnFloat \/ THs \/ THp
Spec == Init /\ [][Next]_vars
=============================================================================
