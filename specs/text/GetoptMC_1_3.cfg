SPECIFICATION Spec
CONSTANTS MAXLEN = 3
          TABLE = 1
INVARIANTS InRange Terminates Emit
CHECK_DEADLOCK FALSE
