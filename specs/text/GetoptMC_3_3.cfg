SPECIFICATION Spec
CONSTANTS MAXLEN = 3
          TABLE = 3
INVARIANTS InRange Terminates Emit
CHECK_DEADLOCK FALSE
