SPECIFICATION Spec
CONSTANTS MAXLEN = 4
          TABLE = 2
INVARIANTS InRange Terminates Emit
CHECK_DEADLOCK FALSE
