------------------------------- MODULE KeyFile -------------------------------
(***************************************************************************)
(* The two small file formats read by the library, as functions from the    *)
(* file content (a tuple of bytes without NUL) to the result:               *)
(*   - aws_readkeys: lines NAME=VALUE with NAME one of ACCESS_KEY_ID /      *)
(*     ACCESS_KEY_SECRET, each exactly once, in either order; a line ends   *)
(*     at the first CR or LF; lines are read in pieces of at most 1023      *)
(*     bytes and reading stops (without failing) at a piece that has no     *)
(*     end-of-line character;                                               *)
(*   - readpass_file: at most 2047 bytes, no line feed except as the last   *)
(*     byte; the passphrase is the content without the trailing LF / CR LF. *)
(* Result: [ok |-> FALSE] or [ok |-> TRUE, ...].                            *)
(***************************************************************************)
EXTENDS Naturals, Sequences, VPrims
CR == 13
LF == 10
None == <<256>>                     \* "not seen yet" (no byte tuple contains 256)
First(s, P(_)) == IF \E i \in 1..Len(s) : P(s[i]) THEN CHOOSE i \in 1..Len(s) : P(s[i]) /\ \A j \in 1..(i - 1) : ~P(s[j]) ELSE 0
\* what one fgets(buf, 1024) takes from the rest of the file
Piece(c) == LET nl == First(c, LAMBDA b : b = LF)
                n == IF nl # 0 /\ nl <= 1023 THEN nl ELSE IF Len(c) < 1023 THEN Len(c) ELSE 1023
            IN n
IdName == StrBytes("ACCESS_KEY_ID")
SecretName == StrBytes("ACCESS_KEY_SECRET")
Finish(id, sec) == IF id = None \/ sec = None THEN [ok |-> FALSE] ELSE [ok |-> TRUE, id |-> id, secret |-> sec]
RECURSIVE Keys(_, _, _)
Keys(c, id, sec) ==
  IF c = <<>> THEN Finish(id, sec)
  ELSE LET n == Piece(c)
           piece == SubSeq(c, 1, n)
           rest == SubSeq(c, n + 1, Len(c))
           cut == First(piece, LAMBDA b : b = CR \/ b = LF)
       IN IF cut = 0 THEN Finish(id, sec)                                   \* "Missing EOL": stop reading
          ELSE LET line == SubSeq(piece, 1, cut - 1)
                   eq == First(line, LAMBDA b : b = 61)
                   name == SubSeq(line, 1, eq - 1)
                   val == SubSeq(line, eq + 1, Len(line))
               IN IF eq = 0 THEN [ok |-> FALSE]
                  ELSE IF name = IdName THEN (IF id # None THEN [ok |-> FALSE] ELSE Keys(rest, val, sec))
                  ELSE IF name = SecretName THEN (IF sec # None THEN [ok |-> FALSE] ELSE Keys(rest, id, val))
                  ELSE [ok |-> FALSE]
ReadKeys(c) == Keys(c, None, None)

\* the passphrase file; Documented(c) is the domain the header describes (CR only as part of a final CR LF)
Documented(c) == \A i \in 1..Len(c) : c[i] = CR => (i = Len(c) - 1 /\ c[Len(c)] = LF)
ReadPass(c) == LET nl == First(c, LAMBDA b : b = LF)
               IN IF Len(c) >= 2048 \/ (nl # 0 /\ nl # Len(c)) THEN [ok |-> FALSE]
                  ELSE LET cut == First(c, LAMBDA b : b = CR \/ b = LF)
                       IN [ok |-> TRUE, pw |-> IF cut = 0 THEN c ELSE SubSeq(c, 1, cut - 1)]
=============================================================================
