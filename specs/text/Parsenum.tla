------------------------------ MODULE Parsenum ------------------------------
(***************************************************************************)
(* Property C16, integer part: what PARSENUM / PARSENUM_EX must answer for  *)
(* a string, a target type, bounds, a base and the trailing flag -- the     *)
(* grammar  ws* sign? prefix? digit+  per base (0 = C prefix rules), the    *)
(* value as an exact natural number (BigNat), and the verdict               *)
(* OK(value) / EINVAL / ERANGE exactly as the statement reads: the value    *)
(* must lie in the requested bounds AND in the type; a negative numeral     *)
(* with non-zero value is out of range for every unsigned type.             *)
(* Strings are tuples of character codes.                                   *)
(***************************************************************************)
EXTENDS BigNat
WS == {32, 9, 10, 11, 12, 13}
DigitVal(c) == IF c >= 48 /\ c <= 57 THEN c - 48 ELSE IF c >= 97 /\ c <= 122 THEN c - 87 ELSE IF c >= 65 /\ c <= 90 THEN c - 55 ELSE 99
RECURSIVE SkipWs(_, _)
SkipWs(s, i) == IF i <= Len(s) /\ s[i] \in WS THEN SkipWs(s, i + 1) ELSE i
RECURSIVE DigitsEnd(_, _, _)
DigitsEnd(s, i, b) == IF i <= Len(s) /\ DigitVal(s[i]) < b THEN DigitsEnd(s, i + 1, b) ELSE i
RECURSIVE SkipZeros(_, _, _)
SkipZeros(s, i, e) == IF i < e /\ s[i] = 48 THEN SkipZeros(s, i + 1, e) ELSE i
\* result: [ok, neg, mag, endpos]
Scan(s, base) ==
  LET i0 == SkipWs(s, 1)
      neg == i0 <= Len(s) /\ s[i0] = 45
      i1 == IF i0 <= Len(s) /\ s[i0] \in {43, 45} THEN i0 + 1 ELSE i0
      hexp == (base = 0 \/ base = 16) /\ i1 + 2 <= Len(s) /\ s[i1] = 48 /\ s[i1 + 1] \in {120, 88} /\ DigitVal(s[i1 + 2]) < 16
      b == IF hexp THEN 16 ELSE IF base = 0 THEN (IF i1 <= Len(s) /\ s[i1] = 48 THEN 8 ELSE 10) ELSE base
      i2 == IF hexp THEN i1 + 2 ELSE i1
      i3 == DigitsEnd(s, i2, b)
      iz == SkipZeros(s, i2, i3)                     \* leading zeros do not matter
      \* more than 70 significant digits in any base is beyond 2^64: no need for the exact magnitude
      mag == IF i3 - iz > 70 THEN Pow2(80) ELSE FromDigits([k \in 1..(i3 - iz) |-> DigitVal(s[iz + k - 1])], b, <<>>)
  IN [ok |-> i3 > i2, neg |-> neg, mag |-> mag, endpos |-> i3]
\* signed comparison of [neg, mag] pairs
SLeq(xn, xm, yn, ym) == IF xn /\ ~yn THEN TRUE ELSE IF ~xn /\ yn THEN (xm = <<>> /\ ym = <<>>) ELSE IF ~xn THEN Leq(xm, ym) ELSE Leq(ym, xm)
InRange(neg, mag, lo, hi) == SLeq(lo.neg, lo.mag, neg, mag) /\ SLeq(neg, mag, hi.neg, hi.mag)
TypeLo(t) == IF t.signed THEN [neg |-> TRUE, mag |-> Pow2(t.bits - 1)] ELSE [neg |-> FALSE, mag |-> <<>>]
TypeHi(t) == [neg |-> FALSE, mag |-> Sub1(Pow2(IF t.signed THEN t.bits - 1 ELSE t.bits))]
Expect(s, t, lo, hi, base, trailing) ==
  LET r == Scan(s, base) IN
  IF ~r.ok \/ (~trailing /\ r.endpos <= Len(s)) THEN <<"EINVAL">>
  ELSE LET neg == r.neg /\ r.mag # <<>> IN
       IF InRange(neg, r.mag, lo, hi) /\ InRange(neg, r.mag, TypeLo(t), TypeHi(t)) THEN <<"OK", neg, r.mag>> ELSE <<"ERANGE">>
=============================================================================
