SPECIFICATION Spec
CONSTANTS MAXB = 4
          MAXE = 4
          KIND = "text"
INVARIANT Emit
CHECK_DEADLOCK FALSE
