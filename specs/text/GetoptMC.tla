------------------------------ MODULE GetoptMC ------------------------------
(***************************************************************************)
(* Every argument vector of length <= MAXLEN over the token alphabet, for   *)
(* each option table: the parse as a state machine (one getopt() call per   *)
(* step).  Checks that the grammar is well defined (terminates, the operand *)
(* index stays in range, an option argument is never itself parsed) and     *)
(* prints every vector as a test case for the real parser.                  *)
(***************************************************************************)
EXTENDS Getopt, TLC, Json
CONSTANTS MAXLEN, TABLE
Tokens == {S("-a"), S("-b"), S("-f"), S("-fx"), S("-abf"), S("-afb"), S("-z"), S("-az"), S("--foo"), S("--foo=v"), S("--foo="),
           S("--foobar"), S("--foobar=v"), S("--fo"), S("--bar"), S("--b"), S("--b=--"), S("--long-opt=1"), S("--long"), S("-xa"), S("-ax"),
           S("--"), S("-"), <<>>, S("op"), S("--x"), S("--=v"),
           S("-f=v"), S("-bf="), S("-b="),
           S("-a-b"), S("-a-"), S("-a--fx")}     \* ('-' inside a pack is an option character like any other: an unknown option)       \* (an attached argument may begin with '='; '=' after an option without argument is an unknown option)
VARIABLES argv, i, k, calls
vars == <<argv, i, k, calls>>
T == Tables[TABLE]
Vectors == UNION {[1..n -> Tokens] : n \in 0..MAXLEN}
Init == argv \in Vectors /\ i = 1 /\ k = 0 /\ calls = 0
Next == /\ ~Step(T, argv, i, k).done
        /\ LET r == Step(T, argv, i, k) IN i' = r.i /\ k' = r.k
        /\ calls' = calls + 1 /\ UNCHANGED argv
Spec == Init /\ [][Next]_vars
InRange == i >= 1 /\ i <= Len(argv) + 1 /\ (k = 0 \/ (i <= Len(argv) /\ k >= 2 /\ k <= Len(argv[i])))
Terminates == calls <= MAXLEN * 6
Emit == (i = 1 /\ k = 0 /\ calls = 0) => PrintT(<<"CASE", ToJson([t |-> TABLE, argv |-> argv])>>)
=============================================================================
