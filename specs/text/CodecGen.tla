------------------------------- MODULE CodecGen -------------------------------
(* Exhaustive input spaces of C17 / C15, enumerated by TLC: every byte string of length <= 2 over all 256 byte values is too
   large to print usefully, so the spaces are: all byte strings of length <= MAXB over a reduced byte alphabet, and ALL
   candidate encodings of length <= MAXE over a reduced text alphabet (acceptance must be exact). *)
EXTENDS Naturals, Sequences, TLC, Json, VPrims
CONSTANTS MAXB, MAXE, KIND
VARIABLE x
BAlpha == {0, 1, 127, 128, 255, 65, 97}
EAlpha == StrBytes("Aa9+/=Zz-_ \n") \o <<0, 200>>
ESet == {EAlpha[i] : i \in 1..Len(EAlpha)}
\* hostile alphabets of C15: JSON structure characters, address punctuation
JAlpha == StrBytes("{}[]\"\\,:au1 ")
AAlpha == StrBytes("[]:/.1af")
SetOf(t) == {t[i] : i \in 1..Len(t)}
Alphabet == CASE KIND = "bytes" -> BAlpha [] KIND = "text" -> ESet [] KIND = "json" -> SetOf(JAlpha) [] OTHER -> SetOf(AAlpha)
Init == x \in UNION {[1..n -> Alphabet] : n \in 0..(IF KIND = "bytes" THEN MAXB ELSE MAXE)}
Spec == Init /\ [][UNCHANGED x]_x
Emit == PrintT(<<"CASE", ToJson(x)>>)
=============================================================================
