SPECIFICATION Spec
CONSTANTS TYPES = {"u8", "u32", "u64", "size", "i8", "i32", "imax"}
          BASES = {0, 16}
INVARIANT Emit
CHECK_DEADLOCK FALSE
