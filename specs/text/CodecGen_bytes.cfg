SPECIFICATION Spec
CONSTANTS MAXB = 4
          MAXE = 4
          KIND = "bytes"
INVARIANT Emit
CHECK_DEADLOCK FALSE
