SPECIFICATION Spec
CONSTANTS MAXLEN = 4
          TABLE = 3
INVARIANTS InRange Terminates Emit
CHECK_DEADLOCK FALSE
