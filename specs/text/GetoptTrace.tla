----------------------------- MODULE GetoptTrace -----------------------------
(* Trace validation of util/getopt.c (C18): every getopt() call of every parse must be the step the documented
   grammar (Getopt.tla) defines, whether the parse is the first one of the process or follows an optreset
   (possibly after an abandoned parse); the index of the first operand must be right at the end. *)
EXTENDS TraceBase, Getopt
VARIABLES T, argv, i, k, active
vars == <<l, T, argv, i, k, active>>
Init == l = 1 /\ T = Tables[1] /\ argv = <<>> /\ i = 1 /\ k = 0 /\ active = FALSE
TReset == IsEvent("reset") /\ active' = FALSE /\ UNCHANGED <<T, argv, i, k>>
TBegin == /\ IsEvent("go_begin") /\ ~active /\ active' = TRUE /\ T' = Tables[Ev.t]
          /\ argv' = [j \in 1..Len(Ev.argv) |-> BytesOf(Ev.argv[j])] /\ i' = 1 /\ k' = 0
Arg(a) == IF a = "NULL" THEN NONE ELSE BytesOf(a)
TGo == /\ IsEvent("go") /\ active
       /\ LET r == Step(T, argv, i, k) IN
          /\ ~r.done
          /\ BytesOf(Ev.label) = r.label                  \* the option (or the default / missing-argument path) the grammar defines
          /\ Arg(Ev.arg) = r.arg                          \* with the right argument
          /\ i' = r.i /\ k' = r.k
       /\ UNCHANGED <<T, argv, active>>
TEnd == /\ IsEvent("go_end") /\ active
        /\ LET r == Step(T, argv, i, k) IN r.done /\ Ev.optind = r.i     \* stops where the grammar stops; operand index right
        /\ active' = FALSE /\ UNCHANGED <<T, argv, i, k>>
TAbandoned == IsEvent("go_abandoned") /\ active /\ active' = FALSE /\ UNCHANGED <<T, argv, i, k>>
Next == TReset \/ TBegin \/ TGo \/ TEnd \/ TAbandoned
Spec == Init /\ [][Next]_vars
=============================================================================
