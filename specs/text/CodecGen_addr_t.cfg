SPECIFICATION Spec
CONSTANTS MAXB = 4
          MAXE = 6
          KIND = "addr"
INVARIANT Emit
CHECK_DEADLOCK FALSE
