----------------------------- MODULE ParsenumGen -----------------------------
(***************************************************************************)
(* The structured space of numeric strings of property C16: every            *)
(* combination of leading white space, sign, base prefix, digit class        *)
(* (relative to the target type's limits and to the requested bounds) and    *)
(* trailing junk, for every target type, base and trailing flag, crossed     *)
(* with the shapes of the requested bounds.  TLC enumerates the product;     *)
(* tools/checks/c16.py turns each point into concrete digits.                *)
(***************************************************************************)
EXTENDS Naturals, TLC, Json
CONSTANTS TYPES, BASES
VARIABLE p
WSs == {"none", "sp", "mixed", "vt", "ff"}      \* (every member of the C white-space class on its own, too)
Signs == {"none", "plus", "minus"}
Prefixes == {"none", "zero", "0x", "0X"}
DClasses == {"zero", "one", "small", "tmax-1", "tmax", "tmax+1", "tmin", "tmin-1", "u64max", "u64max+1", "i64max+1", "huge",
             "lo-1", "lo", "hi", "hi+1", "empty"}
Junks == {"none", "sp", "letter", "comma"}
BoundShapes == {"type", "narrow", "straddle", "negative", "inverted"}
Init == p \in [type : TYPES, base : BASES, trailing : BOOLEAN, ws : WSs, sign : Signs, prefix : Prefixes, digits : DClasses,
               junk : Junks, bounds : BoundShapes]
Next == UNCHANGED p
Spec == Init /\ [][Next]_p
Emit == PrintT(<<"CASE", ToJson(p)>>)
=============================================================================
