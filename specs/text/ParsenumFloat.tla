---------------------------- MODULE ParsenumFloat ----------------------------
(***************************************************************************)
(* Property C16, floating-point part.  A numeral denotes the exact rational *)
(* N * 10^p10 * 2^p2 (N a decimal string; big-integer arithmetic through    *)
(* the Dec* primitives).  A result x = M * 2^E (M the integer significand   *)
(* with 53 or 24 bits) is right when it is within half a unit in the last   *)
(* place of that rational (double), or strictly within one unit (float:     *)
(* the value goes through a double first).  Normal range only.              *)
(***************************************************************************)
EXTENDS Naturals, Integers, Sequences, VPrims
WS == {32, 9, 10, 11, 12, 13}
Lower(c) == IF c >= 65 /\ c <= 90 THEN c + 32 ELSE c
IsDigit(c) == c >= 48 /\ c <= 57
HexVal(c) == IF IsDigit(c) THEN c - 48 ELSE IF Lower(c) >= 97 /\ Lower(c) <= 102 THEN Lower(c) - 87 ELSE 99
RECURSIVE SkipWs(_, _)
SkipWs(s, i) == IF i <= Len(s) /\ s[i] \in WS THEN SkipWs(s, i + 1) ELSE i
RECURSIVE RunEnd(_, _, _)      \* end of the run of characters c with P(c) starting at i (hex = TRUE: hex digits)
RunEnd(s, i, hex) == IF i <= Len(s) /\ (IF hex THEN HexVal(s[i]) < 16 ELSE IsDigit(s[i])) THEN RunEnd(s, i + 1, hex) ELSE i
MatchWord(s, i, w) == i + Len(w) - 1 <= Len(s) /\ \A k \in 1..Len(w) : Lower(s[i + k - 1]) = w[k]
\* digits s[a..b) as a decimal string (hex = TRUE: hexadecimal digits converted)
RECURSIVE DigitsDec(_, _, _, _, _)
DigitsDec(s, a, b, hex, acc) == IF a >= b THEN acc
                                ELSE DigitsDec(s, a + 1, b, hex, DecAdd(DecMul(acc, IF hex THEN "16" ELSE "10"), ToString(HexVal(s[a]))))
RECURSIVE SmallNum(_, _, _, _)
SmallNum(s, a, b, acc) == IF a >= b THEN acc ELSE SmallNum(s, a + 1, b, IF acc > 100000 THEN acc ELSE acc * 10 + (s[a] - 48))
\* [ok, kind, neg, n, p10, p2, endpos]
ScanF(s) ==
  LET i0 == SkipWs(s, 1)
      neg == i0 <= Len(s) /\ s[i0] = 45
      i1 == IF i0 <= Len(s) /\ s[i0] \in {43, 45} THEN i0 + 1 ELSE i0
      R(ok, kind, n, p10, p2, e) == [ok |-> ok, kind |-> kind, neg |-> neg, n |-> n, p10 |-> p10, p2 |-> p2, endpos |-> e]
  IN IF MatchWord(s, i1, StrBytes("infinity")) THEN R(TRUE, "inf", "0", 0, 0, i1 + 8)
     ELSE IF MatchWord(s, i1, StrBytes("inf")) THEN R(TRUE, "inf", "0", 0, 0, i1 + 3)
     ELSE IF MatchWord(s, i1, StrBytes("nan")) THEN R(TRUE, "nan", "0", 0, 0, i1 + 3)
     ELSE LET hex == i1 + 1 <= Len(s) /\ s[i1] = 48 /\ Lower(s[i1 + 1]) = 120
                     /\ (i1 + 2 <= Len(s) /\ (HexVal(s[i1 + 2]) < 16 \/ (s[i1 + 2] = 46 /\ i1 + 3 <= Len(s) /\ HexVal(s[i1 + 3]) < 16)))
              a == IF hex THEN i1 + 2 ELSE i1
              b == RunEnd(s, a, hex)                                     \* integer digits [a, b)
              dot == b <= Len(s) /\ s[b] = 46
              c == IF dot THEN RunEnd(s, b + 1, hex) ELSE b                  \* fraction digits [b+1, c)
              nint == b - a
              nfrac == IF dot THEN c - (b + 1) ELSE 0
              mant == DecAdd(DecMul(DigitsDec(s, a, b, hex, "0"), DecPow(IF hex THEN "16" ELSE "10", nfrac)),
                             IF dot THEN DigitsDec(s, b + 1, c, hex, "0") ELSE "0")
              echar == IF hex THEN 112 ELSE 101
              hase == c <= Len(s) /\ Lower(s[c]) = echar
                      /\ LET j == IF c + 1 <= Len(s) /\ s[c + 1] \in {43, 45} THEN c + 2 ELSE c + 1 IN j <= Len(s) /\ IsDigit(s[j])
              eneg == hase /\ s[c + 1] = 45
              ea == IF hase THEN (IF s[c + 1] \in {43, 45} THEN c + 2 ELSE c + 1) ELSE c
              eb == IF hase THEN RunEnd(s, ea, FALSE) ELSE c
              ev == IF hase THEN (IF eneg THEN 0 - SmallNum(s, ea, eb, 0) ELSE SmallNum(s, ea, eb, 0)) ELSE 0
          IN IF nint + nfrac = 0 THEN R(FALSE, "num", "0", 0, 0, i1)
             ELSE IF hex THEN R(TRUE, "num", mant, 0, ev - 4 * nfrac, eb)
             ELSE R(TRUE, "num", mant, ev - nfrac, 0, eb)
\* sign of  N * 10^p10 * 2^p2  -  M * 2^E  scaled to integers; all operands decimal strings
P10(k) == DecPow("10", k)
P2(k) == DecPow("2", k)
\* compare |v - x| with 2^(E - 1) (half) or 2^E (whole): returns the Dec comparison of 2*|v - x| against 2^E resp. 2^(E+1)
ErrCmp(n, p10, p2, m, E, whole) ==
  LET s10 == IF p10 < 0 THEN 0 - p10 ELSE 0           \* multiply everything by 10^s10
      lo2 == IF p2 < E - 1 THEN p2 ELSE E - 1         \* and divide by 2^lo2 (the least power of two around)
      V == DecMul(DecMul(n, P10(IF p10 > 0 THEN p10 ELSE 0)), P2(p2 - lo2))
      X == DecMul(DecMul(m, P10(s10)), P2(E - lo2))
      H == DecMul(P10(s10), P2((IF whole THEN E ELSE E - 1) - lo2))
  IN DecCmp(DecAbs(DecSub(V, X)), H)
\* value against an integer bound B (decimal string, possibly negative): sign of v - B
ValCmp(neg, n, p10, p2, B) ==
  LET sv == IF neg THEN DecSub("0", n) ELSE n
      s10 == IF p10 < 0 THEN 0 - p10 ELSE 0
      s2 == IF p2 < 0 THEN 0 - p2 ELSE 0
      V == DecMul(DecMul(sv, P10(IF p10 > 0 THEN p10 ELSE 0)), P2(IF p2 > 0 THEN p2 ELSE 0))
      BB == DecMul(DecMul(B, P10(s10)), P2(s2))
  IN DecCmp(V, BB)
=============================================================================
