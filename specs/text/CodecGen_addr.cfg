SPECIFICATION Spec
CONSTANTS MAXB = 4
          MAXE = 5
          KIND = "addr"
INVARIANT Emit
CHECK_DEADLOCK FALSE
