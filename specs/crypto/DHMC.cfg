SPECIFICATION Spec
CONSTANTS PP = 23
          OFF = 16
INVARIANTS Agreement BlindingIndependent
CHECK_DEADLOCK FALSE
