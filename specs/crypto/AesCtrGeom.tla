------------------------------ MODULE AesCtrGeom ------------------------------
(***************************************************************************)
(* The counter logic of crypto/crypto_aesctr*.c (AesCtrImpl.tla) with the   *)
(* real constants (16-byte blocks, low counter byte wrapping at 256) over   *)
(* unbounded integers, one action per cipher block, for Apalache: the       *)
(* counter encoded in the stream object always names the block the stream   *)
(* position lies in (or the one just finished), for EVERY position and      *)
(* every mix of portable single blocks, accelerated runs of whole blocks    *)
(* and partial calls.  (The 2^64 wrap of the block index is not modelled.)  *)
(*   apalache-mc check --init=Init    --inv=IndInv --length=0               *)
(*   apalache-mc check --init=IndInit --inv=IndInv --length=1               *)
(***************************************************************************)
EXTENDS Integers
BLK == 16
WRAP == 256
VARIABLES
  \* @type: Int;
  bytectr,      \* stream position
  \* @type: Int;
  hi,           \* the counter in pblk, bytes above the lowest one
  \* @type: Int;
  lo,           \* the lowest counter byte
  \* @type: Int;
  bufctr,       \* block index the buffered cipher block was made from (-1: none)
  \* @type: Int;
  lastks        \* ghost: block index that produced the most recent keystream byte (-1: none yet)
Init == bytectr = 0 /\ hi = 0 /\ lo = WRAP - 1 /\ bufctr = -1 /\ lastks = -1
\* portable path, at a block boundary: crypto_aesctr_stream_cipherblock_generate, then m <= BLK bytes are used
GenAndUse(m) ==
  /\ bytectr % BLK = 0 /\ m >= 1 /\ m <= BLK
  /\ LET l1 == (lo + 1) % WRAP
         idx == bytectr \div BLK
     IN IF l1 = 0 THEN hi' = idx \div WRAP /\ lo' = idx % WRAP /\ bufctr' = idx
        ELSE hi' = hi /\ lo' = l1 /\ bufctr' = hi * WRAP + l1
  /\ lastks' = bufctr' /\ bytectr' = bytectr + m
\* portable path inside a block: bytes from the buffered cipher block
UseBuffered(m) ==
  /\ bytectr % BLK # 0 /\ m >= 1 /\ m <= BLK - (bytectr % BLK)
  /\ lastks' = bufctr /\ bytectr' = bytectr + m /\ UNCHANGED <<hi, lo, bufctr>>
\* accelerated path, at a block boundary: nb whole blocks straight from the position; the last counter is written back
AccelRun(nb) ==
  /\ bytectr % BLK = 0 /\ nb >= 1
  /\ LET lastc == (bytectr \div BLK) + nb - 1
     IN hi' = lastc \div WRAP /\ lo' = lastc % WRAP /\ lastks' = lastc
  /\ bytectr' = bytectr + nb * BLK /\ UNCHANGED bufctr
Reinit == bytectr' = 0 /\ hi' = 0 /\ lo' = WRAP - 1 /\ bufctr' = -1 /\ lastks' = -1
Next == (\E m \in Int : GenAndUse(m) \/ UseBuffered(m)) \/ (\E nb \in Int : AccelRun(nb)) \/ Reinit
\* the byte just produced came from the block its position lies in (C02: keystream taken in order)
InOrder == bytectr > 0 => lastks = (bytectr - 1) \div BLK
\* the counter in the object names the block of the last byte produced; inside a block the buffered cipher block is that block's
Encoded == /\ 0 <= lo /\ lo < WRAP /\ hi >= 0 /\ bytectr >= 0
           /\ IF bytectr = 0 THEN hi = 0 /\ lo = WRAP - 1
              ELSE hi * WRAP + lo = (bytectr - 1) \div BLK
           /\ (bytectr % BLK # 0) => bufctr = bytectr \div BLK
IndInv == InOrder /\ Encoded
IndInit == bytectr \in Int /\ hi \in Int /\ lo \in Int /\ bufctr \in Int /\ lastks \in Int /\ IndInv
=============================================================================
