CONSTANT N = 100
INIT Init
NEXT Next
INVARIANT Agree
