------------------------------ MODULE HashStream ------------------------------
(***************************************************************************)
(* The buffering logic shared by SHA256_Update / SHA1_Update / MD5_Update   *)
(* and the padding of *_Final, scaled to block size B: every partition of   *)
(* every message of length <= MAXMSG into update calls is a behaviour;      *)
(* message bytes are their own indices, pad bytes are -1 (0x80), 0 and -2   *)
(* (a byte of the length field).  Invariants: the blocks handed to the      *)
(* compression function are exactly the complete blocks of the message so   *)
(* far, and at Final those of the padded message (padding stated            *)
(* independently of the buffering).                                         *)
(***************************************************************************)
EXTENDS Naturals, Integers, Sequences
CONSTANTS B, LENF, MAXMSG
VARIABLES count, buf, blocks, final
vars == <<count, buf, blocks, final>>
Msg(n) == [i \in 1..n |-> i]
Init == count = 0 /\ buf = <<>> /\ blocks = <<>> /\ final = FALSE
RECURSIVE Whole(_, _)
Whole(src, acc) == IF Len(src) >= B THEN Whole(SubSeq(src, B + 1, Len(src)), Append(acc, SubSeq(src, 1, B))) ELSE <<acc, src>>
Update(len) ==
  /\ ~final /\ count + len <= MAXMSG
  /\ LET src == [i \in 1..len |-> count + i]  r == Len(buf) IN
     IF len = 0 THEN UNCHANGED <<count, buf, blocks>>
     ELSE /\ count' = count + len
          /\ IF len < B - r THEN buf' = buf \o src /\ UNCHANGED blocks
             ELSE LET first == buf \o SubSeq(src, 1, B - r)
                      w == Whole(SubSeq(src, B - r + 1, len), Append(blocks, first))
                  IN blocks' = w[1] /\ buf' = w[2]
  /\ UNCHANGED final
Final ==
  /\ ~final /\ final' = TRUE
  /\ LET r == Len(buf)  lenw == [i \in 1..LENF |-> -2]
     IN IF r < B - LENF
        THEN blocks' = Append(blocks, buf \o <<-1>> \o [i \in 1..(B - LENF - r - 1) |-> 0] \o lenw)
        ELSE blocks' = blocks \o << buf \o <<-1>> \o [i \in 1..(B - r - 1) |-> 0], [i \in 1..(B - LENF) |-> 0] \o lenw >>
  /\ UNCHANGED <<count, buf>>
Next == (\E len \in 0..MAXMSG : Update(len)) \/ Final
Spec == Init /\ [][Next]_vars
Padded(n) == LET z == (B - ((n + 1 + LENF) % B)) % B IN Msg(n) \o <<-1>> \o [i \in 1..z |-> 0] \o [i \in 1..LENF |-> -2]
RECURSIVE Flat(_)
Flat(bs) == IF bs = <<>> THEN <<>> ELSE Head(bs) \o Flat(Tail(bs))
BufInv == Len(buf) = (count % B) /\ buf = SubSeq(Msg(count), count - (count % B) + 1, count)
BlocksInv == ~final => Flat(blocks) = SubSeq(Msg(count), 1, count - (count % B))
FinalInv == final => Flat(blocks) = Padded(count)
=============================================================================
