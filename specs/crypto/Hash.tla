--------------------------------- MODULE Hash ---------------------------------
(***************************************************************************)
(* Property C01 above the compression functions: HMAC (RFC 2104) over       *)
(* SHA-256 / SHA-1 / MD5, PBKDF2-HMAC-SHA256 (RFC 8018) and the algebraic   *)
(* meaning of CRC32C, as TLA+ definitions over byte tuples.  The digests    *)
(* themselves are the primitives SHA256 / SHA1 / MD5 of VPrims (JDK);       *)
(* SHA-256 is additionally transcribed in Sha256Ref.tla and cross-checked.  *)
(***************************************************************************)
EXTENDS Naturals, Integers, Sequences, VPrims
Rep(b, n) == [i \in 1..n |-> b]
Digest(alg, m) == CASE alg = "sha256" -> SHA256(m) [] alg = "sha1" -> SHA1(m) [] OTHER -> MD5(m)
\* RFC 2104, block size 64 for all three
Hmac(alg, K, m) == LET k0 == IF Len(K) > 64 THEN Digest(alg, K) \o Rep(0, 64 - Len(Digest(alg, K))) ELSE K \o Rep(0, 64 - Len(K))
                   IN Digest(alg, XorBytes(k0, Rep(92, 64)) \o Digest(alg, XorBytes(k0, Rep(54, 64)) \o m))
\* RFC 8018 section 5.2 with PRF = HMAC-SHA256
Int4(i) == <<(i \div 16777216) % 256, (i \div 65536) % 256, (i \div 256) % 256, i % 256>>
RECURSIVE FIter(_, _, _, _)
FIter(P, u, acc, c) == IF c = 0 THEN acc ELSE LET u1 == Hmac("sha256", P, u) IN FIter(P, u1, XorBytes(acc, u1), c - 1)
F(P, S, c, i) == LET u1 == Hmac("sha256", P, S \o Int4(i)) IN FIter(P, u1, u1, c - 1)
RECURSIVE Blocks(_, _, _, _, _)
Blocks(P, S, c, i, n) == IF i > n THEN <<>> ELSE F(P, S, c, i) \o Blocks(P, S, c, i + 1, n)
Pbkdf2(P, S, c, dkLen) == SubSeq(Blocks(P, S, c, 1, (dkLen + 31) \div 32), 1, dkLen)
\* CRC32C: the bit string 1 || data || crc (least significant bit of each byte first) is a multiple of 0x11EDC6F41
Poly32 == <<0,0,0,1,1,1,1,0, 1,1,0,1,1,1,0,0, 0,1,1,0,1,1,1,1, 0,1,0,0,0,0,0,1>>       \* 0x1EDC6F41, most significant bit first
BitsLSB(b) == [k \in 1..8 |-> (b \div (2 ^ (k - 1))) % 2]
RECURSIVE AllBits(_)
AllBits(bs) == IF bs = <<>> THEN <<>> ELSE BitsLSB(Head(bs)) \o AllBits(Tail(bs))
RECURSIVE Rem(_, _, _)
Rem(r, bits, i) == IF i > Len(bits) THEN r
                   ELSE LET top == r[1]
                            sh == Tail(r) \o <<bits[i]>>
                        IN Rem(IF top = 1 THEN [k \in 1..32 |-> (sh[k] + Poly32[k]) % 2] ELSE sh, bits, i + 1)
CrcOK(data, crc) == Rem(Rep(0, 32), <<1>> \o AllBits(data \o crc), 1) = Rep(0, 32)
=============================================================================
