----------------------------- MODULE Sha256RefMC -----------------------------
(***************************************************************************)
(* Cross-check of the plain-TLA+ SHA-256 against the JDK primitive used by  *)
(* the trace specifications, on the FIPS 180-4 example messages and on      *)
(* every length 0..LMAX of three byte patterns (covers every padding case:  *)
(* 55/56/63/64 mod 64 and one, two and three blocks).                       *)
(***************************************************************************)
EXTENDS Sha256Ref, VPrims, TLC
CONSTANT LMAX
VARIABLES n, pat
Msg(len, p) == [i \in 1..len |-> CASE p = 0 -> 0 [] p = 1 -> 255 [] OTHER -> (i * 131 + len * 7 + 89) % 256]
Init == n \in 0..LMAX /\ pat \in 0..2
Next == UNCHANGED <<n, pat>>
Agree == Sha256Ref(Msg(n, pat)) = SHA256(Msg(n, pat))
Abc == HexOf(Sha256Ref(StrBytes("abc"))) = "ba7816bf8f01cfea414140de5dae2223b00361a396177a9cb410ff61f20015ad"
Two == HexOf(Sha256Ref(StrBytes("abcdbcdecdefdefgefghfghighijhijkijkljklmklmnlmnomnopnopq")))
         = "248d6a61d20638b8e5c026930c3e6039a33ce45964ff2167f6ecedd419db06c1"
ASSUME Abc /\ Two
=============================================================================
