SPECIFICATION Spec
CONSTANTS BLK = 2
          WRAP = 3
          MAXBYTES = 16
          ACCEL = {TRUE, FALSE}
INVARIANTS KeystreamInOrder Position
CHECK_DEADLOCK FALSE
