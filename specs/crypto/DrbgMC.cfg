SPECIFICATION Spec
CONSTANTS INTERVAL = 3
          MAXLEN = 4
          MAXREQ = 9
INVARIANTS NeverUnseeded NeverStale FailureFails
CHECK_DEADLOCK FALSE
