SPECIFICATION Spec
CONSTANTS B = 8
          LENF = 2
          MAXMSG = 20
INVARIANTS BufInv BlocksInv FinalInv
CHECK_DEADLOCK FALSE
