-------------------------------- MODULE AesRef --------------------------------
(***************************************************************************)
(* FIPS 197 (AES-128 and AES-256 encryption of one block) transcribed in    *)
(* plain TLA+: the field GF(2^8) (section 4), the S-box derived from its    *)
(* definition (5.1.1: multiplicative inverse, then the affine map), the     *)
(* key expansion (5.2) and the cipher (5.1).  It takes the JDK's Cipher     *)
(* out of the trusted base: AesRefMC compares both, and CryptoTrace uses    *)
(* this definition for the single-block calls of the real code.             *)
(* Bytes are integers 0..255, blocks and keys are tuples of bytes.          *)
(***************************************************************************)
EXTENDS Naturals, Sequences, Bitwise
\* (TLC builds [i \in S |-> e] lazily; Strict turns it into a tuple so that every round is computed once)
Strict(f) == f \o <<>>
\* section 4.2: multiplication by x, and by any polynomial, modulo x^8 + x^4 + x^3 + x + 1
XTime(b) == LET s == 2 * b IN IF s >= 256 THEN (s - 256) ^^ 27 ELSE s
RECURSIVE GMul(_, _)
GMul(a, b) == IF b = 0 THEN 0 ELSE (IF b % 2 = 1 THEN a ELSE 0) ^^ GMul(XTime(a), b \div 2)
\* the multiplicative inverse is x^254 (the group has order 255); 0 is mapped to 0
Sq(x) == GMul(x, x)
Inv(x) == LET x2 == Sq(x)  x4 == Sq(x2)  x8 == Sq(x4)  x16 == Sq(x8)  x32 == Sq(x16)  x64 == Sq(x32)  x128 == Sq(x64)
          IN GMul(GMul(GMul(GMul(GMul(GMul(x128, x64), x32), x16), x8), x4), x2)
RotL8(b, n) == ((b * (2 ^ n)) % 256) + (b \div (2 ^ (8 - n)))
Affine(b) == ((((b ^^ RotL8(b, 1)) ^^ RotL8(b, 2)) ^^ RotL8(b, 3)) ^^ RotL8(b, 4)) ^^ 99
SBoxDef(x) == Affine(Inv(x))
\* the same table written out (TLC would otherwise re-derive it at every use); AesRefMC checks SBox[x] = SBoxDef(x) for every x
SBoxT == <<  99, 124, 119, 123, 242, 107, 111, 197,  48,   1, 103,  43, 254, 215, 171, 118,
           202, 130, 201, 125, 250,  89,  71, 240, 173, 212, 162, 175, 156, 164, 114, 192,
           183, 253, 147,  38,  54,  63, 247, 204,  52, 165, 229, 241, 113, 216,  49,  21,
             4, 199,  35, 195,  24, 150,   5, 154,   7,  18, 128, 226, 235,  39, 178, 117,
             9, 131,  44,  26,  27, 110,  90, 160,  82,  59, 214, 179,  41, 227,  47, 132,
            83, 209,   0, 237,  32, 252, 177,  91, 106, 203, 190,  57,  74,  76,  88, 207,
           208, 239, 170, 251,  67,  77,  51, 133,  69, 249,   2, 127,  80,  60, 159, 168,
            81, 163,  64, 143, 146, 157,  56, 245, 188, 182, 218,  33,  16, 255, 243, 210,
           205,  12,  19, 236,  95, 151,  68,  23, 196, 167, 126,  61, 100,  93,  25, 115,
            96, 129,  79, 220,  34,  42, 144, 136,  70, 238, 184,  20, 222,  94,  11, 219,
           224,  50,  58,  10,  73,   6,  36,  92, 194, 211, 172,  98, 145, 149, 228, 121,
           231, 200,  55, 109, 141, 213,  78, 169, 108,  86, 244, 234, 101, 122, 174,   8,
           186, 120,  37,  46,  28, 166, 180, 198, 232, 221, 116,  31,  75, 189, 139, 138,
           112,  62, 181, 102,  72,   3, 246,  14,  97,  53,  87, 185, 134, 193,  29, 158,
           225, 248, 152,  17, 105, 217, 142, 148, 155,  30, 135, 233, 206,  85,  40, 223,
           140, 161, 137,  13, 191, 230,  66, 104,  65, 153,  45,  15, 176,  84, 187,  22 >>
SBox == [x \in 0..255 |-> SBoxT[x + 1]]
\* section 5.2: key expansion; w is the tuple of words (4-tuples of bytes) built so far
XorT(a, b) == Strict([i \in 1..Len(a) |-> a[i] ^^ b[i]])
SubWord(w) == Strict([i \in 1..4 |-> SBox[w[i]]])
RotWord(w) == <<w[2], w[3], w[4], w[1]>>
RECURSIVE XPow(_)
XPow(i) == IF i = 0 THEN 1 ELSE XTime(XPow(i - 1))
Rcon(i) == <<XPow(i - 1), 0, 0, 0>>
RECURSIVE Expand(_, _, _)
Expand(w, nk, total) ==
  LET i == Len(w)      \* index (from 0) of the word being made
  IN IF i = total THEN w
     ELSE LET prev == w[i]
              t == IF i % nk = 0 THEN XorT(SubWord(RotWord(prev)), Rcon(i \div nk))
                   ELSE IF nk > 6 /\ i % nk = 4 THEN SubWord(prev)
                   ELSE prev
          IN Expand(Append(w, XorT(w[i - nk + 1], t)), nk, total)
KeyWords(key) == LET nk == Len(key) \div 4
                 IN Expand(Strict([i \in 1..nk |-> SubSeq(key, 4 * i - 3, 4 * i)]), nk, 4 * (nk + 7))
\* section 5.1: the state is the 16-tuple in input order, byte (row r, column c) at index r + 4c + 1
At(s, r, c) == s[r + 4 * c + 1]
SubBytes(s) == Strict([i \in 1..16 |-> SBox[s[i]]])
ShiftRows(s) == Strict([i \in 1..16 |-> LET r == (i - 1) % 4  c == (i - 1) \div 4 IN At(s, r, (c + r) % 4)])
MixColumns(s) == Strict([i \in 1..16 |->
  LET r == (i - 1) % 4  c == (i - 1) \div 4
  IN ((GMul(2, At(s, r, c)) ^^ GMul(3, At(s, (r + 1) % 4, c))) ^^ At(s, (r + 2) % 4, c)) ^^ At(s, (r + 3) % 4, c)])
RoundKey(w, rnd) == w[4 * rnd + 1] \o w[4 * rnd + 2] \o w[4 * rnd + 3] \o w[4 * rnd + 4]
RECURSIVE Cipher(_, _, _, _)
Cipher(s, w, rnd, nr) ==
  IF rnd = nr THEN XorT(ShiftRows(SubBytes(s)), RoundKey(w, nr))
  ELSE Cipher(XorT(MixColumns(ShiftRows(SubBytes(s))), RoundKey(w, rnd)), w, rnd + 1, nr)
AesRefEncrypt(key, blk) == LET w == KeyWords(key)
                               nr == (Len(key) \div 4) + 6
                           IN Cipher(XorT(blk, RoundKey(w, 0)), w, 1, nr)
=============================================================================
