--------------------------------- MODULE SigV4 ---------------------------------
(* Property C19: AWS Signature Version 4 as published (canonical request, string to sign, signing-key derivation
   kDate -> kRegion -> kService -> kSigning) for the four request shapes the interface documents; HMAC is the TLA+
   definition of Hash.tla; strings are byte tuples.  The timestamp is derived from the epoch time. *)
EXTENDS Naturals, Integers, Sequences, TLC, VPrims
H == INSTANCE Hash
S(x) == StrBytes(x)
NL == <<10>>
RECURSIVE Cat(_)
Cat(ss) == IF ss = <<>> THEN <<>> ELSE Head(ss) \o Cat(Tail(ss))
Hex(b) == S(HexOf(b))
Hm(K, m) == H!Hmac("sha256", K, m)
\* civil date from days since 1970-01-01 (proleptic Gregorian calendar), t >= 0
Pad2(n) == IF n < 10 THEN StrCat("0", ToString(n)) ELSE ToString(n)
Pad4(n) == IF n < 10 THEN StrCat("000", ToString(n)) ELSE IF n < 100 THEN StrCat("00", ToString(n)) ELSE IF n < 1000 THEN StrCat("0", ToString(n)) ELSE ToString(n)
Civil(days) ==
  LET z == days + 719468
      era == z \div 146097
      doe == z - era * 146097
      yoe == (doe - (doe \div 1460) + (doe \div 36524) - (doe \div 146096)) \div 365
      doy == doe - (365 * yoe + (yoe \div 4) - (yoe \div 100))
      mp == (5 * doy + 2) \div 153
      d == doy - ((153 * mp + 2) \div 5) + 1
      m == IF mp < 10 THEN mp + 3 ELSE mp - 9
      y == yoe + era * 400 + (IF m <= 2 THEN 1 ELSE 0)
  IN <<y, m, d>>
Date(t) == LET c == Civil(DecToInt(DecDiv(t, "86400"))) IN S(StrCat(StrCat(Pad4(c[1]), Pad2(c[2])), Pad2(c[3])))
DateTime(t) == LET s == DecToInt(DecMod(t, "86400")) IN
               Date(t) \o S("T") \o S(StrCat(StrCat(Pad2(s \div 3600), Pad2((s \div 60) % 60)), Pad2(s % 60))) \o S("Z")
SigningKey(secret, date, region, service) == Hm(Hm(Hm(Hm(S("AWS4") \o secret, date), region), service), S("aws4_request"))
Sign(secret, date, datetime, region, service, creq) ==
  Hex(Hm(SigningKey(secret, date, region, service),
      Cat(<< S("AWS4-HMAC-SHA256"), NL, datetime, NL, date, S("/"), region, S("/"), service, S("/aws4_request"), NL, Hex(SHA256(creq)) >>)))
Auth(keyid, date, region, service, signed, sig) ==
  Cat(<< S("AWS4-HMAC-SHA256 Credential="), keyid, S("/"), date, S("/"), region, S("/"), service, S("/aws4_request,SignedHeaders="), signed, S(",Signature="), sig >>)
\* the three header variants: host, extra canonical header lines (already name:value\n), list of signed header names
HeaderCreq(method, path, host, ch, dt, extra, signed) ==
  Cat(<< method, NL, path, NL, NL, S("host:"), host, NL, S("x-amz-content-sha256:"), ch, NL, S("x-amz-date:"), dt, NL >>) \o extra \o
  Cat(<< NL, signed, NL, ch >>)
S3Headers(keyid, secret, region, method, bucket, path, body, t) ==
  LET dt == DateTime(t)  d == Date(t)  ch == Hex(SHA256(body))  signed == S("host;x-amz-content-sha256;x-amz-date")
      creq == HeaderCreq(method, path, bucket \o S(".s3.amazonaws.com"), ch, dt, <<>>, signed)
  IN [sha |-> ch, date |-> dt, auth |-> Auth(keyid, d, region, S("s3"), signed, Sign(secret, d, dt, region, S("s3"), creq))]
SvcHeaders(keyid, secret, region, svc, body, t) ==
  LET dt == DateTime(t)  d == Date(t)  ch == Hex(SHA256(body))  signed == S("host;x-amz-content-sha256;x-amz-date")
      creq == HeaderCreq(S("POST"), S("/"), Cat(<<svc, S("."), region, S(".amazonaws.com")>>), ch, dt, <<>>, signed)
  IN [sha |-> ch, date |-> dt, auth |-> Auth(keyid, d, region, svc, signed, Sign(secret, d, dt, region, svc, creq))]
DdbHeaders(keyid, secret, region, op, body, t) ==
  LET dt == DateTime(t)  d == Date(t)  ch == Hex(SHA256(body))  signed == S("host;x-amz-content-sha256;x-amz-date;x-amz-target")
      creq == HeaderCreq(S("POST"), S("/"), Cat(<<S("dynamodb."), region, S(".amazonaws.com")>>), ch, dt,
                         Cat(<<S("x-amz-target:DynamoDB_20120810."), op, NL>>), signed)
  IN [sha |-> ch, date |-> dt, auth |-> Auth(keyid, d, region, S("dynamodb"), signed, Sign(secret, d, dt, region, S("dynamodb"), creq))]
S3Query(keyid, secret, region, method, bucket, path, expiry, t) ==
  LET dt == DateTime(t)  d == Date(t)
      q == Cat(<< S("X-Amz-Algorithm=AWS4-HMAC-SHA256&X-Amz-Credential="), keyid, S("%2F"), d, S("%2F"), region, S("%2Fs3%2Faws4_request&X-Amz-Date="), dt,
                  S("&X-Amz-Expires="), S(ToString(expiry)), S("&X-Amz-SignedHeaders=host") >>)
      creq == Cat(<< method, NL, path, NL, q, NL, S("host:"), bucket, S(".s3.amazonaws.com"), NL, NL, S("host"), NL, S("UNSIGNED-PAYLOAD") >>)
  IN q \o S("&X-Amz-Signature=") \o Sign(secret, d, dt, region, S("s3"), creq)
=============================================================================
