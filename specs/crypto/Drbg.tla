--------------------------------- MODULE Drbg ---------------------------------
(* Property C11: NIST SP 800-90A HMAC_DRBG with SHA-256 (no personalisation, no additional input) as the library's
   random generator uses it: instantiate from 48 bytes on first use, generate calls of at most 65536 bytes, reseed with
   32 bytes once 256 generate calls have been made.  HMAC is the TLA+ definition of Hash.tla. *)
EXTENDS Naturals, Integers, Sequences, VPrims
H == INSTANCE Hash
RESEED_INTERVAL == 256
MAXLEN == 65536
Rep(b, n) == [i \in 1..n |-> b]
Hm(K, m) == H!Hmac("sha256", K, m)
Update(st, data) ==
  LET K1 == Hm(st.K, st.V \o <<0>> \o data)  V1 == Hm(K1, st.V) IN
  IF data = <<>> THEN [st EXCEPT !.K = K1, !.V = V1]
  ELSE LET K2 == Hm(K1, V1 \o <<1>> \o data) IN [st EXCEPT !.K = K2, !.V = Hm(K2, V1)]
RECURSIVE GenBlocks(_, _, _, _)
GenBlocks(K, V, need, acc) == IF need <= 0 THEN <<V, acc>> ELSE LET V1 == Hm(K, V) IN GenBlocks(K, V1, need - 32, acc \o V1)
Generate(st, n) == LET b == GenBlocks(st.K, st.V, n, <<>>)
                       st1 == Update([st EXCEPT !.V = b[1]], <<>>)
                   IN <<[st1 EXCEPT !.rc = @ + 1], SubSeq(b[2], 1, n)>>
Fresh == [K |-> Rep(0, 32), V |-> Rep(1, 32), rc |-> 0]
\* one crypto_entropy_read(n) call against the entropy answers e (sequence of [ok, bytes]) obtained during it:
\* returns <<state, instantiated, output, rc, answers used>>;  rc = -2: the model needed entropy that was not asked for
RECURSIVE Serve(_, _, _, _, _, _)
Serve(s, inst, rem, out, e, used) ==
  IF ~inst THEN ( IF used + 1 > Len(e) THEN <<s, inst, out, -2, used>>
                  ELSE IF ~e[used + 1].ok THEN <<s, inst, out, -1, used + 1>>
                  ELSE IF Len(e[used + 1].bytes) # 48 THEN <<s, inst, out, -2, used>>
                  ELSE Serve([Update([Fresh EXCEPT !.rc = 1], e[used + 1].bytes) EXCEPT !.rc = 1], TRUE, rem, out, e, used + 1) )
  ELSE IF rem = 0 THEN <<s, inst, out, 0, used>>
  ELSE IF s.rc > RESEED_INTERVAL
       THEN ( IF used + 1 > Len(e) THEN <<s, inst, out, -2, used>>
              ELSE IF ~e[used + 1].ok THEN <<s, inst, out, -1, used + 1>>
              ELSE IF Len(e[used + 1].bytes) # 32 THEN <<s, inst, out, -2, used>>
              ELSE Serve([Update(s, e[used + 1].bytes) EXCEPT !.rc = 1], inst, rem, out, e, used + 1) )
       ELSE LET n == IF rem > MAXLEN THEN MAXLEN ELSE rem  g == Generate(s, n) IN Serve(g[1], inst, rem - n, out \o g[2], e, used)
=============================================================================
