---------------------------------- MODULE DH ----------------------------------
(* Property C10: Diffie-Hellman in RFC 3526 group 14 with the exponent offset 2^258; big integers are lower-case hex
   strings, modular exponentiation is the primitive ModExpHex of VPrims (java.math.BigInteger).  The modulus below was
   produced from the RFC formula 2^2048 - 2^1984 - 1 + 2^64 * (floor(2^1918 * pi) + 124476); tools/selftest.py
   re-derives it at setup time. *)
EXTENDS Naturals, Sequences, VPrims
P14 == "ffffffffffffffffc90fdaa22168c234c4c6628b80dc1cd129024e088a67cc74020bbea63b139b22514a08798e3404ddef9519b3cd3a431b302b0a6df25f14374fe1356d6d51c245e485b576625e7ec6f44c42e9a637ed6b0bff5cb6f406b7edee386bfb5a899fa5ae9f24117c4b1fe649286651ece45b3dc2007cb8a163bf0598da48361c55d39a69163fa8fd24cf5f83655d23dca3ad961c62f356208552bb9ed529077096966d670c354e4abc9804f1746c08ca18217c32905e462e36ce3be39e772c180e86039b2783a2ec07a28fb5c55df06f4c52c9de2bcbf6955817183995497cea956ae515d2261898fa051015728e5a8aacaa68ffffffffffffffff"
Exp(x) == AddHex(Pow2Hex(258), x)
Pub(x) == PadHex(ModExpHex("2", Exp(x), P14), 512)                 \* 256-byte big-endian
Key(y, x) == PadHex(ModExpHex(y, Exp(x), P14), 512)
Sane(y) == CmpHex(y, P14) < 0
=============================================================================
