------------------------------- MODULE AesRefMC -------------------------------
(* The plain-TLA+ AES against the JDK primitive used by the trace specifications: the FIPS 197 appendix C vectors
   (C.1, C.3), the S-box corner values, and N pattern keys / blocks of both key sizes. *)
EXTENDS AesRef, VPrims, TLC
CONSTANT N
VARIABLES k, big
Key(i, n) == [j \in 1..n |-> (i * 37 + j * 101 + ((i * j) % 7)) % 256]
Blk(i) == [j \in 1..16 |-> (i * 211 + j * 13 + 5) % 256]
Init == k \in 0..N /\ big \in BOOLEAN
Next == UNCHANGED <<k, big>>
Agree == LET key == Key(k, IF big THEN 32 ELSE 16) IN AesRefEncrypt(key, Blk(k)) = AESEncryptBlock(key, Blk(k))
Seq0(n) == [j \in 1..n |-> j - 1]
ASSUME \A x \in 0..255 : SBox[x] = SBoxDef(x)
ASSUME SBox[0] = 99 /\ SBox[1] = 124 /\ SBox[83] = 237 /\ SBox[255] = 22
ASSUME HexOf(AesRefEncrypt(Seq0(16), BytesOf("00112233445566778899aabbccddeeff"))) = "69c4e0d86a7b0430d8cdb78070b4c55a"
ASSUME HexOf(AesRefEncrypt(Seq0(32), BytesOf("00112233445566778899aabbccddeeff"))) = "8ea2b7ca516745bfeafc49904b496089"
=============================================================================
