--------------------------------- MODULE DHMC ---------------------------------
(* Design-level facts about DH.tla checked by TLC on a small group of the same shape: agreement (both parties derive the
   same key) and blinding-independence of the blinded exponentiation  (y^(e + b*q))^... as crypto_dh.c performs it:
   r = y^(2^258 + x) computed as y^((2^258 + x - b) mod ... ) * y^b  -- here: for every x, y, b in a small group
   y^(E(x) - b) * y^b = y^E(x) (mod p). *)
EXTENDS Naturals, Integers
CONSTANTS PP, OFF            \* small prime modulus, exponent offset
VARIABLES x, y, b
RECURSIVE Pow(_, _)
Pow(a, e) == IF e = 0 THEN 1 ELSE (a * Pow(a, e - 1)) % PP
E(v) == OFF + v
Init == x \in 0..7 /\ y \in 0..(PP - 1) /\ b \in 0..7
Next == UNCHANGED <<x, y, b>>
Spec == Init /\ [][Next]_<<x, y, b>>
Agreement == Pow(Pow(2, E(x)), E(b)) = Pow(Pow(2, E(b)), E(x))
BlindingIndependent == (Pow(y, E(x) + 8 - b) * Pow(y, b)) % PP = (Pow(y, E(x)) * Pow(y, 8)) % PP
=============================================================================
