------------------------------ MODULE CryptoTrace ------------------------------
(* Trace validation of the cryptographic functions (C01, C02, C03, C10, C11, C19, C20): every call of the real code
   (in every CPU-feature build) must give exactly what Hash / AesCtr / DH / Drbg / SigV4 define; finalised contexts are
   zero and no secret reaches the allocator (C20). *)
EXTENDS TraceBase, Integers, FiniteSets, VPrims
H == INSTANCE Hash
A == INSTANCE AesCtr
D == INSTANCE DH
G == INSTANCE Drbg
V == INSTANCE SigV4
R == INSTANCE Sha256Ref      \* FIPS 180-4 in plain TLA+: decides the short SHA-256 messages, the JDK digest the long ones
REFMAX == 200
X == INSTANCE AesRef         \* FIPS 197 in plain TLA+: decides the single-block calls together with the JDK cipher
VARIABLES st, inst, ent       \* DRBG state, instantiated?, entropy answers since the last read
vars == <<l, st, inst, ent>>
Init == l = 1 /\ st = G!Fresh /\ inst = FALSE /\ ent = <<>>
Keep == UNCHANGED <<st, inst, ent>>
B(h) == BytesOf(h)
TReset == IsEvent("reset") /\ st' = G!Fresh /\ inst' = FALSE /\ ent' = <<>>
RECURSIVE Sums(_, _, _)
Sums(cuts, i, acc) == IF i > Len(cuts) THEN <<>> ELSE <<acc + cuts[i]>> \o Sums(cuts, i + 1, acc + cuts[i])
\* C01: digest = the specified function of the whole message for every way of cutting it; streaming = one-shot;
\* the byte count kept by the context follows the updates; C20: the finalised context is all zero
THash == /\ IsEvent("hash") /\ Keep
         /\ LET m == B(Ev.msg)  d == H!Digest(Ev.alg, m) IN
            /\ B(Ev.digest) = d /\ B(Ev.oneshot) = d
            /\ (Has("overmsg") => B(Ev.overmsg) = d)                \* also with the digest written over the message
            /\ (Ev.alg = "sha256" /\ Len(m) <= REFMAX) => d = R!Sha256Ref(m)
            /\ Ev.counts = Sums(Ev.cuts, 1, 0)
            /\ Ev.zero
            \* a copy of the context finalised after the i-th update gives the digest of the prefix fed so far (contexts are plain
            \* values: the driver also moves the live context to another address between any two updates)
            /\ (Has("pdig") => \A i \in 1..Len(Ev.pdig) : B(Ev.pdig[i]) = H!Digest(Ev.alg, SubSeq(m, 1, Ev.counts[i])))
\* very long messages (the context's bit counter carries into its high word): a periodic pattern fed in chunks, the digest of the
\* same pattern computed by the JDK
THashBig == IsEvent("hashbig") /\ Keep /\ B(Ev.digest) = DigestOfPattern(Ev.alg, Ev.len) /\ Ev.zero
THmac == /\ IsEvent("hmac") /\ Keep
         /\ LET d == H!Hmac(Ev.alg, B(Ev.key), B(Ev.msg)) IN
            /\ B(Ev.digest) = d /\ B(Ev.oneshot) = d /\ Ev.zero
            /\ B(Ev.overmsg) = d /\ B(Ev.overkey) = d             \* also when the digest is written over the message or over the key
            /\ (Has("pdig") => \A i \in 1..Len(Ev.pdig) : B(Ev.pdig[i]) = H!Hmac(Ev.alg, B(Ev.key), SubSeq(B(Ev.msg), 1, Ev.pdo[i])))
TPbkdf2 == IsEvent("pbkdf2") /\ Keep /\ B(Ev.out) = H!Pbkdf2(B(Ev.pass), B(Ev.salt), Ev.c, Ev.dklen)
\* the algebraic definition decides messages up to 300 bytes (and there agrees with the primitive); longer ones use the primitive
TCrc == /\ IsEvent("crc") /\ Keep
        /\ LET m == B(Ev.msg) IN
           /\ IF Len(m) <= 300 THEN H!CrcOK(m, B(Ev.out)) /\ B(Ev.out) = Crc32cBytes(m) ELSE B(Ev.out) = Crc32cBytes(m)
           /\ (Has("pdig") => \A i \in 1..Len(Ev.pdig) : B(Ev.pdig[i]) = Crc32cBytes(SubSeq(m, 1, Ev.pdo[i])))   \* read through a copy of the context
\* C02
TAes == /\ IsEvent("aes") /\ Keep /\ B(Ev.out) = AESEncryptBlock(B(Ev.key), B(Ev.in)) /\ Ev.tainted = 0
        /\ B(Ev.out) = X!AesRefEncrypt(B(Ev.key), B(Ev.in))
        /\ (Has("inplace") => Ev.inplace = Ev.out)                  \* the same block encrypted in place
\* (C03 / C14) a key expansion fails only when an allocation was refused; whatever path was selected then, later results are right
TAesExpand == IsEvent("aes_expand") /\ Keep /\ (Ev.ok \/ Ev.inj > 0)
TFreshEnd == IsEvent("fresh_end") /\ Keep /\ Ev.status = 0
\* stream calls: one byte position explains every call; re-initialising restarts the keystream
RECURSIVE CtrOut(_, _, _, _, _, _)
CtrOut(key, nonce, pos, calls, i, input) ==
  IF i > Len(calls) THEN <<>>
  ELSE IF calls[i][1] = "R" THEN CtrOut(key, calls[i][2], 0, calls, i + 1, input)
  ELSE IF calls[i][1] = "K" THEN CtrOut(B(calls[i][4]), calls[i][2], 0, calls, i + 1, input)    \* the same stream object, another key
  ELSE LET n == DecToInt(calls[i][2])  off == calls[i][3] IN
       A!Stream(key, nonce, pos, SubSeq(input, off + 1, off + n)) \o CtrOut(key, nonce, pos + n, calls, i + 1, input)
\* long streams: walk the calls once; every logged window byte that a call produced must be input XOR keystream at the
\* stream position that call had reached
Pat(i) == (i * 7 + 3) % 256
Max(a, b) == IF a > b THEN a ELSE b
Min(a, b) == IF a < b THEN a ELSE b
CallOK(key, nonce, pos, off, n, wins) ==
  \A k \in 1..Len(wins) :
     LET wo == wins[k][1]  got == B(wins[k][2])
         lo == Max(off, wo)  hi == Min(off + n, wo + Len(got))          \* overlap [lo, hi)
     IN \A o \in lo..(hi - 1) :
          got[o - wo + 1] = XorBytes(<<Pat(o)>>, <<A!KSBlock(key, nonce, (pos + (o - off)) \div 16)[((pos + (o - off)) % 16) + 1]>>)[1]
RECURSIVE WalkCalls(_, _, _, _, _, _)
WalkCalls(key, nonce, pos, calls, i, wins) ==
  IF i > Len(calls) THEN TRUE
  ELSE IF calls[i][1] = "R" THEN WalkCalls(key, calls[i][2], 0, calls, i + 1, wins)
  ELSE IF calls[i][1] = "K" THEN WalkCalls(B(calls[i][4]), calls[i][2], 0, calls, i + 1, wins)
  ELSE LET n == DecToInt(calls[i][2])  off == calls[i][3] IN
       CallOK(key, nonce, pos, off, n, wins) /\ WalkCalls(key, nonce, pos + n, calls, i + 1, wins)
TCtr == /\ IsEvent("ctr") /\ Keep /\ Ev.tainted = 0
        /\ IF Has("out") THEN B(Ev.out) = CtrOut(B(Ev.key), Ev.nonce, 0, Ev.calls, 1, B(Ev.msg))
           ELSE Ev.pattern /\ WalkCalls(B(Ev.key), Ev.nonce, 0, Ev.calls, 1, Ev.windows)
\* C10
Strip(h) == h
\* a call fails only when an allocation of the bignum library was refused (inj), and then says so: success always comes with
\* the specified value, whatever the blinding; no secret reaches the allocator on either path
TDhPub == /\ IsEvent("dhpub") /\ Keep /\ Ev.tainted = 0
          /\ IF Ev.rc = 0 THEN Ev.out = D!Pub(Ev.priv) ELSE Ev.inj > 0
TDhKey == /\ IsEvent("dhkey") /\ Keep /\ Ev.tainted = 0
          /\ IF Ev.rc = 0 THEN Ev.out = D!Key(Ev.pub, Ev.priv) ELSE Ev.inj > 0
\* constant-time comparison: zero exactly when the two buffers are identical
TVerify == IsEvent("verify") /\ Keep /\ (Ev.rc = 0) = (Ev.a = Ev.b)
TDhSane == IsEvent("dhsane") /\ Keep /\ (Ev.rc = 0) = D!Sane(Ev.pub) /\ Ev.rc \in {0, -1}
\* C11: the OS entropy answers obtained during a read, then the read itself re-run in the model
TEntropy == /\ IsEvent("entropy") /\ UNCHANGED <<st, inst>>
            /\ ent' = (IF Ev.ok /\ ent # <<>> /\ ent[Len(ent)].ok /\ ent[Len(ent)].want > Len(ent[Len(ent)].bytes)
                       THEN [ent EXCEPT ![Len(ent)].bytes = @ \o B(Ev.bytes)]                         \* continuation of a short read
                       ELSE IF ~Ev.ok /\ ent # <<>> /\ ent[Len(ent)].ok /\ ent[Len(ent)].want > Len(ent[Len(ent)].bytes)
                       THEN [ent EXCEPT ![Len(ent)].ok = FALSE]                                       \* failure in the middle of filling
                       ELSE Append(ent, [ok |-> Ev.ok, want |-> Ev.len, bytes |-> IF Ev.ok THEN B(Ev.bytes) ELSE <<>>]))
TDrbgRead == /\ IsEvent("drbg_read")
             /\ LET r == G!Serve(st, inst, Ev.n, <<>>, ent, 0) IN
                /\ r[4] = Ev.rc                                   \* fails exactly when the entropy source failed
                /\ r[5] = Len(ent)                                \* asked the OS exactly when and as much as specified
                /\ Ev.rc = 0 => B(Ev.out) = r[3]                  \* byte-exact HMAC_DRBG output
                /\ st' = r[1] /\ inst' = r[2]
             /\ ent' = <<>>
TDrbgEnd == IsEvent("drbg_end") /\ Ev.status = 0 /\ st' = G!Fresh /\ inst' = FALSE /\ ent' = <<>>
\* C19
TSig == /\ IsEvent("sig") /\ Keep /\ Ev.rc = 0
        /\ LET body == IF Ev.havebody THEN B(Ev.body) ELSE <<>>  t == Ev.time IN
           CASE Ev.var = "s3h" -> LET x == V!S3Headers(B(Ev.keyid), B(Ev.secret), B(Ev.region), B(Ev.a), B(Ev.b), B(Ev.c), body, t)
                                  IN B(Ev.sha) = x.sha /\ B(Ev.date) = x.date /\ B(Ev.auth) = x.auth
             [] Ev.var = "svc" -> LET x == V!SvcHeaders(B(Ev.keyid), B(Ev.secret), B(Ev.region), B(Ev.a), body, t)
                                  IN B(Ev.sha) = x.sha /\ B(Ev.date) = x.date /\ B(Ev.auth) = x.auth
             [] Ev.var = "ddb" -> LET x == V!DdbHeaders(B(Ev.keyid), B(Ev.secret), B(Ev.region), B(Ev.a), body, t)
                                  IN B(Ev.sha) = x.sha /\ B(Ev.date) = x.date /\ B(Ev.auth) = x.auth
             [] OTHER -> B(Ev.query) = V!S3Query(B(Ev.keyid), B(Ev.secret), B(Ev.region), B(Ev.a), B(Ev.b), B(Ev.c), Ev.expiry, t)
\* C20: a failed (or successful) key-file read never hands memory holding the secret back to the allocator
TKeyfile == IsEvent("keyfile") /\ Keep /\ Ev.tainted = 0
Next == TReset \/ THash \/ THashBig \/ THmac \/ TPbkdf2 \/ TCrc \/ TAes \/ TAesExpand \/ TFreshEnd \/ TCtr \/ TDhPub \/ TDhKey \/ TDhSane \/ TVerify \/ TEntropy \/ TDrbgRead \/ TDrbgEnd \/ TSig \/ TKeyfile
Spec == Init /\ [][Next]_vars
=============================================================================
