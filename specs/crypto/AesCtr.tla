-------------------------------- MODULE AesCtr --------------------------------
(* Property C02: AES-CTR as SP 800-38A defines it for this library's counter block: keystream block i =
   AES_k(be64(nonce) || be64(i)), i = 0, 1, ...; a stream object is one byte position `pos`; AES itself is the
   primitive AESEncryptBlock of VPrims (JDK). *)
EXTENDS Naturals, Integers, Sequences, VPrims
Be8(n) == <<0, 0, 0, 0, (n \div 16777216) % 256, (n \div 65536) % 256, (n \div 256) % 256, n % 256>>     \* block index < 2^31
KSBlock(key, nonce, i) == AESEncryptBlock(key, DecToBytes(nonce, 8) \o Be8(i))
\* keystream bytes pos .. pos + n - 1
RECURSIVE KS(_, _, _, _)
KS(key, nonce, pos, n) ==
  IF n = 0 THEN <<>>
  ELSE LET blk == KSBlock(key, nonce, pos \div 16)
           o == pos % 16
           take == IF 16 - o < n THEN 16 - o ELSE n
       IN SubSeq(blk, o + 1, o + take) \o KS(key, nonce, pos + take, n - take)
Stream(key, nonce, pos, input) == XorBytes(input, KS(key, nonce, pos, Len(input)))
=============================================================================
