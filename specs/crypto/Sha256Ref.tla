------------------------------ MODULE Sha256Ref ------------------------------
(***************************************************************************)
(* FIPS 180-4 SHA-256 transcribed in plain TLA+ (sections 4.1.2, 4.2.2,     *)
(* 5.1.1, 5.3.3, 6.2).  No Java primitive is involved except the bit        *)
(* operators of the CommunityModules' Bitwise; it exists to take the JDK's  *)
(* MessageDigest out of the trusted base: Sha256RefMC compares both on      *)
(* every length around the block and padding boundaries, and CryptoTrace    *)
(* uses this definition for the short messages hashed by the real code.     *)
(*                                                                          *)
(* TLC integers are 32-bit signed, so a word is a pair <<high, low>> of     *)
(* 16-bit halves.  The constants are floor(frac(p^(1/3)) * 2^32) and        *)
(* floor(frac(p^(1/2)) * 2^32) over the first 64 / 8 primes; the self-test  *)
(* (tools/selftest.py) re-derives them from that definition.                *)
(***************************************************************************)
EXTENDS Naturals, Sequences, Bitwise
M16 == 65536
Add2(a, b) == LET lo == a[2] + b[2]
                  hi == a[1] + b[1] + (lo \div M16)
              IN <<hi % M16, lo % M16>>
Add4(a, b, c, d) == Add2(Add2(a, b), Add2(c, d))
Add5(a, b, c, d, e) == Add2(Add4(a, b, c, d), e)
XorW(a, b) == <<a[1] ^^ b[1], a[2] ^^ b[2]>>
AndW(a, b) == <<a[1] & b[1], a[2] & b[2]>>
NotW(a) == <<65535 - a[1], 65535 - a[2]>>
\* rotation / shift to the right by n < 16 bits, and by any n < 32
RotS(a, n) == IF n = 0 THEN a
              ELSE LET p == 2 ^ n
                       q == 2 ^ (16 - n)
                   IN <<(a[1] \div p) + (a[2] % p) * q, (a[2] \div p) + (a[1] % p) * q>>
RotR(a, n) == IF n >= 16 THEN RotS(<<a[2], a[1]>>, n - 16) ELSE RotS(a, n)
ShR(a, n) == IF n >= 16 THEN <<0, a[1] \div (2 ^ (n - 16))>>
             ELSE LET p == 2 ^ n
                      q == 2 ^ (16 - n)
                  IN <<a[1] \div p, (a[2] \div p) + (a[1] % p) * q>>
\* section 4.1.2
Ch(x, y, z) == XorW(AndW(x, y), AndW(NotW(x), z))
Maj(x, y, z) == XorW(XorW(AndW(x, y), AndW(x, z)), AndW(y, z))
BSig0(x) == XorW(XorW(RotR(x, 2), RotR(x, 13)), RotR(x, 22))
BSig1(x) == XorW(XorW(RotR(x, 6), RotR(x, 11)), RotR(x, 25))
SSig0(x) == XorW(XorW(RotR(x, 7), RotR(x, 18)), ShR(x, 3))
SSig1(x) == XorW(XorW(RotR(x, 17), RotR(x, 19)), ShR(x, 10))
\* section 4.2.2 and 5.3.3
K == << 
        <<17034, 12184>>, <<28983, 17553>>, <<46528, 64463>>, <<59829, 56229>>,
        <<14678, 49755>>, <<23025, 4593>>, <<37439, 33444>>, <<43804, 24277>>,
        <<55303, 43672>>, <<4739, 23297>>, <<9265, 34238>>, <<21772, 32195>>,
        <<29374, 23924>>, <<32990, 45566>>, <<39900, 1703>>, <<49563, 61812>>,
        <<58523, 27073>>, <<61374, 18310>>, <<4033, 40390>>, <<9228, 41420>>,
        <<11753, 11375>>, <<19060, 33962>>, <<23728, 43484>>, <<30457, 35034>>,
        <<38974, 20818>>, <<43057, 50797>>, <<45059, 10184>>, <<48985, 32711>>,
        <<50912, 3059>>, <<54695, 37191>>, <<1738, 25425>>, <<5161, 10599>>,
        <<10167, 2693>>, <<11803, 8504>>, <<19756, 28156>>, <<21304, 3347>>,
        <<25866, 29524>>, <<30314, 2747>>, <<33218, 51502>>, <<37490, 11397>>,
        <<41663, 59553>>, <<43034, 26187>>, <<49739, 35696>>, <<51052, 20899>>,
        <<53650, 59417>>, <<54937, 1572>>, <<62478, 13701>>, <<4202, 41072>>,
        <<6564, 49430>>, <<7735, 27656>>, <<10056, 30540>>, <<13488, 48309>>,
        <<14620, 3251>>, <<20184, 43594>>, <<23452, 51791>>, <<26670, 28659>>,
        <<29839, 33518>>, <<30885, 25455>>, <<33992, 30740>>, <<36039, 520>>,
        <<37054, 65530>>, <<42064, 27883>>, <<48889, 41975>>, <<50801, 30962>> >>
H0 == << <<27145, 58983>>, <<47975, 44677>>, <<15470, 62322>>, <<42319, 62778>>, <<20750, 21119>>, <<39685, 26764>>, <<8067, 55723>>, <<23520, 52505>> >>
\* section 5.1.1: 0x80, zeros to 56 mod 64, 64-bit big-endian bit length (lengths below 2^28 bytes)
Pad(m) == LET n == Len(m)
              z == (119 - (n % 64)) % 64
              bits == n * 8
          IN m \o <<128>> \o [i \in 1..z |-> 0]
               \o <<0, 0, 0, 0, (bits \div 16777216) % 256, (bits \div 65536) % 256, (bits \div 256) % 256, bits % 256>>
WordAt(b, k) == <<b[k] * 256 + b[k + 1], b[k + 2] * 256 + b[k + 3]>>     \* big-endian word at byte index k
\* section 6.2.2 step 1: message schedule, built left to right (w holds W_0 .. W_{t-1})
RECURSIVE Sched(_, _)
Sched(w, t) == IF t = 64 THEN w
               ELSE Sched(Append(w, Add4(SSig1(w[t - 1]), w[t - 6], SSig0(w[t - 14]), w[t - 15])), t + 1)
\* steps 2-3: s = <<a, b, c, d, e, f, g, h>>
RECURSIVE Rounds(_, _, _)
Rounds(s, w, t) ==
  IF t = 64 THEN s
  ELSE LET t1 == Add5(s[8], BSig1(s[5]), Ch(s[5], s[6], s[7]), K[t + 1], w[t + 1])
           t2 == Add2(BSig0(s[1]), Maj(s[1], s[2], s[3]))
       IN Rounds(<<Add2(t1, t2), s[1], s[2], s[3], Add2(s[4], t1), s[5], s[6], s[7]>>, w, t + 1)
\* step 4: one block (64 bytes starting at index k of b) folded into the hash value h
\* (TLC builds [i \in S |-> e] lazily; "\o <<>>" turns it into a tuple, computed once)
Compress(h, b, k) == LET w == Sched([i \in 1..16 |-> WordAt(b, k + 4 * (i - 1))] \o <<>>, 16)
                         s == Rounds(h, w, 0)
                     IN [i \in 1..8 |-> Add2(h[i], s[i])] \o <<>>
RECURSIVE Blocks(_, _, _)
Blocks(h, b, k) == IF k > Len(b) THEN h ELSE Blocks(Compress(h, b, k), b, k + 64)
WordBytes(x) == <<x[1] \div 256, x[1] % 256, x[2] \div 256, x[2] % 256>>
Sha256Ref(m) == LET h == Blocks(H0, Pad(m), 1)
                IN WordBytes(h[1]) \o WordBytes(h[2]) \o WordBytes(h[3]) \o WordBytes(h[4])
                   \o WordBytes(h[5]) \o WordBytes(h[6]) \o WordBytes(h[7]) \o WordBytes(h[8])
=============================================================================
