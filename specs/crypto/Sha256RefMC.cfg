CONSTANT LMAX = 200
INIT Init
NEXT Next
INVARIANT Agree
