-------------------------------- MODULE DrbgMC --------------------------------
(* The reseed / chunk / failure schedule of the random generator with an abstract HMAC (state = version counters):
   interval 3, chunk 4.  No output is ever produced from an uninstantiated state or with the generate counter past the
   interval, and a failing entropy source makes the call fail. *)
EXTENDS Naturals, Integers, Sequences
CONSTANTS INTERVAL, MAXLEN, MAXREQ
VARIABLES inst, rc, seeds, outputs, lastrc, fails
vars == <<inst, rc, seeds, outputs, lastrc, fails>>
Init == inst = FALSE /\ rc = 0 /\ seeds = 0 /\ outputs = 0 /\ lastrc = 0 /\ fails = 0
\* crypto_entropy_read(n) with the entropy source failing at the k-th request made during this call (0 = never)
RECURSIVE Serve(_, _, _, _, _, _)
Serve(i, r, s, rem, failat, asked) ==
  IF ~i THEN (IF asked + 1 = failat THEN <<i, r, s, -1, asked + 1, 0>> ELSE Serve(TRUE, 1, s + 1, rem, failat, asked + 1))
  ELSE IF rem = 0 THEN <<i, r, s, 0, asked, 0>>
  ELSE IF r > INTERVAL THEN (IF asked + 1 = failat THEN <<i, r, s, -1, asked + 1, 0>> ELSE Serve(i, 1, s + 1, rem, failat, asked + 1))
  ELSE LET n == IF rem > MAXLEN THEN MAXLEN ELSE rem
           x == Serve(i, r + 1, s, rem - n, failat, asked)
       IN <<x[1], x[2], x[3], x[4], x[5], x[6] + 1>>
Read(n, failat) ==
  /\ outputs < 12
  /\ LET x == Serve(inst, rc, seeds, n, failat, 0) IN
     inst' = x[1] /\ rc' = x[2] /\ seeds' = x[3] /\ lastrc' = x[4] /\ outputs' = outputs + (IF x[4] = 0 THEN x[6] ELSE 0)
     /\ fails' = (IF failat > 0 /\ failat <= x[5] THEN 1 ELSE 0)
Next == \E n \in 0..MAXREQ, f \in 0..3 : Read(n, f)
Spec == Init /\ [][Next]_vars
NeverUnseeded == (outputs > 0) => inst /\ seeds >= 1
NeverStale == rc <= INTERVAL + 1
FailureFails == (fails = 1) => lastrc = -1
=============================================================================
