------------------------------ MODULE AesCtrImpl ------------------------------
(***************************************************************************)
(* crypto/crypto_aesctr*.c, implementation level, scaled: cipher blocks of  *)
(* BLK bytes, a counter whose low "byte" wraps at WRAP (256 in the code).   *)
(* State: bytectr, the counter encoded in pblk as (hi, lo), the buffered    *)
(* cipher block.  Portable path: increment lo, re-encode the whole counter  *)
(* when lo wraps.  Accelerated path (calls of >= BLK bytes): finishes the   *)
(* partial block, runs whole blocks from bytectr / BLK, writes the last     *)
(* counter back into pblk, finishes with the portable generator.  Every     *)
(* partition of a stream into calls, with and without the accelerated path, *)
(* is a behaviour.  Ghost: `ks`, the counter each keystream byte came from. *)
(***************************************************************************)
EXTENDS Naturals, Integers, Sequences
CONSTANTS BLK, WRAP, MAXBYTES, ACCEL       \* ACCEL: set of booleans: is the accelerated path available?
VARIABLES bytectr, hi, lo, bufctr, ks
vars == <<bytectr, hi, lo, bufctr, ks>>
Init == bytectr = 0 /\ hi = 0 /\ lo = WRAP - 1 /\ bufctr = -1 /\ ks = <<>>
\* crypto_aesctr_stream_cipherblock_generate at position pos: <<hi', lo', counter used>>
Gen(h, lw, pos) == LET l1 == (lw + 1) % WRAP IN
                   IF l1 = 0 THEN <<(pos \div BLK) \div WRAP, (pos \div BLK) % WRAP, pos \div BLK>>
                   ELSE <<h, l1, h * WRAP + l1>>
\* portable processing of n bytes from position pos with buffered block counter bc: <<hi, lo, bufctr, ks-addition>>
RECURSIVE Portable(_, _, _, _, _, _)
Portable(h, lw, bc, pos, n, acc) ==
  IF n = 0 THEN <<h, lw, bc, acc>>
  ELSE IF pos % BLK # 0 THEN Portable(h, lw, bc, pos + 1, n - 1, Append(acc, bc))
  ELSE LET g == Gen(h, lw, pos) IN Portable(g[1], g[2], g[3], pos + 1, n - 1, Append(acc, g[3]))
\* accelerated processing: partial block from the buffer, whole blocks straight from the position, counter written back, tail portable
Accel(h, lw, bc, pos, n) ==
  LET pre == IF pos % BLK = 0 THEN 0 ELSE (IF BLK - (pos % BLK) < n THEN BLK - (pos % BLK) ELSE n)
      p1 == Portable(h, lw, bc, pos, pre, <<>>)
      pos1 == pos + pre
      nb == (n - pre) \div BLK
      whole == [i \in 1..(nb * BLK) |-> (pos1 \div BLK) + ((i - 1) \div BLK)]
      lastc == (pos1 \div BLK) + nb - 1
      h2 == IF nb > 0 THEN lastc \div WRAP ELSE p1[1]
      l2 == IF nb > 0 THEN lastc % WRAP ELSE p1[2]
      p3 == Portable(h2, l2, p1[3], pos1 + nb * BLK, n - pre - nb * BLK, <<>>)
  IN <<p3[1], p3[2], p3[3], p1[4] \o whole \o p3[4]>>
Stream(n, accel) ==
  /\ bytectr + n <= MAXBYTES
  /\ LET r == IF accel /\ n >= BLK THEN Accel(hi, lo, bufctr, bytectr, n) ELSE Portable(hi, lo, bufctr, bytectr, n, <<>>) IN
     hi' = r[1] /\ lo' = r[2] /\ bufctr' = r[3] /\ ks' = ks \o r[4]
  /\ bytectr' = bytectr + n
Reinit == bytectr' = 0 /\ hi' = 0 /\ lo' = WRAP - 1 /\ bufctr' = -1 /\ ks' = <<>>
Next == (\E n \in 0..MAXBYTES, a \in ACCEL : Stream(n, a)) \/ Reinit
Spec == Init /\ [][Next]_vars
\* C02 / C03: byte j of the keystream comes from block j div BLK, whatever the partition and whichever path produced it
KeystreamInOrder == \A j \in 1..Len(ks) : ks[j] = (j - 1) \div BLK
Position == Len(ks) = bytectr
=============================================================================
