------------------------------ MODULE Readpass ------------------------------
(***************************************************************************)
(* util/readpass.c: read a password from /dev/tty or stdin with terminal    *)
(* echo switched off, the signals that could leave the terminal without     *)
(* echo caught for the duration and re-issued afterwards.  One action per   *)
(* system / library call the function makes, in the order it makes them on  *)
(* each of its paths (success, read failure, terminal-setting failure,      *)
(* /dev/tty unavailable); the environment's answers are parameters of the   *)
(* actions (the model checker tries all of them, a recorded execution       *)
(* supplies its own).                                                       *)
(*                                                                         *)
(* What a caller relies on:                                                 *)
(*  NoBlindTerminal  echo is off only while the module's handlers are       *)
(*                   installed; at return echo is as it was found;          *)
(*  Reissued         every signal caught is re-issued exactly once, in the  *)
(*                   fixed order, after the terminal and the dispositions   *)
(*                   have been restored; none is swallowed on any path;     *)
(*  Restored         at return the dispositions are the caller's again and  *)
(*                   /dev/tty, if it was opened, is closed;                 *)
(*  Result           success returns the line both entries agreed on        *)
(*                   (first CR or LF and everything after it dropped);      *)
(*                   EOF or a read error fails; a mismatch asks again.      *)
(***************************************************************************)
EXTENDS Integers, Sequences, FiniteSets
CONSTANTS Sigs,         \* the signals the module catches, in the order it re-issues them (a sequence)
          Lines,        \* possible input lines (byte sequences, with their line ends)
          MaxReads      \* bound on the number of reads (model checking only)
VARIABLES pc, dev, conf, stream, ttyOpen, usingtty, hInstalled, echoOff, caught, reraised,
          first, nreads, prompts, rc, pass, closed
vars == <<pc, dev, conf, stream, ttyOpen, usingtty, hInstalled, echoOff, caught, reraised, first, nreads, prompts, rc, pass, closed>>

SigSet == {Sigs[i] : i \in 1..Len(Sigs)}
NoLine == <<-1>>
CR == 13
LF == 10
\* the line up to (not including) its first CR or LF
Strip(line) == LET S == {i \in 1..Len(line) : line[i] \in {CR, LF}}
               IN IF S = {} THEN line ELSE SubSeq(line, 1, (CHOOSE i \in S : \A j \in S : i <= j) - 1)

Init == /\ pc = "start" /\ dev \in 0..3 /\ conf \in BOOLEAN /\ stream = "none" /\ ttyOpen = FALSE /\ usingtty = FALSE
        /\ hInstalled = FALSE /\ echoOff = FALSE /\ caught = {} /\ reraised = <<>> /\ first = NoLine /\ nreads = 0
        /\ prompts = <<>> /\ rc = -2 /\ pass = NoLine /\ closed = FALSE

\* ---- choosing the stream ----
Same(v) == UNCHANGED v
Start0 == /\ pc = "start" /\ dev = 0 /\ stream' = "stdin" /\ pc' = "install"
          /\ Same(<<dev, conf, ttyOpen, usingtty, hInstalled, echoOff, caught, reraised, first, nreads, prompts, rc, pass, closed>>)
BadDev == /\ pc = "start" /\ dev \notin {0, 1, 2} /\ pc' = "done" /\ rc' = -1
          /\ Same(<<dev, conf, stream, ttyOpen, usingtty, hInstalled, echoOff, caught, reraised, first, nreads, prompts, pass, closed>>)
OpenTty(ok) == /\ pc = "start" /\ dev \in {1, 2}
               /\ IF ok THEN stream' = "tty" /\ ttyOpen' = TRUE /\ pc' = "install" /\ rc' = rc
                  ELSE IF dev = 1 THEN stream' = "stdin" /\ ttyOpen' = FALSE /\ pc' = "install" /\ rc' = rc
                  ELSE stream' = stream /\ ttyOpen' = FALSE /\ pc' = "done" /\ rc' = -1          \* devtty = 2: no terminal, no password
               /\ Same(<<dev, conf, usingtty, hInstalled, echoOff, caught, reraised, first, nreads, prompts, pass, closed>>)
\* ---- handlers, terminal ----
\* stages that do not apply (no terminal to restore, no /dev/tty to close, no signal to re-issue) are skipped by the action before them
AfterTcErr == IF ttyOpen THEN "close_err" ELSE "sigs_err"
AfterRead(ok) == IF usingtty THEN (IF ok THEN "tcrestore" ELSE "tcrestore_err") ELSE IF ok THEN "sigs" ELSE AfterTcErr
Install == /\ pc = "install" /\ hInstalled' = TRUE /\ caught' = {} /\ pc' = "isatty"
           /\ Same(<<dev, conf, stream, ttyOpen, usingtty, echoOff, reraised, first, nreads, prompts, rc, pass, closed>>)
IsATty(b) == /\ pc = "isatty" /\ usingtty' = b /\ pc' = (IF b THEN "tcget" ELSE "read1")
             /\ Same(<<dev, conf, stream, ttyOpen, hInstalled, echoOff, caught, reraised, first, nreads, prompts, rc, pass, closed>>)
TcGet(ok) == /\ pc = "tcget" /\ pc' = (IF ok THEN "tcoff" ELSE AfterTcErr)
             /\ Same(<<dev, conf, stream, ttyOpen, usingtty, hInstalled, echoOff, caught, reraised, first, nreads, prompts, rc, pass, closed>>)
TcOff(ok) == /\ pc = "tcoff" /\ echoOff' = ok /\ pc' = (IF ok THEN "read1" ELSE AfterTcErr)
             /\ Same(<<dev, conf, stream, ttyOpen, usingtty, hInstalled, caught, reraised, first, nreads, prompts, rc, pass, closed>>)
\* ---- reading ----
Prompt(which) == /\ pc \in {"read1", "read2"} /\ usingtty /\ which = (IF pc = "read1" THEN 1 ELSE 2)
                 /\ (IF prompts = <<>> THEN TRUE ELSE prompts[Len(prompts)] # which)
                 /\ prompts' = Append(prompts, which)
                 /\ Same(<<pc, dev, conf, stream, ttyOpen, usingtty, hInstalled, echoOff, caught, reraised, first, nreads, rc, pass, closed>>)
\* a signal of the caught kind arrives while the handlers are installed
Signal(s) == /\ hInstalled /\ s \in SigSet /\ caught' = caught \cup {s}
             /\ Same(<<pc, dev, conf, stream, ttyOpen, usingtty, hInstalled, echoOff, reraised, first, nreads, prompts, rc, pass, closed>>)
Prompted(which) == IF usingtty THEN (IF prompts = <<>> THEN FALSE ELSE prompts[Len(prompts)] = which) ELSE TRUE
\* one read: a line, end of file or an error
Read(kind, line) ==
  /\ pc \in {"read1", "read2"} /\ Prompted(IF pc = "read1" THEN 1 ELSE 2) /\ nreads' = nreads + 1
  /\ IF kind # "line" THEN pc' = AfterRead(FALSE) /\ Same(<<first, pass>>)
     ELSE IF pc = "read1" THEN /\ first' = line
                               /\ IF conf THEN pc' = "read2" /\ pass' = pass
                                  ELSE pc' = AfterRead(TRUE) /\ pass' = Strip(line)
     ELSE IF line = first THEN pc' = AfterRead(TRUE) /\ pass' = Strip(line) /\ Same(first)
     ELSE pc' = "mismatch" /\ Same(<<first, pass>>)
  /\ Same(<<dev, conf, stream, ttyOpen, usingtty, hInstalled, echoOff, caught, reraised, prompts, rc, closed>>)
\* the two entries differ: say so (terminal or not) and ask again
Mismatch == /\ pc = "mismatch" /\ pc' = "read1" /\ first' = NoLine /\ prompts' = Append(prompts, 3)
            /\ Same(<<dev, conf, stream, ttyOpen, usingtty, hInstalled, echoOff, caught, reraised, nreads, rc, pass, closed>>)
\* ---- leaving: success path (terminal, dispositions + re-issue, close), failure paths (terminal, close, dispositions + re-issue) ----
TcRestore(flush) ==
  /\ pc \in {"tcrestore", "tcrestore_err"} /\ flush = (pc = "tcrestore_err")
  /\ usingtty /\ echoOff' = FALSE /\ pc' = (IF pc = "tcrestore" THEN "sigs" ELSE AfterTcErr)
  /\ Same(<<dev, conf, stream, ttyOpen, usingtty, hInstalled, caught, reraised, first, nreads, prompts, rc, pass, closed>>)
\* the next signal to re-issue: the first of the fixed order that was caught and has not been re-issued
NextSigOf(rr) == LET S == {i \in 1..Len(Sigs) : Sigs[i] \in caught /\ \A k \in 1..Len(rr) : rr[k] # Sigs[i]}
                 IN IF S = {} THEN 0 ELSE CHOOSE i \in S : \A j \in S : i <= j
\* where the function goes when nothing (more) is to be re-issued: the success path still has /dev/tty to close
AfterSigs(success) == IF success THEN (IF ttyOpen THEN "close" ELSE "done") ELSE "done"
SigRestore == /\ pc \in {"sigs", "sigs_err"} /\ hInstalled /\ hInstalled' = FALSE
              /\ IF NextSigOf(reraised) # 0 THEN Same(<<pc, rc>>)
                 ELSE /\ pc' = AfterSigs(pc = "sigs")
                      /\ rc' = (IF pc' = "done" THEN (IF pc = "sigs" THEN 0 ELSE -1) ELSE rc)
              /\ Same(<<dev, conf, stream, ttyOpen, usingtty, echoOff, caught, reraised, first, nreads, prompts, pass, closed>>)
Raise(s) == /\ pc \in {"sigs", "sigs_err"} /\ ~hInstalled /\ NextSigOf(reraised) # 0 /\ s = Sigs[NextSigOf(reraised)]
            /\ reraised' = Append(reraised, s)
            /\ IF NextSigOf(reraised') # 0 THEN Same(<<pc, rc>>)
               ELSE /\ pc' = AfterSigs(pc = "sigs")
                    /\ rc' = (IF pc' = "done" THEN (IF pc = "sigs" THEN 0 ELSE -1) ELSE rc)
            /\ Same(<<dev, conf, stream, ttyOpen, usingtty, hInstalled, echoOff, caught, first, nreads, prompts, pass, closed>>)
Close == /\ pc \in {"close", "close_err"} /\ ttyOpen /\ ttyOpen' = FALSE /\ closed' = TRUE
         /\ pc' = (IF pc = "close" THEN "done" ELSE "sigs_err") /\ rc' = (IF pc = "close" THEN 0 ELSE rc)
         /\ Same(<<dev, conf, stream, usingtty, hInstalled, echoOff, caught, reraised, first, nreads, prompts, pass>>)

Next == \/ Start0 \/ BadDev \/ (\E ok \in BOOLEAN : OpenTty(ok) \/ TcGet(ok) \/ TcOff(ok) \/ IsATty(ok) \/ TcRestore(ok))
        \/ Install \/ (\E w \in 1..2 : Prompt(w)) \/ (\E s \in SigSet : Signal(s) \/ Raise(s))
        \/ (nreads < MaxReads /\ \E k \in {"line", "eof", "err"} : \E ln \in Lines : Read(k, ln))
        \/ Mismatch \/ Close \/ SigRestore
Spec == Init /\ [][Next]_vars
----------------------------------------------------------------------------
NoBlindTerminal == /\ echoOff => hInstalled
                   /\ pc = "done" => ~echoOff
Restored == pc = "done" => (~hInstalled /\ ~ttyOpen /\ rc \in {0, -1})
\* (signals that arrive after the dispositions went back to the caller are the caller's business: `caught` stops growing then)
Reissued == pc = "done" => /\ {reraised[k] : k \in 1..Len(reraised)} = caught
                           /\ \A a, b \in 1..Len(reraised) : a # b => reraised[a] # reraised[b]
ReissueLate == reraised # <<>> => (~hInstalled /\ ~echoOff)
Result == pc = "done" /\ rc = 0 => /\ pass # NoLine /\ first # NoLine /\ pass = Strip(first)
                                   /\ \A i \in 1..Len(pass) : pass[i] \notin {CR, LF}
Inv == NoBlindTerminal /\ Restored /\ Reissued /\ ReissueLate /\ Result
=============================================================================
