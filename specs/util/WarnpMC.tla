------------------------------ MODULE WarnpMC ------------------------------
(* Every history of the diagnostics channel over a small alphabet: paths with and without slashes (incl. empty and
   trailing slash), messages shorter and longer than the truncation limit (3 here), two errno values, three switch values. *)
EXTENDS Integers, Sequences
VARIABLES name, sys, prio, err, registered, out, closed
MaxLine == 3
Paths == {<<>>, <<97>>, <<47>>, <<97, 47, 98>>, <<47, 47, 99, 47>>}
Msgs == {<<>>, <<120>>, <<120, 121, 122, 119>>}
Errnos == {0, 2}
Prios == {3, 4}
DefaultPrio == 4
StrError(e) == IF e = 0 THEN <<83>> ELSE <<78, 111>>
INSTANCE Warnp
=============================================================================
