------------------------------- MODULE Warnp -------------------------------
(***************************************************************************)
(* util/warnp.[ch]: the diagnostics channel every other module reports      *)
(* through.  State kept by the process: the program name (unset until       *)
(* warnp_setprogname), the syslog switch and priority, errno, and whether   *)
(* the exit handler is registered.  Each call emits at most one record:     *)
(* a line on stderr or one syslog(3) message.  Texts are byte sequences.    *)
(*                                                                         *)
(* What a caller relies on, and what the invariants / action properties     *)
(* below state for every history:                                           *)
(*  - warn and warnx preserve errno; warnp and warn0 leave it 0;            *)
(*  - the stderr line is "<name>[: <message>][: <strerror>]\n", name being  *)
(*    the last path segment of what was given, "(unknown)" before that;     *)
(*  - the syslog message never carries the name (syslog adds its own), its  *)
(*    message part is truncated to MaxLine bytes, its priority is the last  *)
(*    one set, whether or not syslog was enabled at that time;              *)
(*  - closelog(3) is called exactly when syslog output is switched off      *)
(*    after having been on, and once at exit if it is on then;              *)
(*  - nothing is emitted by the configuration calls.                        *)
(***************************************************************************)
EXTENDS Integers, Sequences
CONSTANTS MaxLine,      \* WARNP_SYSLOG_MAX_LINE
          Paths, Msgs, Errnos, Prios, DefaultPrio,
          StrError(_)   \* the C library's text for an errno value (used by Next only: the actions take the text as a parameter)
VARIABLES name,         \* <<>> wrapped: <<bytes>> when set, <<>> when unset
          sys,          \* the integer last given to warnp_syslog (0 = stderr)
          prio, err, registered,
          out,          \* the record emitted by the last step ("none" if nothing)
          closed        \* number of closelog calls made by the last step
vars == <<name, sys, prio, err, registered, out, closed>>

Slash == 47
Unknown == <<40, 117, 110, 107, 110, 111, 119, 110, 41>>     \* "(unknown)"
ColonSp == <<58, 32>>
NL == <<10>>
NoFmt == <<-1>>                                                \* a NULL format string

\* the last path segment: everything after the last '/', the whole string if there is none
LastSeg(p) == LET S == {i \in 1..Len(p) : p[i] = Slash}
              IN IF S = {} THEN p ELSE SubSeq(p, (CHOOSE i \in S : \A j \in S : j <= i) + 1, Len(p))
NameText == IF name = <<>> THEN Unknown ELSE name[1]
Trunc(m) == IF Len(m) > MaxLine THEN SubSeq(m, 1, MaxLine) ELSE m

\* es: the text of the errno value in force (strerror)
StderrLine(m, witherr, es) == NameText \o (IF m = NoFmt THEN <<>> ELSE ColonSp \o m)
                                       \o (IF witherr THEN ColonSp \o es ELSE <<>>) \o NL
SyslogText(m, witherr, es) == (IF m = NoFmt THEN <<>> ELSE Trunc(m) \o (IF witherr THEN ColonSp ELSE <<>>))
                                  \o (IF witherr THEN es ELSE <<>>) \o NL
Emit(m, witherr, es) == IF sys = 0 THEN [to |-> "stderr", text |-> StderrLine(m, witherr, es)]
                        ELSE [to |-> "syslog", prio |-> prio, text |-> SyslogText(m, witherr, es)]
None == [to |-> "none"]

Init == /\ name = <<>> /\ sys = 0 /\ prio = DefaultPrio /\ err \in Errnos /\ registered = FALSE
        /\ out = None /\ closed = 0

SetProgname(p) == /\ name' = <<LastSeg(p)>> /\ registered' = TRUE
                  /\ out' = None /\ closed' = 0 /\ UNCHANGED <<sys, prio, err>>
\* WARNP_INIT with argv[0] = NULL does nothing
InitNull == out' = None /\ closed' = 0 /\ UNCHANGED <<name, sys, prio, err, registered>>
Syslog(on) == /\ sys' = on /\ closed' = (IF sys # 0 /\ on = 0 THEN 1 ELSE 0)
              /\ out' = None /\ UNCHANGED <<name, prio, err, registered>>
Priority(p) == /\ prio' = p /\ out' = None /\ closed' = 0 /\ UNCHANGED <<name, sys, err, registered>>
\* some other code sets errno between two calls
SetErrno(e) == /\ err' = e /\ out' = None /\ closed' = 0 /\ UNCHANGED <<name, sys, prio, registered>>

Warn(m, es) == /\ out' = Emit(m, TRUE, es) /\ closed' = 0 /\ UNCHANGED <<name, sys, prio, err, registered>>
Warnx(m) == /\ out' = Emit(m, FALSE, <<>>) /\ closed' = 0 /\ UNCHANGED <<name, sys, prio, err, registered>>
\* the macros (never with a NULL format)
WarnP(m, es) == /\ m # NoFmt /\ out' = Emit(m, err # 0, es) /\ err' = 0 /\ closed' = 0 /\ UNCHANGED <<name, sys, prio, registered>>
Warn0(m) == /\ m # NoFmt /\ out' = Emit(m, FALSE, <<>>) /\ err' = 0 /\ closed' = 0 /\ UNCHANGED <<name, sys, prio, registered>>

\* the process exits: the registered handler releases the name and closes the log if it is in use
ExitClosed == IF registered /\ sys # 0 THEN 1 ELSE 0

Next == \/ \E p \in Paths : SetProgname(p)
        \/ InitNull
        \/ \E on \in {0, 1, 2} : Syslog(on)
        \/ \E p \in Prios : Priority(p)
        \/ \E e \in Errnos : SetErrno(e)
        \/ \E m \in Msgs \cup {NoFmt} : Warn(m, StrError(err)) \/ Warnx(m) \/ WarnP(m, StrError(err)) \/ Warn0(m)
Spec == Init /\ [][Next]_vars

----------------------------------------------------------------------------
TypeOK == /\ sys \in Int /\ prio \in Prios \cup {DefaultPrio} /\ err \in Errnos \cup {0}
          /\ closed \in {0, 1} /\ out.to \in {"none", "stderr", "syslog"}
\* a record goes where the switch says, and a syslog record carries the current priority
Routed == /\ out.to = "stderr" => sys = 0
          /\ out.to = "syslog" => sys # 0 /\ out.prio = prio
\* every record is one line: it ends with the only newline it contains (messages here have none)
OneLine == out.to # "none" =>
             /\ out.text[Len(out.text)] = 10
             /\ \A i \in 1..(Len(out.text) - 1) : out.text[i] # 10
\* the name never appears in a syslog record; on stderr the line starts with it
NameRule == /\ out.to = "stderr" => SubSeq(out.text, 1, Len(NameText)) = NameText
            /\ out.to = "syslog" => \E e \in Errnos \cup {0} : Len(out.text) <= MaxLine + 2 + Len(StrError(e)) + 1
\* the displayed name never contains a '/'
NoSlash == \A i \in 1..Len(NameText) : NameText[i] # Slash
Inv == TypeOK /\ Routed /\ OneLine /\ NameRule /\ NoSlash

\* errno: only the two macros and foreign code change it; the functions preserve it
ErrnoRule == [][(err' # err) => (err' = 0 \/ out' = None)]_vars
\* closelog is called only on the transition from on to off
CloseRule == [][(closed' = 1) <=> (sys # 0 /\ sys' = 0)]_vars
=============================================================================
