----------------------------- MODULE ReadpassMC -----------------------------
(* Every environment: devtty 0..3, /dev/tty openable or not, terminal or not, terminal calls failing or not, every input of up to
   4 reads over three lines (two of which differ only after the line end) / EOF / error, signals of two kinds at any moment. *)
EXTENDS Integers, Sequences, FiniteSets
VARIABLES pc, dev, conf, stream, ttyOpen, usingtty, hInstalled, echoOff, caught, reraised, first, nreads, prompts, rc, pass, closed
Sigs == <<"ALRM", "INT">>
Lines == {<<97, 10>>, <<97, 13, 10>>, <<98>>}
MaxReads == 4
INSTANCE Readpass
=============================================================================
