SPECIFICATION Spec
INVARIANT Inv
PROPERTY ErrnoRule
PROPERTY CloseRule
CHECK_DEADLOCK FALSE
