--------------------------- MODULE ReadpassTrace ---------------------------
(***************************************************************************)
(* Executions of the real util/readpass.c in a scripted environment         *)
(* (harness/drv_readpass.c) against Readpass.tla: one event per call the    *)
(* function makes (in its order), every piece of text it writes, what the   *)
(* caller's own signal handlers receive, and the state it leaves behind.    *)
(***************************************************************************)
EXTENDS TraceBase, Integers, FiniteSets, VPrims
VARIABLES pc, dev, conf, stream, ttyOpen, usingtty, hInstalled, echoOff, caught, reraised, first, nreads, prompts, rc, pass, closed,
          napp,      \* signals that reached the caller's handlers
          warned     \* warning lines written
Sigs == <<"ALRM", "HUP", "INT", "PIPE", "QUIT", "TERM", "TSTP", "TTIN", "TTOU">>
Lines == {}
MaxReads == 0
M == INSTANCE Readpass
mvars == <<pc, dev, conf, stream, ttyOpen, usingtty, hInstalled, echoOff, caught, reraised, first, nreads, prompts, rc, pass, closed>>
vars == <<l, mvars, napp, warned>>
B(h) == BytesOf(h)
MAXPASSLEN == 2048

Blank == /\ pc' = "idle" /\ dev' = 0 /\ conf' = FALSE /\ stream' = "none" /\ ttyOpen' = FALSE /\ usingtty' = FALSE /\ hInstalled' = FALSE
         /\ echoOff' = FALSE /\ caught' = {} /\ reraised' = <<>> /\ first' = M!NoLine /\ nreads' = 0 /\ prompts' = <<>> /\ rc' = -2
         /\ pass' = M!NoLine /\ closed' = FALSE /\ napp' = 0 /\ warned' = 0
Init == /\ l = 1 /\ pc = "idle" /\ dev = 0 /\ conf = FALSE /\ stream = "none" /\ ttyOpen = FALSE /\ usingtty = FALSE /\ hInstalled = FALSE
        /\ echoOff = FALSE /\ caught = {} /\ reraised = <<>> /\ first = M!NoLine /\ nreads = 0 /\ prompts = <<>> /\ rc = -2
        /\ pass = M!NoLine /\ closed = FALSE /\ napp = 0 /\ warned = 0
TReset == IsEvent("reset") /\ Blank
Quiet == UNCHANGED <<napp, warned>>
\* (several calls of one execution are made by the same process: nothing of an earlier call may show in a later one)
TCall == /\ IsEvent("call") /\ pc = "idle" /\ pc' = "start" /\ dev' = Ev.dev /\ conf' = Ev.conf
         /\ stream' = "none" /\ ttyOpen' = FALSE /\ usingtty' = FALSE /\ hInstalled' = FALSE /\ echoOff' = FALSE /\ caught' = {} /\ reraised' = <<>>
         /\ first' = M!NoLine /\ nreads' = 0 /\ prompts' = <<>> /\ rc' = -2 /\ pass' = M!NoLine /\ closed' = FALSE /\ napp' = 0 /\ warned' = 0
\* devtty = 0 goes straight to the handlers: the first event of such a call is the installation
TInstall == /\ IsEvent("install") /\ Ev.n = 9 /\ Quiet
            /\ IF pc = "start" /\ dev = 0
               THEN /\ stream' = "stdin" /\ hInstalled' = TRUE /\ caught' = {} /\ pc' = "isatty"
                    /\ UNCHANGED <<dev, conf, ttyOpen, usingtty, echoOff, reraised, first, nreads, prompts, rc, pass, closed>>
               ELSE M!Install
TFopen == IsEvent("fopen_tty") /\ M!OpenTty(Ev.ok) /\ Quiet
StreamOK == Ev.stream = (IF stream = "tty" THEN 1 ELSE 0)
TIsatty == IsEvent("isatty") /\ StreamOK /\ M!IsATty(Ev.ret) /\ Quiet
TTcget == IsEvent("tcget") /\ StreamOK /\ M!TcGet(Ev.ok) /\ Quiet
\* switching echo off: at once, ECHO cleared, ECHONL set, nothing else touched; restoring: exactly what was found
TTcset == /\ IsEvent("tcset") /\ StreamOK /\ Quiet
          /\ IF pc = "tcoff" THEN /\ M!TcOff(Ev.ok) /\ Ev.action = "now" /\ ~Ev.echo /\ Ev.echonl /\ Ev.rest_same
             ELSE /\ M!TcRestore(Ev.action = "flush") /\ Ev.action \in {"now", "flush"} /\ Ev.orig /\ Ev.ok
TOut == /\ IsEvent("out")
        /\ CASE Ev.k \in {1, 2} -> M!Prompt(Ev.k) /\ Quiet
             [] Ev.k = 3 -> M!Mismatch /\ Quiet
             [] OTHER -> \* a warning line: only where the function has just met a failure, and it begins with the program name
                  /\ SubSeq(B(Ev.text), 1, 4) = <<114, 112, 58, 32>>              \* "rp: "
                  /\ warned' = warned + 1 /\ napp' = napp
                  /\ IF pc = "start" THEN M!BadDev                                \* an unsupported devtty value: said, and nothing else done
                     ELSE /\ IF pc = "done" THEN rc = -1 ELSE pc \in {"tcrestore_err", "close_err", "sigs_err"}
                          /\ UNCHANGED mvars
TSignal == IsEvent("signal") /\ M!Signal(Ev.sig) /\ Quiet
\* fgets is asked for at most the buffer; what it returns is the line (at most 2047 bytes)
TFgets == /\ IsEvent("fgets") /\ StreamOK /\ Ev.size = MAXPASSLEN /\ Quiet
          /\ M!Read(Ev.kind, IF Ev.kind = "line" THEN B(Ev.line) ELSE <<>>)
TSigrestore == IsEvent("sigrestore") /\ Ev.n = 9 /\ M!SigRestore /\ Quiet
TRaise == IsEvent("raise") /\ M!Raise(Ev.sig) /\ Quiet
\* the re-issued signal reaches the caller's handler (its disposition is back)
TAppSig == /\ IsEvent("app_sig") /\ reraised # <<>> /\ reraised[Len(reraised)] = Ev.sig /\ napp = Len(reraised) - 1
           /\ napp' = napp + 1 /\ UNCHANGED <<mvars, warned>>
TFclose == IsEvent("fclose") /\ Ev.tty /\ M!Close /\ Quiet
TRet == /\ IsEvent("ret") /\ pc = "done" /\ Ev.rc = rc
        /\ Ev.disp_ok /\ Ev.term_ok /\ ~Ev.tty_open /\ Ev.napp = Len(reraised) /\ napp = Len(reraised)
        /\ (rc = 0) = Has("pass")
        /\ (rc = 0) => (B(Ev.pass) = pass /\ warned = 0)
        /\ (rc = -1) => warned = 1                                                \* a failure says why, once
        /\ pc' = "idle" /\ UNCHANGED <<dev, conf, stream, ttyOpen, usingtty, hInstalled, echoOff, caught, reraised, first, nreads, prompts, rc, pass, closed>> /\ Quiet
Next == TReset \/ TCall \/ TInstall \/ TFopen \/ TIsatty \/ TTcget \/ TTcset \/ TOut \/ TSignal \/ TFgets \/ TSigrestore \/ TRaise \/ TAppSig
        \/ TFclose \/ TRet
Spec == Init /\ [][Next]_vars
Inv == M!Inv
=============================================================================
