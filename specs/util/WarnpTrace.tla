----------------------------- MODULE WarnpTrace -----------------------------
(***************************************************************************)
(* Executions of the real util/warnp.c (harness/drv_warnp.c: one forked     *)
(* child per program, stderr captured, syslog / closelog recorded) against  *)
(* Warnp.tla: every byte emitted, errno after the call, every closelog,     *)
(* and at exit the handler's closelog and the release of the name.          *)
(***************************************************************************)
EXTENDS TraceBase, Integers, VPrims
VARIABLES name, sys, prio, err, registered, out, closed, xcl
MaxLine == 4095
Paths == {}
Msgs == {}
Errnos == {}
Prios == {}
DefaultPrio == 4          \* LOG_WARNING
StrError(e) == <<>>       \* (the trace carries the C library's text)
M == INSTANCE Warnp
mvars == <<name, sys, prio, err, registered, out, closed>>
vars == <<l, mvars, xcl>>
B(h) == BytesOf(h)

Init == l = 1 /\ name = <<>> /\ sys = 0 /\ prio = DefaultPrio /\ err = 0 /\ registered = FALSE /\ out = M!None /\ closed = 0 /\ xcl = 0
TReset == /\ IsEvent("reset")
          /\ name' = <<>> /\ sys' = 0 /\ prio' = DefaultPrio /\ err' = 0 /\ registered' = FALSE /\ out' = M!None /\ closed' = 0 /\ xcl' = 0
Quiet == Ev.ncl = closed' /\ xcl' = xcl
TName == IsEvent("name") /\ M!SetProgname(B(Ev.path)) /\ Quiet
TInit == IsEvent("init") /\ (IF Ev.null THEN M!InitNull ELSE M!SetProgname(B(Ev.path))) /\ Quiet
TSyslog == IsEvent("syslog") /\ M!Syslog(Ev.on) /\ Quiet
TPrio == IsEvent("prio") /\ M!Priority(Ev.p) /\ Quiet
TErrno == IsEvent("errno") /\ M!SetErrno(Ev.v) /\ xcl' = xcl
TMsg == /\ IsEvent("msg")
        /\ LET m == IF Ev.fmt = 0 THEN M!NoFmt ELSE B(Ev.want)
               es == B(Ev.es)
           IN CASE Ev.kind = "warn" -> M!Warn(m, es)
                [] Ev.kind = "warnx" -> M!Warnx(m)
                [] Ev.kind = "warnp" -> M!WarnP(m, es)
                [] Ev.kind = "warn0" -> M!Warn0(m)
        /\ Ev.errno = err /\ Ev.errno_after = err'
        /\ IF out'.to = "stderr"
           THEN Ev.nsys = 0 /\ Ev.stderr = HexOf(out'.text)
           ELSE Ev.nsys = 1 /\ Ev.sprio = out'.prio /\ Ev.stext = HexOf(out'.text) /\ Ev.stderr = ""
        /\ Quiet
\* the process exits: the handler's closelog, then (last) the driver's own handler
TCloseAtExit == IsEvent("closelog_atexit") /\ xcl' = xcl + 1 /\ UNCHANGED mvars
TAtexit == IsEvent("atexit") /\ xcl = M!ExitClosed /\ Ev.ncl = xcl /\ Ev.live = 0 /\ UNCHANGED <<mvars, xcl>>
TExit == IsEvent("exit") /\ UNCHANGED <<mvars, xcl>>
Next == TReset \/ TName \/ TInit \/ TSyslog \/ TPrio \/ TErrno \/ TMsg \/ TCloseAtExit \/ TAtexit \/ TExit
Spec == Init /\ [][Next]_vars
Inv == M!Routed /\ M!NoSlash
=============================================================================
