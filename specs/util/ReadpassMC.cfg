SPECIFICATION Spec
INVARIANT Inv
CHECK_DEADLOCK FALSE
