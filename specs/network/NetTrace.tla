------------------------------ MODULE NetTrace ------------------------------
(***************************************************************************)
(* Property C06 as a trace specification over executions of the real        *)
(* network_read / network_write / network_connect / network_accept on the   *)
(* real event loop with scripted sockets (harness/fakenet.h).               *)
(*                                                                          *)
(* Environment (as logged): per descriptor the lists of answers the kernel  *)
(* will give to recv / send / accept (rxq, txq, axq), and per connection    *)
(* request the plan of each address.  Abstract state: requests with their   *)
(* progress `pos`, the stream offsets, the connection attempt in progress.  *)
(* Every guard is a clause of the statement.                                *)
(***************************************************************************)
EXTENDS TraceBase, Integers, FiniteSets, VPrims
CONSTANTS MAXREQ, MAXFD
Reqs == 1..MAXREQ
FDS == 0..(MAXFD - 1)

VARIABLES req,       \* id -> [kind, fd, buflen, min, pos, state, spos0, last]
          rdr, wtr,  \* fd -> id of the pending read / write (or accept) request, 0 none
          rpos, wpos,\* fd -> bytes delivered by recv / accepted by send so far
          rxq, txq, axq,   \* fd -> remaining scripted answers [kind, n]
          conn,      \* the connection request in progress (a record), or NoConn
          clock, incb,
          fatal      \* C14: the loop reported a refused allocation; requests that were being re-armed may be dead (cancel still releases them)
vars == <<l, req, rdr, wtr, rpos, wpos, rxq, txq, axq, conn, clock, incb, fatal>>

NoReq == [kind |-> "none", fd |-> 0, buflen |-> 0, min |-> 0, pos |-> 0, state |-> "none", spos0 |-> 0, last |-> "NONE"]
NoConn == [id |-> 0, plan |-> <<>>, idx |-> 0, cur |-> -1, open |-> {}, timeo |-> -1, start |-> <<0, 0>>, inprog |-> FALSE, result |-> "none"]
Clk(p) == <<Ev[p \o "s"], Ev[p \o "u"]>>
TLeq(a, b) == a[1] < b[1] \/ (a[1] = b[1] /\ a[2] <= b[2])
TAddUs(a, us) == LET u == a[2] + (us % 1000000) IN
                 IF u >= 1000000 THEN <<a[1] + (us \div 1000000) + 1, u - 1000000>> ELSE <<a[1] + (us \div 1000000), u>>
RxByte(fd, o) == (o * 7 + fd * 13 + 1) % 251
TxByte(r, o) == (o * 11 + r * 5 + 3) % 251

Init0 == /\ req = [i \in Reqs |-> NoReq] /\ rdr = [f \in FDS |-> 0] /\ wtr = [f \in FDS |-> 0]
         /\ rpos = [f \in FDS |-> 0] /\ wpos = [f \in FDS |-> 0]
         /\ rxq = [f \in FDS |-> <<>>] /\ txq = [f \in FDS |-> <<>>] /\ axq = [f \in FDS |-> <<>>]
         /\ conn = NoConn /\ clock = <<1, 0>> /\ incb = 0 /\ fatal = FALSE
Init == l = 1 /\ Init0
TReset == /\ IsEvent("reset")
          /\ req' = [i \in Reqs |-> NoReq] /\ rdr' = [f \in FDS |-> 0] /\ wtr' = [f \in FDS |-> 0]
          /\ rpos' = [f \in FDS |-> 0] /\ wpos' = [f \in FDS |-> 0]
          /\ rxq' = [f \in FDS |-> <<>>] /\ txq' = [f \in FDS |-> <<>>] /\ axq' = [f \in FDS |-> <<>>]
          /\ conn' = NoConn /\ clock' = <<1, 0>> /\ incb' = 0 /\ fatal' = FALSE
Keep(v) == UNCHANGED v /\ UNCHANGED fatal

\* ---- environment script ----
Push(q) == [q EXCEPT ![Ev.fd] = Append(@, [kind |-> Ev.kind, n |-> Ev.n])]
TRx == IsEvent("rx") /\ Ev.fd \in FDS /\ rxq' = Push(rxq) /\ Keep(<<req, rdr, wtr, rpos, wpos, txq, axq, conn, clock, incb>>)
TTx == IsEvent("tx") /\ Ev.fd \in FDS /\ txq' = Push(txq) /\ Keep(<<req, rdr, wtr, rpos, wpos, rxq, axq, conn, clock, incb>>)
TAx == IsEvent("ax") /\ Ev.fd \in FDS /\ axq' = Push(axq) /\ Keep(<<req, rdr, wtr, rpos, wpos, rxq, txq, conn, clock, incb>>)
\* how an answer list reacts to a call that was answered `ans` and transferred `ret` bytes
Consume(q, ans, ret) ==
  IF ans = "NOTREADY" \/ q = <<>> THEN q
  ELSE IF ans = "DATA" THEN (IF Head(q).n - ret <= 0 THEN Tail(q) ELSE <<[Head(q) EXCEPT !.n = @ - ret]>> \o Tail(q))
  ELSE IF ans \in {"EAGAIN", "EINTR"} THEN Tail(q)
  ELSE q                                                     \* EOF and hard errors are sticky
\* the wrapper's answer is the head of the list (sanity of the environment itself)
AnswerOK(q, ans) == ans = "NOTREADY" \/ (q # <<>> /\ Head(q).kind = ans)

\* ---- time passes only in poll and tick ----
TPoll == /\ IsEvent("poll") /\ TLeq(clock, Clk("c1")) /\ clock' = Clk("c1")
         /\ Keep(<<req, rdr, wtr, rpos, wpos, rxq, txq, axq, conn, incb>>)
TTick == /\ IsEvent("tick") /\ TLeq(clock, Clk("c")) /\ clock' = Clk("c")
         /\ Keep(<<req, rdr, wtr, rpos, wpos, rxq, txq, axq, conn, incb>>)
TRunCall == IsEvent("run_call") /\ incb = 0 /\ Keep(<<req, rdr, wtr, rpos, wpos, rxq, txq, axq, conn, clock, incb>>)
\* the loop reports failure only if an allocation was refused (C14) or a callback said so
TRunRet == /\ IsEvent("run_ret") /\ incb = 0
           /\ IF conn.result = "fatal" /\ conn.id # 0
              THEN Ev.rc # 0 /\ Ev.inj > 0 /\ conn.open = {} /\ req' = [req EXCEPT ![conn.id].state = "failed"] /\ conn' = NoConn
              ELSE UNCHANGED <<req, conn>>
           /\ UNCHANGED <<rdr, wtr, rpos, wpos, rxq, txq, axq, clock, incb>> /\ fatal' = (fatal \/ (Ev.rc # 0 /\ Ev.inj > 0))
TEnv == IsEvent("env") /\ Keep(<<req, rdr, wtr, rpos, wpos, rxq, txq, axq, conn, clock, incb>>)

\* ---- read / write requests ----
CtxOK == Ev.ctx = incb
\* C06: "a cancelled request ... leaves the descriptor free for a new request": a request is refused only when one is
\* already pending in that direction (or an allocation was refused, C14)
TReqRW(ev, kind) ==
  /\ IsEvent(ev) /\ CtxOK /\ Ev.req \in Reqs /\ req[Ev.req].state = "none" /\ Ev.fd \in FDS
  /\ LET busy == IF kind = "r" THEN rdr[Ev.fd] # 0 ELSE wtr[Ev.fd] # 0 IN
     IF Ev.ok
     THEN /\ ~busy
          /\ req' = [req EXCEPT ![Ev.req] = [NoReq EXCEPT !.kind = kind, !.fd = Ev.fd, !.buflen = Ev.buflen, !.min = Ev.min,
                                                          !.state = "pending", !.spos0 = (IF kind = "r" THEN rpos[Ev.fd] ELSE wpos[Ev.fd])]]
          /\ IF kind = "r" THEN rdr' = [rdr EXCEPT ![Ev.fd] = Ev.req] /\ Keep(wtr)
             ELSE wtr' = [wtr EXCEPT ![Ev.fd] = Ev.req] /\ Keep(rdr)
     ELSE /\ busy \/ Ev.inj > 0
          /\ req' = [req EXCEPT ![Ev.req].state = "failed"] /\ Keep(<<rdr, wtr>>)
  /\ Keep(<<rpos, wpos, rxq, txq, axq, conn, clock, incb>>)
TReqRead == TReqRW("req_read", "r")
TReqWrite == TReqRW("req_write", "w")

\* a request is complete once it has transferred at least max(min, 1) bytes
Complete(r) == r.pos >= r.min /\ r.pos > 0
\* recv: only for the pending read request of that descriptor, at buffer + pos, for buflen - pos bytes
TRecv ==
  /\ IsEvent("recv") /\ Ev.fd \in FDS /\ rdr[Ev.fd] # 0
  /\ LET r == req[rdr[Ev.fd]] IN
     /\ r.kind = "r" /\ r.state = "pending" /\ ~Complete(r)        \* transfers nothing once complete / cancelled
     /\ r.last \notin {"EOF", "ERR"}
     /\ Ev.req = rdr[Ev.fd] /\ Ev.off = r.pos /\ Ev.len = r.buflen - r.pos
     /\ Ev.spos = rpos[Ev.fd] /\ AnswerOK(rxq[Ev.fd], Ev.ans)
     /\ req' = [req EXCEPT ![rdr[Ev.fd]].pos = @ + (IF Ev.ret > 0 THEN Ev.ret ELSE 0), ![rdr[Ev.fd]].last = Ev.ans]
     /\ rpos' = [rpos EXCEPT ![Ev.fd] = @ + (IF Ev.ret > 0 THEN Ev.ret ELSE 0)]
     /\ rxq' = [rxq EXCEPT ![Ev.fd] = Consume(@, Ev.ans, Ev.ret)]
  /\ Keep(<<rdr, wtr, wpos, txq, axq, conn, clock, incb>>)
\* send: exactly the bytes buffer[pos .. pos+len), MSG_NOSIGNAL
TSend ==
  /\ IsEvent("send") /\ Ev.fd \in FDS /\ wtr[Ev.fd] # 0
  /\ LET r == req[wtr[Ev.fd]] IN
     /\ r.kind = "w" /\ r.state = "pending" /\ ~Complete(r) /\ r.last # "ERR"
     /\ Ev.req = wtr[Ev.fd] /\ Ev.off = r.pos /\ Ev.len = r.buflen - r.pos
     /\ Ev.nosignal /\ Ev.dataok /\ AnswerOK(txq[Ev.fd], Ev.ans)
     /\ (Has("data") => BytesOf(Ev.data) = [i \in 1..Ev.ret |-> TxByte(Ev.req, r.pos + i - 1)])   \* precisely the next bytes, in order
     /\ req' = [req EXCEPT ![wtr[Ev.fd]].pos = @ + (IF Ev.ret > 0 THEN Ev.ret ELSE 0), ![wtr[Ev.fd]].last = Ev.ans]
     /\ wpos' = [wpos EXCEPT ![Ev.fd] = @ + (IF Ev.ret > 0 THEN Ev.ret ELSE 0)]
     /\ txq' = [txq EXCEPT ![Ev.fd] = Consume(@, Ev.ans, Ev.ret)]
  /\ Keep(<<rdr, wtr, rpos, rxq, axq, conn, clock, incb>>)

\* completion callback: exactly once, with n = bytes transferred, min <= n <= buflen; 0 only at end-of-stream; -1 only on error
TCb ==
  /\ IsEvent("cb") /\ incb = 0 /\ Ev.req \in Reqs
  /\ LET r == req[Ev.req] IN
     /\ r.state = "pending" /\ r.kind \in {"r", "w"}
     /\ CASE Ev.n > 0 -> /\ Ev.n = r.pos /\ Ev.n >= r.min /\ Ev.n <= r.buflen /\ Ev.dataok
                         /\ (r.kind = "r" /\ Has("data")) =>
                              BytesOf(Ev.data) = [i \in 1..Ev.n |-> RxByte(r.fd, r.spos0 + i - 1)]   \* precisely the next n bytes of the stream
          [] Ev.n = 0 -> r.kind = "r" /\ r.last = "EOF"
          [] Ev.n = -1 -> r.last = "ERR" \/ Ev.inj > 0
          [] OTHER -> FALSE
     /\ req' = [req EXCEPT ![Ev.req].state = "done"]
     /\ IF r.kind = "r" THEN rdr' = [rdr EXCEPT ![r.fd] = 0] /\ Keep(wtr) ELSE wtr' = [wtr EXCEPT ![r.fd] = 0] /\ Keep(rdr)
  /\ incb' = Ev.req
  /\ Keep(<<rpos, wpos, rxq, txq, axq, conn, clock>>)
TCbRet == IsEvent("cb_ret") /\ incb = Ev.req /\ incb' = 0 /\ Keep(<<req, rdr, wtr, rpos, wpos, rxq, txq, axq, conn, clock>>)

\* cancel: no callback and no transfer afterwards (the request is no longer pending); sockets of a cancelled connection are closed
TCancel ==
  /\ IsEvent("cancel") /\ CtxOK /\ Ev.req \in Reqs /\ req[Ev.req].state = "pending"
  /\ LET r == req[Ev.req] IN
     /\ req' = [req EXCEPT ![Ev.req].state = "cancelled"]
     /\ rdr' = (IF r.kind \in {"r", "a"} THEN [rdr EXCEPT ![r.fd] = 0] ELSE rdr)
     /\ wtr' = (IF r.kind = "w" THEN [wtr EXCEPT ![r.fd] = 0] ELSE wtr)
     /\ IF r.kind = "c" THEN conn.id = Ev.req /\ conn.open = {} /\ conn' = NoConn ELSE Keep(conn)
  /\ Keep(<<rpos, wpos, rxq, txq, axq, clock, incb>>)

\* ---- connect ----
PlanKind(i) == conn.plan[i + 1][1]
PlanT(i) == conn.plan[i + 1][2]
TReqConnect ==
  /\ IsEvent("req_connect") /\ CtxOK /\ Ev.req \in Reqs /\ req[Ev.req].state = "none" /\ conn.id = 0
  /\ conn' = [NoConn EXCEPT !.id = Ev.req, !.plan = Ev.plan, !.timeo = Ev.timeo]
  /\ req' = [req EXCEPT ![Ev.req] = [NoReq EXCEPT !.kind = "c", !.state = "starting"]]
  /\ Keep(<<rdr, wtr, rpos, wpos, rxq, txq, axq, clock, incb>>)
\* addresses are tried strictly in order: the attempt on address idx starts only when no attempt is in progress
TSocket ==
  /\ IsEvent("socket") /\ conn.id # 0 /\ conn.cur = -1 /\ ~conn.inprog /\ conn.idx < Len(conn.plan)
  /\ IF Ev.fd = -1 THEN PlanKind(conn.idx) = "S" /\ conn' = [conn EXCEPT !.idx = @ + 1]
     ELSE PlanKind(conn.idx) # "S" /\ conn' = [conn EXCEPT !.cur = Ev.fd, !.open = @ \cup {Ev.fd}]
  /\ Keep(<<req, rdr, wtr, rpos, wpos, rxq, txq, axq, clock, incb>>)
TConnectCall ==
  /\ IsEvent("connect_call") /\ conn.id # 0 /\ Ev.fd = conn.cur /\ Ev.addr = conn.idx /\ ~conn.inprog
  /\ conn' = [conn EXCEPT !.inprog = (Ev.ret = 0 \/ Ev.errno \in {115, 4}), !.start = clock,
                          !.result = (IF Ev.ret = 0 \/ Ev.errno \in {115, 4} THEN "inprogress" ELSE "failed")]
  /\ Keep(<<req, rdr, wtr, rpos, wpos, rxq, txq, axq, clock, incb>>)
\* the kernel reported the outcome of the attempt in progress
TGetSockOpt ==
  /\ IsEvent("getsockopt") /\ conn.id # 0 /\ conn.inprog /\ Ev.fd = conn.cur
  /\ (Has("premature") => ~Ev.premature)      \* only once the kernel has reported the attempt as finished (SO_ERROR reads 0 before that)
  /\ conn' = [conn EXCEPT !.result = (IF Ev.err = 0 THEN "connected" ELSE "failed"), !.inprog = FALSE]
  /\ Keep(<<req, rdr, wtr, rpos, wpos, rxq, txq, axq, clock, incb>>)
\* closing the socket of an attempt: it failed, or it was abandoned because its timeout expired, or the request is being cancelled
TClose ==
  /\ IsEvent("close") /\ conn.id # 0 /\ Ev.fd \in conn.open
  /\ \/ /\ Ev.fd = conn.cur /\ conn.result = "failed"                                        \* this address did not work
        /\ conn' = [conn EXCEPT !.open = @ \ {Ev.fd}, !.cur = -1, !.idx = @ + 1, !.result = "none"]
     \/ /\ Ev.fd = conn.cur /\ conn.inprog /\ conn.timeo >= 0
        /\ TLeq(TAddUs(conn.start, conn.timeo), clock)                                      \* per-address timeout, not earlier
        /\ conn' = [conn EXCEPT !.open = @ \ {Ev.fd}, !.cur = -1, !.idx = @ + 1, !.inprog = FALSE, !.result = "none"]
     \/ /\ Ev.fd = conn.cur /\ l + 1 <= Len(Tr) /\ Tr[l + 1].e = "cancel"                                        \* network_connect_cancel closes it
        /\ conn' = [conn EXCEPT !.open = @ \ {Ev.fd}, !.cur = -1, !.inprog = FALSE]
     \/ \* C14: a refused allocation while (re)starting an attempt is fatal for the request: socket closed, failure reported, no callback
        /\ Ev.fd = conn.cur /\ l + 1 <= Len(Tr) /\ Tr[l + 1].e \in {"run_ret", "req_connect_ret"} /\ Tr[l + 1].inj > 0
        /\ conn' = [conn EXCEPT !.open = @ \ {Ev.fd}, !.cur = -1, !.inprog = FALSE, !.result = "fatal"]
  /\ Keep(<<req, rdr, wtr, rpos, wpos, rxq, txq, axq, clock, incb>>)
TReqConnectRet ==
  /\ IsEvent("req_connect_ret") /\ conn.id = Ev.req
  /\ IF Ev.ok THEN req' = [req EXCEPT ![Ev.req].state = "pending"] /\ Keep(conn)
     ELSE Ev.inj > 0 /\ conn.open = {} /\ req' = [req EXCEPT ![Ev.req].state = "failed"] /\ conn' = NoConn
  /\ Keep(<<rdr, wtr, rpos, wpos, rxq, txq, axq, clock, incb>>)

\* socket callbacks (connect and accept): exactly one per request
TCbSock ==
  /\ IsEvent("cb_sock") /\ incb = 0 /\ Ev.req \in Reqs /\ req[Ev.req].state = "pending"
  /\ IF req[Ev.req].kind = "c"
     THEN /\ conn.id = Ev.req
          /\ IF Ev.s >= 0
             THEN /\ Ev.s = conn.cur /\ conn.result = "connected" /\ Ev.addr = conn.idx     \* the first socket that connected
                  /\ conn.open = {Ev.s}                                                       \* every other socket was closed
             ELSE /\ Ev.s = -1 /\ conn.idx = Len(conn.plan) /\ conn.open = {}                \* -1 only when none connected
          /\ conn' = NoConn /\ Keep(<<rdr, axq>>)
     ELSE /\ req[Ev.req].kind = "a"
          /\ LET f == req[Ev.req].fd IN
             /\ rdr[f] = Ev.req
             /\ IF Ev.s >= 0 THEN req[Ev.req].last = "DATA" /\ Ev.s = req[Ev.req].pos        \* the accepted socket
                ELSE Ev.s = -1 /\ (req[Ev.req].last = "ERR" \/ Ev.inj > 0)                    \* -1 only on a hard error
             /\ rdr' = [rdr EXCEPT ![f] = 0]
          /\ Keep(<<conn, axq>>)
  /\ req' = [req EXCEPT ![Ev.req].state = "done"]
  /\ incb' = Ev.req
  /\ Keep(<<wtr, rpos, wpos, rxq, txq, clock>>)

\* ---- accept ----
TReqAccept ==
  /\ IsEvent("req_accept") /\ CtxOK /\ Ev.req \in Reqs /\ req[Ev.req].state = "none" /\ Ev.fd \in FDS
  /\ IF Ev.ok THEN /\ rdr[Ev.fd] = 0
                   /\ req' = [req EXCEPT ![Ev.req] = [NoReq EXCEPT !.kind = "a", !.fd = Ev.fd, !.state = "pending"]]
                   /\ rdr' = [rdr EXCEPT ![Ev.fd] = Ev.req]
     ELSE (rdr[Ev.fd] # 0 \/ Ev.inj > 0) /\ req' = [req EXCEPT ![Ev.req].state = "failed"] /\ Keep(rdr)
  /\ Keep(<<wtr, rpos, wpos, rxq, txq, axq, conn, clock, incb>>)
TAcceptCall ==
  /\ IsEvent("accept_call") /\ Ev.fd \in FDS /\ rdr[Ev.fd] # 0
  /\ LET r == req[rdr[Ev.fd]] IN
     /\ r.kind = "a" /\ r.state = "pending" /\ r.last \notin {"DATA", "ERR"}       \* retried only after would-block / aborted / interrupted
     /\ AnswerOK(axq[Ev.fd], Ev.ans)
     /\ req' = [req EXCEPT ![rdr[Ev.fd]].last = Ev.ans, ![rdr[Ev.fd]].pos = Ev.newfd]
     /\ axq' = [axq EXCEPT ![Ev.fd] = IF Ev.ans \in {"DATA", "EAGAIN", "EINTR"} /\ @ # <<>> THEN Tail(@) ELSE @]
  /\ Keep(<<rdr, wtr, rpos, wpos, rxq, txq, conn, clock, incb>>)

\* ---- end of the execution: exactly one callback per request, unless the kernel starved it ----
Starved(i) == LET r == req[i] IN
  CASE r.kind = "r" -> rxq[r.fd] = <<>>
    [] r.kind = "w" -> txq[r.fd] = <<>>
    [] r.kind = "a" -> axq[r.fd] = <<>>
    [] r.kind = "c" -> conn.id = i /\ conn.inprog /\ conn.timeo < 0 /\ PlanKind(conn.idx) = "N"
    [] OTHER -> FALSE
TEnd == /\ IsEvent("end") /\ incb = 0
        /\ \A i \in Reqs : req[i].state = "pending" => (\E k \in 1..Len(Ev.pending) : Ev.pending[k] = i) /\ (Starved(i) \/ fatal)
        /\ \A i \in Reqs : req[i].state = "starting" => FALSE
        /\ Keep(<<req, rdr, wtr, rpos, wpos, rxq, txq, axq, conn, clock, incb>>)
TQuiescent == IsEvent("quiescent") /\ Keep(<<req, rdr, wtr, rpos, wpos, rxq, txq, axq, conn, clock, incb>>)
TExit == IsEvent("exit") /\ Ev.live = 0 /\ Keep(<<req, rdr, wtr, rpos, wpos, rxq, txq, axq, conn, clock, incb>>)   \* C14: nothing leaked

Next == \/ TReset \/ TRx \/ TTx \/ TAx \/ TPoll \/ TTick \/ TRunCall \/ TRunRet \/ TEnv
        \/ TReqRead \/ TReqWrite \/ TRecv \/ TSend \/ TCb \/ TCbRet \/ TCancel
        \/ TReqConnect \/ TSocket \/ TConnectCall \/ TGetSockOpt \/ TClose \/ TReqConnectRet \/ TCbSock
        \/ TReqAccept \/ TAcceptCall \/ TEnd \/ TQuiescent \/ TExit
Spec == Init /\ [][Next]_vars
=============================================================================
