---------------------------- MODULE NetSslTrace ----------------------------
(***************************************************************************)
(* Executions of the real network_ssl.c over a scripted TLS engine          *)
(* (harness/drv_ssl.c) against NetSsl.tla: every poke of the module with    *)
(* its cause and its return, every engine call with the buffer position     *)
(* and length offered, every socket-event registration and cancellation,    *)
(* every immediate-event registration, every user callback with its count   *)
(* and data, and what the event loop is asked to watch at each poll.        *)
(***************************************************************************)
EXTENDS TraceBase, Integers, FiniteSets
VARIABLES rd, wr, waitR, waitW, imm, pk, sub, incb, done, cancelled, nreq, open,
          expImmReg,     \* the request just made must register an immediate event
          expImmCancel,  \* closing must cancel the pending immediate event
          cbSeen         \* the user callback announced by the model has been entered
MAXLEN == 0
MAXREQ == 0
FORGET == FALSE
M == INSTANCE NetSsl
mvars == <<rd, wr, waitR, waitW, imm, pk, sub, incb, done, cancelled, nreq, open>>
vars == <<l, mvars, expImmReg, expImmCancel, cbSeen>>
Aux == <<expImmReg, expImmCancel, cbSeen>>
Calm == ~expImmReg /\ ~expImmCancel

Init == l = 1 /\ M!Init /\ expImmReg = FALSE /\ expImmCancel = FALSE /\ cbSeen = FALSE
TReset == /\ IsEvent("reset")
          /\ rd' = M!NoReq /\ wr' = M!NoReq /\ waitR' = FALSE /\ waitW' = FALSE /\ imm' = FALSE /\ pk' = "idle" /\ sub' = FALSE /\ incb' = "none"
          /\ done' = {} /\ cancelled' = {} /\ nreq' = 0 /\ open' = TRUE /\ expImmReg' = FALSE /\ expImmCancel' = FALSE /\ cbSeen' = FALSE
Skip(e) == IsEvent(e) /\ UNCHANGED <<mvars, Aux>>
TOpen == Skip("open") /\ Ev.ok
CtxOK == (Ev.ctx = 0) = (incb = "none") /\ (incb # "none" => cbSeen)
TReq == /\ IsEvent("req") /\ Calm /\ CtxOK
        /\ IF Ev.kind = "r" THEN M!ReqRead(Ev.req, Ev.buflen, Ev.min) ELSE M!ReqWrite(Ev.req, Ev.buflen, Ev.min)
        /\ expImmReg' = ~imm /\ UNCHANGED <<expImmCancel, cbSeen>>
TImmReg == /\ IsEvent("immreg") /\ expImmReg /\ Ev.ok /\ Ev.prio = 0 /\ expImmReg' = FALSE /\ UNCHANGED <<mvars, expImmCancel, cbSeen>>
TReqRet == Skip("req_ret") /\ Ev.ok /\ Calm
TCancel == /\ IsEvent("cancel") /\ Calm /\ CtxOK
           /\ IF Ev.kind = "r" THEN (rd.id = Ev.req /\ M!CancelRead) ELSE (wr.id = Ev.req /\ M!CancelWrite)
           /\ UNCHANGED Aux
TEvReg == IsEvent("evreg") /\ Calm /\ Ev.rc = 0 /\ Ev.fd = 0 /\ M!Setup(Ev.op) /\ UNCHANGED Aux
TCancelRet == IsEvent("cancel_ret") /\ M!CancelRet /\ UNCHANGED Aux
TPoke == /\ IsEvent("poke") /\ Calm /\ UNCHANGED Aux
         /\ CASE Ev.cause = "imm" -> M!PokeImm [] Ev.cause = "R" -> M!PokeR [] OTHER -> M!PokeW
\* a poke that finds nothing to do ends at once (pk = "rd" is passed over entirely)
TPokeRet == IsEvent("poke_ret") /\ Calm /\ Ev.rc = 0 /\ M!PokeEnd /\ UNCHANGED Aux
Ans == IF Ev.ans = "D" THEN <<"D", Ev.n>> ELSE <<Ev.ans>>
\* the engine is offered the unfilled part of the request's buffer (a retry after "want" offers exactly the same again)
TSsl == /\ IsEvent("sslcall") /\ Calm /\ UNCHANGED <<expImmReg, expImmCancel>> /\ cbSeen' = FALSE
        /\ IF Ev.kind = "r"
           THEN /\ Ev.req = rd.id /\ Ev.off = rd.pos /\ Ev.len = rd.buflen - rd.pos /\ M!SslRead(Ans)
           ELSE /\ Ev.req = wr.id /\ Ev.off = wr.pos /\ Ev.len = wr.buflen - wr.pos /\ Ev.dataok /\ M!SslWrite(Ans)
\* the callback the model has just announced: that request, that count, the bytes of the stream in order
TCb == /\ IsEvent("cb") /\ Calm /\ incb = Ev.kind /\ ~cbSeen /\ cbSeen' = TRUE
       /\ \E d \in done : d[1] = Ev.req /\ d[2] = Ev.n /\ d[5] = Ev.kind
       /\ Ev.dataok /\ Ev.was_pending
       /\ UNCHANGED <<mvars, expImmReg, expImmCancel>>
TCbRet == IsEvent("cb_ret") /\ Calm /\ cbSeen /\ Ev.rc = 0 /\ M!CbRet /\ cbSeen' = FALSE /\ UNCHANGED <<expImmReg, expImmCancel>>
\* between pokes the event loop watches the socket for exactly what the module registered
TPoll == /\ Skip("poll") /\ Calm /\ M!PokeIdle
         /\ LET mask == (IF waitR THEN 1 ELSE 0) + (IF waitW THEN 2 ELSE 0)
            IN IF mask = 0 THEN Ev.fds = <<>> ELSE Ev.fds = <<<<0, mask>>>>
TClose == /\ IsEvent("close") /\ Calm /\ CtxOK /\ expImmCancel' = imm /\ M!Close /\ UNCHANGED <<expImmReg, cbSeen>>
TImmCancel == /\ IsEvent("immcancel") /\ expImmCancel /\ expImmCancel' = FALSE /\ UNCHANGED <<mvars, expImmReg, cbSeen>>
TShutdown == Skip("shutdown") /\ Calm /\ ~open
TCloseRet == Skip("close_ret") /\ Calm /\ ~open
TOther == (Skip("run_call") \/ Skip("env") \/ Skip("end") \/ Skip("tick")) /\ Calm /\ M!PokeIdle
TRunRet == Skip("run_ret") /\ Calm /\ Ev.rc = 0 /\ M!PokeIdle
Next == TReset \/ TOpen \/ TReq \/ TImmReg \/ TReqRet \/ TCancel \/ TEvReg \/ TCancelRet \/ TPoke \/ TPokeRet \/ TSsl \/ TCb \/ TCbRet
        \/ TPoll \/ TClose \/ TImmCancel \/ TShutdown \/ TCloseRet \/ TOther \/ TRunRet
Spec == Init /\ [][Next]_vars
Inv == M!Inv
=============================================================================
