----------------------------- MODULE NetConnect -----------------------------
(***************************************************************************)
(* network_connect.c: one connection request over a list of addresses, each *)
(* with a planned outcome: F (connect fails at once), S (no socket), O      *)
(* (connects at once), P (in progress, then connects), R (in progress, then *)
(* SO_ERROR), N (in progress for ever).  With a per-address timeout an      *)
(* attempt that is still in progress when it expires is abandoned.  `late`  *)
(* tells whether a P/R address completes after the timeout.  Every plan of  *)
(* up to MAXADDR addresses (and every cancellation instant) is enumerated.  *)
(***************************************************************************)
EXTENDS Naturals, Integers, Sequences, FiniteSets, TLC, Json
CONSTANTS MAXADDR
Kinds == {"F", "S", "O", "P", "R", "N", "Pl", "Rl"}     \* Pl / Rl: completes only after the timeout would expire
VARIABLES plan, timeo, idx, open, closed, state, result, ncb, cancelAt, steps
vars == <<plan, timeo, idx, open, closed, state, result, ncb, cancelAt, steps>>
Plans == UNION {[1..n -> Kinds] : n \in 0..MAXADDR}
\* the per-address timeout: none, short (P / R complete within it, Pl / Rl do not), or zero (nothing in progress completes within it)
Init == /\ plan \in Plans /\ timeo \in {"none", "short", "zero"} /\ idx = 1 /\ open = {} /\ closed = {} /\ state = "trying" /\ result = -2 /\ ncb = 0
        /\ cancelAt \in 0..MAXADDR + 1 /\ steps = 0
\* outcome of the attempt on address i
HasT == timeo # "none"
Fails(i) == plan[i] \in {"F", "S", "R", "Rl"} \/ (HasT /\ plan[i] \in {"N", "Pl"}) \/ (timeo = "zero" /\ plan[i] = "P")
Connects(i) == plan[i] = "O" \/ (plan[i] = "P" /\ timeo # "zero") \/ (~HasT /\ plan[i] = "Pl")
Hangs(i) == ~HasT /\ plan[i] = "N"
Try == /\ state = "trying" /\ steps + 1 # cancelAt
       /\ steps' = steps + 1
       /\ IF idx > Len(plan) THEN state' = "done" /\ result' = -1 /\ ncb' = ncb + 1 /\ UNCHANGED <<idx, open, closed>>   \* none connected
          ELSE IF Connects(idx) THEN state' = "done" /\ result' = idx /\ ncb' = ncb + 1 /\ open' = open \cup {idx} /\ UNCHANGED <<idx, closed>>
          ELSE IF Hangs(idx) THEN state' = "hung" /\ open' = open \cup {idx} /\ UNCHANGED <<idx, closed, result, ncb>>
          ELSE /\ idx' = idx + 1 /\ closed' = (IF plan[idx] = "S" THEN closed ELSE closed \cup {idx})
               /\ UNCHANGED <<open, state, result, ncb>>
Cancel == /\ state \in {"trying", "hung"} /\ steps + 1 = cancelAt
          /\ state' = "cancelled" /\ closed' = closed \cup open /\ open' = {} /\ steps' = steps + 1 /\ UNCHANGED <<idx, result, ncb>>
Next == (Try \/ Cancel) /\ UNCHANGED <<plan, timeo, cancelAt>>
Spec == Init /\ [][Next]_vars
\* C06 (connect)
Once == ncb <= 1 /\ (state = "cancelled" => ncb = 0)
FirstConnected == (state = "done" /\ result > 0) => (Connects(result) /\ \A j \in 1..(result - 1) : ~Connects(j) /\ ~Hangs(j))
NoneConnected == (state = "done" /\ result = -1) => (\A j \in 1..Len(plan) : Fails(j)) /\ open = {}
LosersClosed == state \in {"done", "cancelled"} => open \subseteq (IF result > 0 THEN {result} ELSE {})
Emit == (state \in {"done", "cancelled", "hung"}) => PrintT(<<"CASE", ToJson([plan |-> plan, timeo |-> timeo, cancel |-> IF state = "cancelled" THEN steps ELSE 0])>>)
=============================================================================
