SPECIFICATION Spec
CONSTANTS MAXLEN = 2
          MAXREQ = 3
          FORGET = TRUE
INVARIANT Inv
CHECK_DEADLOCK FALSE
