------------------------------- MODULE NetRW -------------------------------
(***************************************************************************)
(* network_read.c / network_write.c: one request against every sequence of  *)
(* kernel answers.  The answer history is part of the state, so every       *)
(* distinct behaviour is a distinct state: model checking this module is    *)
(* fault-sequence enumeration, and the Emit "invariant" prints every        *)
(* terminal or length-bounded behaviour as a test case for the real code.   *)
(* DIR = "r": answers DATA n / EAGAIN / EINTR / EOF / ERR;  "w": no EOF.    *)
(***************************************************************************)
EXTENDS Naturals, Integers, Sequences, TLC, Json
CONSTANTS MAXBUF, MAXLEN, DIR
Answers == {<<"DATA", n>> : n \in 1..MAXBUF} \cup {<<"EAGAIN", 0>>, <<"EINTR", 0>>, <<"ERR", 0>>}
           \cup (IF DIR = "r" THEN {<<"EOF", 0>>} ELSE {})
VARIABLES buflen, min, pos, state, result, hist, ncb
vars == <<buflen, min, pos, state, result, hist, ncb>>
Init == /\ buflen \in 1..MAXBUF /\ min \in 0..MAXBUF /\ min <= buflen
        /\ pos = 0 /\ state = "pending" /\ result = -2 /\ hist = <<>> /\ ncb = 0
\* the descriptor was reported ready and the kernel answers a (callback_buf)
Step(a) == /\ state = "pending" /\ Len(hist) < MAXLEN
           /\ hist' = Append(hist, a)
           /\ IF a[1] \in {"EAGAIN", "EINTR"} THEN UNCHANGED <<pos, state, result, ncb>>
              ELSE IF a[1] = "EOF" THEN state' = "done" /\ result' = 0 /\ ncb' = ncb + 1 /\ UNCHANGED pos
              ELSE IF a[1] = "ERR" THEN state' = "done" /\ result' = -1 /\ ncb' = ncb + 1 /\ UNCHANGED pos
              ELSE LET n == IF a[2] > buflen - pos THEN buflen - pos ELSE a[2] IN
                   /\ pos' = pos + n
                   /\ IF pos + n >= min THEN state' = "done" /\ result' = pos + n /\ ncb' = ncb + 1
                      ELSE UNCHANGED <<state, result, ncb>>
           /\ UNCHANGED <<buflen, min>>
Cancel == state = "pending" /\ Len(hist) < MAXLEN /\ state' = "cancelled" /\ hist' = Append(hist, <<"CANCEL", 0>>) /\ UNCHANGED <<buflen, min, pos, result, ncb>>
Next == (\E a \in Answers : Step(a)) \/ Cancel
Spec == Init /\ [][Next]_vars
\* C06
Once == ncb <= 1 /\ (state = "cancelled" => ncb = 0) /\ (state = "done" => ncb = 1)
Range == (state = "done" /\ result > 0) => (result >= min /\ result <= buflen /\ result = pos)
EofErr == /\ (state = "done" /\ result = 0) => hist[Len(hist)][1] = "EOF"
          /\ (state = "done" /\ result = -1) => hist[Len(hist)][1] = "ERR"
Emit == (state # "pending" \/ Len(hist) = MAXLEN) => PrintT(<<"CASE", ToJson([buflen |-> buflen, min |-> min, answers |-> hist, dir |-> DIR])>>)
=============================================================================
