------------------------------- MODULE NetSsl -------------------------------
(***************************************************************************)
(* network_ssl/network_ssl.c: one read and one write request at a time over *)
(* a TLS engine whose every call may answer "done n bytes", "retry when the *)
(* socket is readable", "retry when the socket is writable", end of stream  *)
(* or failure - a read may have to wait for writability and a write for     *)
(* readability.  The module multiplexes the two requests over one socket's  *)
(* readiness events and an immediate event.                                 *)
(*                                                                         *)
(* Grain: one action per engine call, per user callback entry / return,     *)
(* per socket-event registration / cancellation, per event-loop callback    *)
(* that pokes the module.  A poke is: try the read (repeatedly while the    *)
(* engine delivers less than the minimum), then the write, then bring the   *)
(* socket registrations in line with what the two requests wait for.        *)
(* Stages that do not apply are skipped by `Eff`, so there are no silent    *)
(* steps.                                                                   *)
(*                                                                         *)
(* What a caller relies on (the TLS counterpart of C06):                    *)
(*  Matched     between pokes the socket is watched for exactly the         *)
(*              directions the pending requests said they wait for;         *)
(*  NotForgotten a pending request that waits for nothing has a poke on its *)
(*              way (else it would never be tried again);                   *)
(*  NeedsOnlyPending  only a pending request waits for anything;            *)
(*  Counts      a completed request reports a count between its minimum and *)
(*              its length, 0 for end of stream (reads), or -1;             *)
(*  Once        one callback per request, none after a cancellation.        *)
(***************************************************************************)
EXTENDS Integers, Sequences, FiniteSets
CONSTANTS MAXLEN,       \* request lengths 1..MAXLEN (model checking)
          MAXREQ,       \* number of requests made (model checking)
          FORGET        \* FALSE.  (TRUE: a request made from inside a user callback does not ask for a poke - the design mistake that
                        \* NotForgotten exists to exclude; used to show that the invariant is not vacuous)
VARIABLES rd, wr,       \* the two request slots
          waitR, waitW, \* socket readiness events registered
          imm,          \* an immediate poke is registered
          pk,           \* stage of the poke in progress: "idle", "rd", "wr", "setup"
          sub,          \* a registration update outside a poke is in progress (a cancel call)
          incb,         \* the user callback in progress: "none", "r", "w"
          done,         \* requests whose callback has run: <<id, count reported, minimum, length, "r" / "w">>
          cancelled,    \* ids of requests that were cancelled
          nreq, open
vars == <<rd, wr, waitR, waitW, imm, pk, sub, incb, done, cancelled, nreq, open>>

NoReq == [state |-> "none", id |-> 0, buflen |-> 0, min |-> 0, pos |-> 0, needR |-> FALSE, needW |-> FALSE]
Pending(q) == q.state = "pending"
Applicable(q) == Pending(q) /\ ~q.needR /\ ~q.needW
NeedsR == rd.needR \/ wr.needR
NeedsW == rd.needW \/ wr.needW
\* the stage the poke is really in: stages with nothing to do are passed over
Eff == IF ~open THEN "setup"                     \* a closed context is not touched again: the poke in progress just ends
       ELSE IF pk = "rd" THEN (IF Applicable(rd) THEN "rd" ELSE IF Applicable(wr) THEN "wr" ELSE "setup")
       ELSE IF pk = "wr" THEN (IF Applicable(wr) THEN "wr" ELSE "setup")
       ELSE pk
\* the registration update: cancellations first, then registrations, read side before write side
SetupHead == IF ~open THEN "none"
             ELSE IF waitR /\ ~NeedsR THEN "cancelR" ELSE IF waitW /\ ~NeedsW THEN "cancelW"
             ELSE IF ~waitR /\ NeedsR THEN "regR" ELSE IF ~waitW /\ NeedsW THEN "regW" ELSE "none"
PokeIdle == incb = "none" /\ ~sub /\ (pk = "idle" \/ (Eff = "setup" /\ SetupHead = "none"))

Init == /\ rd = NoReq /\ wr = NoReq /\ waitR = FALSE /\ waitW = FALSE /\ imm = FALSE /\ pk = "idle" /\ sub = FALSE /\ incb = "none"
        /\ done = {} /\ cancelled = {} /\ nreq = 0 /\ open = TRUE

\* ---- requests (from outside the loop, or from inside a user callback) ----
CanCall == open /\ ~sub /\ (incb # "none" \/ PokeIdle)
Settle == IF incb = "none" THEN "idle" ELSE pk        \* a call from outside finds the previous poke finished
ReqRead(id, len, mn) ==
  /\ CanCall /\ ~Pending(rd) /\ len >= 1 /\ mn <= len /\ mn >= 0
  /\ rd' = [NoReq EXCEPT !.state = "pending", !.id = id, !.buflen = len, !.min = mn]
  /\ imm' = (IF FORGET /\ incb # "none" THEN imm ELSE TRUE) /\ nreq' = nreq + 1 /\ pk' = Settle
  /\ UNCHANGED <<wr, waitR, waitW, sub, incb, done, cancelled, open>>
ReqWrite(id, len, mn) ==
  /\ CanCall /\ ~Pending(wr) /\ len >= 1 /\ mn <= len /\ mn >= 0
  /\ wr' = [NoReq EXCEPT !.state = "pending", !.id = id, !.buflen = len, !.min = mn]
  /\ imm' = (IF FORGET /\ incb # "none" THEN imm ELSE TRUE) /\ nreq' = nreq + 1 /\ pk' = Settle
  /\ UNCHANGED <<rd, waitR, waitW, sub, incb, done, cancelled, open>>
\* cancelling: the request is gone, what it waited for no longer counts, the registrations are brought in line at once
CancelRead == /\ CanCall /\ Pending(rd) /\ cancelled' = cancelled \cup {rd.id} /\ rd' = NoReq /\ sub' = TRUE /\ pk' = Settle
              /\ UNCHANGED <<wr, waitR, waitW, imm, incb, done, nreq, open>>
CancelWrite == /\ CanCall /\ Pending(wr) /\ cancelled' = cancelled \cup {wr.id} /\ wr' = NoReq /\ sub' = TRUE /\ pk' = Settle
               /\ UNCHANGED <<rd, waitR, waitW, imm, incb, done, nreq, open>>
CancelRet == /\ sub /\ SetupHead = "none" /\ sub' = FALSE
             /\ UNCHANGED <<rd, wr, waitR, waitW, imm, pk, incb, done, cancelled, nreq, open>>
\* closing - from outside, or from inside a user callback (http.c closes the context whenever a request ends): nothing pending,
\* nothing registered; a poke still on its way is called off, and the poke in progress must not touch the context again
CloseOK == ~Pending(rd) /\ ~Pending(wr)
Close == /\ open /\ ~sub /\ (PokeIdle \/ incb # "none") /\ CloseOK /\ ~waitR /\ ~waitW
         /\ open' = FALSE /\ imm' = FALSE /\ pk' = Settle
         /\ UNCHANGED <<rd, wr, waitR, waitW, sub, incb, done, cancelled, nreq>>

\* ---- pokes ----
PokeImm == /\ PokeIdle /\ imm /\ imm' = FALSE /\ pk' = "rd"
           /\ UNCHANGED <<rd, wr, waitR, waitW, sub, incb, done, cancelled, nreq, open>>
\* the socket was reported readable: whatever waited for that may go on
PokeR == /\ PokeIdle /\ waitR /\ waitR' = FALSE /\ pk' = "rd"
         /\ rd' = [rd EXCEPT !.needR = FALSE] /\ wr' = [wr EXCEPT !.needR = FALSE]
         /\ UNCHANGED <<waitW, imm, sub, incb, done, cancelled, nreq, open>>
PokeW == /\ PokeIdle /\ waitW /\ waitW' = FALSE /\ pk' = "rd"
         /\ rd' = [rd EXCEPT !.needW = FALSE] /\ wr' = [wr EXCEPT !.needW = FALSE]
         /\ UNCHANGED <<waitR, imm, sub, incb, done, cancelled, nreq, open>>

\* the poke returns to the event loop: everything it had to do is done
PokeEnd == /\ pk # "idle" /\ PokeIdle /\ pk' = "idle"
           /\ UNCHANGED <<rd, wr, waitR, waitW, imm, sub, incb, done, cancelled, nreq, open>>

\* ---- engine calls.  ans: <<"D", n>>, <<"R">>, <<"W">>, <<"Z">> (clean end), <<"S0">> (socket end of file), <<"SE">>, <<"X">> ----
\* a read attempt; `n` is the count a completing answer makes the callback report
SslRead(ans) ==
  /\ incb = "none" /\ ~sub /\ Eff = "rd"
  /\ CASE ans[1] = "D" -> /\ ans[2] >= 1 /\ ans[2] <= rd.buflen - rd.pos
                          /\ IF rd.pos + ans[2] >= rd.min
                             THEN /\ incb' = "r" /\ done' = done \cup {<<rd.id, rd.pos + ans[2], rd.min, rd.buflen, "r">>} /\ rd' = NoReq /\ pk' = "wr"
                             ELSE /\ rd' = [rd EXCEPT !.pos = @ + ans[2]] /\ pk' = "rd" /\ UNCHANGED <<incb, done>>
       [] ans[1] = "R" -> rd' = [rd EXCEPT !.needR = TRUE] /\ pk' = "wr" /\ UNCHANGED <<incb, done>>
       [] ans[1] = "W" -> rd' = [rd EXCEPT !.needW = TRUE] /\ pk' = "wr" /\ UNCHANGED <<incb, done>>
       [] ans[1] \in {"Z", "S0"} -> incb' = "r" /\ done' = done \cup {<<rd.id, 0, rd.min, rd.buflen, "r">>} /\ rd' = NoReq /\ pk' = "wr"
       [] OTHER -> incb' = "r" /\ done' = done \cup {<<rd.id, -1, rd.min, rd.buflen, "r">>} /\ rd' = NoReq /\ pk' = "wr"
  /\ UNCHANGED <<wr, waitR, waitW, imm, sub, cancelled, nreq, open>>
SslWrite(ans) ==
  /\ incb = "none" /\ ~sub /\ Eff = "wr"
  /\ CASE ans[1] = "D" -> /\ ans[2] >= 1 /\ ans[2] <= wr.buflen - wr.pos
                          /\ IF wr.pos + ans[2] >= wr.min
                             THEN /\ incb' = "w" /\ done' = done \cup {<<wr.id, wr.pos + ans[2], wr.min, wr.buflen, "w">>} /\ wr' = NoReq /\ pk' = "setup"
                             ELSE /\ wr' = [wr EXCEPT !.pos = @ + ans[2]] /\ pk' = "wr" /\ UNCHANGED <<incb, done>>
       [] ans[1] = "R" -> wr' = [wr EXCEPT !.needR = TRUE] /\ pk' = "setup" /\ UNCHANGED <<incb, done>>
       [] ans[1] = "W" -> wr' = [wr EXCEPT !.needW = TRUE] /\ pk' = "setup" /\ UNCHANGED <<incb, done>>
       [] OTHER -> incb' = "w" /\ done' = done \cup {<<wr.id, -1, wr.min, wr.buflen, "w">>} /\ wr' = NoReq /\ pk' = "setup"       \* a write has no "end of stream"
  /\ UNCHANGED <<rd, waitR, waitW, imm, sub, cancelled, nreq, open>>
\* the user callback returns (what it did in between are request / cancel actions)
CbRet == /\ incb # "none" /\ ~sub /\ incb' = "none"
         /\ UNCHANGED <<rd, wr, waitR, waitW, imm, pk, sub, done, cancelled, nreq, open>>

\* ---- registrations ----
Setup(op) == /\ (sub \/ (incb = "none" /\ Eff = "setup")) /\ op = SetupHead /\ op # "none"
             /\ waitR' = (IF op = "regR" THEN TRUE ELSE IF op = "cancelR" THEN FALSE ELSE waitR)
             /\ waitW' = (IF op = "regW" THEN TRUE ELSE IF op = "cancelW" THEN FALSE ELSE waitW)
             /\ UNCHANGED <<rd, wr, imm, pk, sub, incb, done, cancelled, nreq, open>>

Answers == {<<"D", n>> : n \in 1..MAXLEN} \cup {<<"R">>, <<"W">>, <<"Z">>, <<"SE">>}
Next == \/ (nreq < MAXREQ /\ \E len \in 1..MAXLEN : \E mn \in 0..len : ReqRead(nreq + 1, len, mn) \/ ReqWrite(nreq + 1, len, mn))
        \/ CancelRead \/ CancelWrite \/ CancelRet \/ Close \/ PokeImm \/ PokeR \/ PokeW \/ PokeEnd
        \/ (\E a \in Answers : SslRead(a) \/ SslWrite(a)) \/ CbRet
        \/ (\E op \in {"cancelR", "cancelW", "regR", "regW"} : Setup(op))
Spec == Init /\ [][Next]_vars
----------------------------------------------------------------------------
Matched == PokeIdle => (waitR = NeedsR /\ waitW = NeedsW)
NotForgotten == (PokeIdle /\ open) => /\ (Applicable(rd) => imm)
                                      /\ (Applicable(wr) => imm)
NeedsOnlyPending == /\ (~Pending(rd) => ~rd.needR /\ ~rd.needW)
                    /\ (~Pending(wr) => ~wr.needR /\ ~wr.needW)
Once == /\ \A a, b \in done : a[1] = b[1] => a = b
        /\ \A a \in done : a[1] \notin cancelled
Counts == \A a \in done : a[2] = -1 \/ (a[2] = 0 /\ a[5] = "r") \/ (a[2] >= 1 /\ a[2] >= a[3] /\ a[2] <= a[4])
ClosedQuiet == ~open => (~waitR /\ ~waitW /\ ~imm /\ ~Pending(rd) /\ ~Pending(wr))
\* whenever the caller is entitled to close (nothing pending), closing is possible: no socket event is left registered - inside a
\* callback too, where the registration update of the poke in progress has not happened yet
Closable == (open /\ ~sub /\ (PokeIdle \/ incb # "none") /\ CloseOK) => (~waitR /\ ~waitW)
Inv == Matched /\ NotForgotten /\ NeedsOnlyPending /\ Once /\ Counts /\ ClosedQuiet /\ Closable
=============================================================================
