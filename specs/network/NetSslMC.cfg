SPECIFICATION Spec
CONSTANTS MAXLEN = 2
          MAXREQ = 3
          FORGET = FALSE
INVARIANT Inv
CHECK_DEADLOCK FALSE
