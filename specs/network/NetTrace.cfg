SPECIFICATION Spec
CONSTANTS MAXREQ = 64
          MAXFD = 12
POSTCONDITION Accepted
CHECK_DEADLOCK FALSE
