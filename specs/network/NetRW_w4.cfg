SPECIFICATION Spec
CONSTANTS MAXBUF = 4
          MAXLEN = 4
          DIR = "w"
INVARIANTS Once Range EofErr Emit
CHECK_DEADLOCK FALSE
