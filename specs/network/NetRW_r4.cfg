SPECIFICATION Spec
CONSTANTS MAXBUF = 4
          MAXLEN = 4
          DIR = "r"
INVARIANTS Once Range EofErr Emit
CHECK_DEADLOCK FALSE
