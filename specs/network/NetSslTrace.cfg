SPECIFICATION Spec
INVARIANT Inv
POSTCONDITION Accepted
CHECK_DEADLOCK FALSE
