SPECIFICATION Spec
CONSTANTS MAXADDR = 3
INVARIANTS Once FirstConnected NoneConnected LosersClosed Emit
CHECK_DEADLOCK FALSE
