------------------------------- MODULE IpcSyncInd -------------------------------
(* Instance of IpcSync for Apalache: three named processes, the code's protocol (PREP).  Checked:
     Init => IndInv                (apalache-mc check --init=Init --inv=IndInv --length=0)
     IndInv /\ Next => IndInv'     (--init=IndInv --inv=IndInv --length=1)
     IndInv => NoHang              (--init=IndInv --inv=NoHang --length=0)
   with no bound on the bytes in the pipe or on the number of signals. *)
EXTENDS Integers, FiniteSets, Sequences, TLC
Procs == {"A", "B", "C"}
PREP == TRUE
VARIABLES
  \* @type: Str -> Bool;
  fdR,
  \* @type: Str -> Bool;
  fdW,
  \* @type: Int;
  bytes,
  \* @type: Str -> Str;
  pc,
  \* @type: Str -> Str;
  res,
  \* @type: Int;
  written
INSTANCE IpcSync
=============================================================================
