CONSTANTS Procs = {p1, p2}
          PREP = FALSE
SPECIFICATION FairSpec
PROPERTY Released
CONSTRAINT Bound
CHECK_DEADLOCK FALSE
