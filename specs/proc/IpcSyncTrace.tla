----------------------------- MODULE IpcSyncTrace -----------------------------
(***************************************************************************)
(* Executions of the real util/ipc_sync.c in two forked processes           *)
(* (harness/drv_ipc.c) against IpcSync.tla.  The coordinator hands out one  *)
(* call at a time, so a call takes effect when its "call" event is logged;  *)
(* the "ret" event carries the result.  wait and signal are two steps of    *)
(* the model (close the unused end, then read / write); the second step is  *)
(* taken from the descriptor tables the first one leaves (TLC's action      *)
(* composition operator is not complete, so the composition is explicit).   *)
(***************************************************************************)
EXTENDS TraceBase, Integers, FiniteSets
Procs == {"A", "B"}
PREP == TRUE
VARIABLES fdR, fdW, bytes, pc, res, written
M == INSTANCE IpcSync
mvars == <<fdR, fdW, bytes, pc, res, written>>
vars == <<l, mvars>>

Init == l = 1 /\ M!Init
TReset == /\ IsEvent("reset")
          /\ fdR' = [p \in Procs |-> TRUE] /\ fdW' = [p \in Procs |-> TRUE]
          /\ bytes' = 0 /\ pc' = [p \in Procs |-> "idle"] /\ res' = [p \in Procs |-> "none"] /\ written' = 0
\* the coordinator created the object, forked, and released its own copy: the two workers hold everything
TInit == IsEvent("init") /\ Ev.ok /\ Ev.coord_done = 0 /\ UNCHANGED mvars

Step(A) == A /\ l' = l + 1
Skip == UNCHANGED mvars /\ l' = l + 1
IsCall(op) == l <= Len(Tr) /\ Tr[l].e = "call" /\ Tr[l].op = op /\ Tr[l].p \in Procs
TCall ==
  \/ IsCall("wait_prep") /\ LET p == Ev.p IN IF fdW[p] THEN Step(M!WaitPrep(p)) ELSE (pc[p] = "idle" /\ Skip)
  \/ IsCall("signal_prep") /\ LET p == Ev.p IN IF fdR[p] THEN Step(M!SignalPrep(p)) ELSE (pc[p] = "idle" /\ Skip)
  \/ IsCall("wait") /\ LET p == Ev.p
                           fw == [fdW EXCEPT ![p] = FALSE]                       \* first half: the write end is closed
                       IN Step(IF fdR[p] THEN M!WaitCallFrom(p, fdR, fw) ELSE M!WaitBadFrom(p, fdR, fw))
  \/ IsCall("signal") /\ LET p == Ev.p
                             fr == [fdR EXCEPT ![p] = FALSE]                     \* first half: the read end is closed
                         IN Step(IF fdW[p] THEN M!SignalFrom(p, fr, fdW) ELSE M!SignalBadFrom(p, fr, fdW))
  \/ IsCall("done") /\ Step(M!Done(Ev.p))
TDie == IsEvent("die") /\ Ev.p \in Procs /\ M!Die(Ev.p)
\* results
IsRet(op) == l <= Len(Tr) /\ Tr[l].e = "ret" /\ Tr[l].op = op /\ Tr[l].p \in Procs
TRet ==
  \/ IsRet("wait_prep") /\ Ev.rc = 0 /\ Skip
  \/ IsRet("signal_prep") /\ Ev.rc = 0 /\ Skip
  \/ IsRet("done") /\ Ev.rc = 0 /\ pc[Ev.p] = "finished" /\ Skip
  \/ IsRet("signal") /\ Ev.rc = (IF res[Ev.p] = "ok" THEN 0 ELSE -1) /\ res[Ev.p] \in {"ok", "epipe", "ebadf"} /\ Skip
  \/ IsRet("wait") /\ LET p == Ev.p IN
       IF pc[p] = "waiting"
       THEN Step(M!WaitRet(p)) /\ Ev.rc = (IF res'[p] = "ok" THEN 0 ELSE -1)    \* a byte that a signal wrote, or end-of-file
       ELSE res[p] = "ebadf" /\ Ev.rc = -1 /\ Skip
\* the coordinator saw the worker asleep in read(2): it must be a wait that nothing can release yet
LegitBlocked(p) == pc[p] = "waiting" /\ bytes = 0 /\ M!Writers # {}
TBlocked == IsEvent("blocked") /\ LegitBlocked(Ev.p) /\ UNCHANGED mvars
St(p) == CASE pc[p] = "idle" -> 0 [] pc[p] = "waiting" -> 1 [] OTHER -> 2
TEnd == /\ IsEvent("end") /\ Ev.A = St("A") /\ Ev.B = St("B")
        /\ \A p \in Procs : pc[p] = "waiting" => LegitBlocked(p)
        /\ UNCHANGED mvars
Next == TReset \/ TInit \/ TCall \/ TDie \/ TRet \/ TBlocked \/ TEnd
Spec == Init /\ [][Next]_vars
\* the model's invariants, on the observed executions too
Inv == M!Causal /\ M!WaitsOK /\ M!NoHang /\ M!NoLeak
=============================================================================
