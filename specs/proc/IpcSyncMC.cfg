CONSTANTS Procs = {p1, p2}
          PREP = TRUE
SPECIFICATION Spec
INVARIANTS TypeOK Causal WaitsOK NoHang NoLeak
CONSTRAINT Bound
CHECK_DEADLOCK FALSE
