CONSTANTS Procs = {p1, p2}
          PREP = TRUE
SPECIFICATION FairSpec
PROPERTY Released
CONSTRAINT Bound
CHECK_DEADLOCK FALSE
