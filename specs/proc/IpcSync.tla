------------------------------- MODULE IpcSync -------------------------------
(***************************************************************************)
(* util/ipc_sync.c: one-shot synchronisation between two processes over a   *)
(* pipe created before fork().  The only multi-process protocol in the      *)
(* library, so the specification is about interleavings: every process has  *)
(* its own copy of the two descriptors, the pipe counts its bytes and its   *)
(* open ends over all processes, a process may die at any step.             *)
(*                                                                          *)
(* One action per system call the code makes:                               *)
(*   wait   = close own write end (prep), then read one byte (blocking)     *)
(*   signal = close own read end (prep), then write one byte                *)
(*   done   = close what is still open                                      *)
(* What it promises (checked below):                                        *)
(*   Causal    wait returns 0 only after a byte written by signal           *)
(*   NoHang    a waiter never blocks for ever once every other process has  *)
(*             finished or died: closing its own write end first is what    *)
(*             turns "nobody will ever signal" into end-of-file (PREP =     *)
(*             FALSE models the protocol without that step and must fail)   *)
(*   NoLeak    after done a process holds no descriptor of the pipe         *)
(***************************************************************************)
EXTENDS Integers, FiniteSets, Sequences, TLC
\* (the @type comments are for Apalache, which proves the invariants inductive for any number of bytes: IpcSyncInd.cfg)
CONSTANTS
  \* @type: Set(Str);
  Procs,        \* the processes sharing the object after fork
  \* @type: Bool;
  PREP          \* TRUE: wait/signal close the unused end first (the code); FALSE: the design without it
VARIABLES
  \* @type: Str -> Bool;
  fdR,          \* process -> that process still has the read end open
  \* @type: Str -> Bool;
  fdW,          \* process -> that process still has the write end open
  \* @type: Int;
  bytes,        \* bytes in the pipe
  \* @type: Str -> Str;
  pc,           \* process -> "idle" | "waiting" (blocked in read) | "finished" | "dead"
  \* @type: Str -> Str;
  res,          \* process -> result of its last wait/signal: "none" | "ok" | "eof" | "epipe" | "ebadf"
  \* @type: Int;
  written       \* number of bytes ever written (ghost, for Causal)
vars == <<fdR, fdW, bytes, pc, res, written>>

Readers == {p \in Procs : fdR[p]}
Writers == {p \in Procs : fdW[p]}
Alive(p) == pc[p] \in {"idle", "waiting"}

Init == /\ fdR = [p \in Procs |-> TRUE] /\ fdW = [p \in Procs |-> TRUE]
        /\ bytes = 0 /\ pc = [p \in Procs |-> "idle"] /\ res = [p \in Procs |-> "none"] /\ written = 0

\* ipc_sync_wait_prep / the first half of ipc_sync_wait
WaitPrep(p) == /\ pc[p] = "idle" /\ fdW[p] /\ fdW' = [fdW EXCEPT ![p] = FALSE]
               /\ UNCHANGED <<fdR, bytes, pc, res, written>>
SignalPrep(p) == /\ pc[p] = "idle" /\ fdR[p] /\ fdR' = [fdR EXCEPT ![p] = FALSE]
                 /\ UNCHANGED <<fdW, bytes, pc, res, written>>
\* The second halves take the descriptor tables they start from as parameters (fr, fw), so that the trace specification can
\* compose "close the unused end" and "read / write" into the one step the real call is, with the same definitions.
\* ipc_sync_wait: enters the blocking read (after the prep step when PREP)
WaitCallFrom(p, fr, fw) == /\ pc[p] = "idle" /\ fr[p] /\ (PREP => ~fw[p])
                           /\ pc' = [pc EXCEPT ![p] = "waiting"] /\ res' = [res EXCEPT ![p] = "none"]
                           /\ fdR' = fr /\ fdW' = fw /\ UNCHANGED <<bytes, written>>
WaitCall(p) == WaitCallFrom(p, fdR, fdW)
\* the read returns: a byte, or end-of-file once the pipe is empty and no write end is open anywhere
WaitRet(p) == /\ pc[p] = "waiting"
              /\ \/ bytes > 0 /\ bytes' = bytes - 1 /\ res' = [res EXCEPT ![p] = "ok"]
                 \/ bytes = 0 /\ Writers = {} /\ bytes' = bytes /\ res' = [res EXCEPT ![p] = "eof"]
              /\ pc' = [pc EXCEPT ![p] = "idle"]
              /\ UNCHANGED <<fdR, fdW, written>>
\* ipc_sync_signal: write one byte (EPIPE when no read end is open anywhere)
SignalFrom(p, fr, fw) == /\ pc[p] = "idle" /\ fw[p] /\ (PREP => ~fr[p])
                         /\ IF {q \in Procs : fr[q]} = {} THEN res' = [res EXCEPT ![p] = "epipe"] /\ UNCHANGED <<bytes, written>>
                            ELSE res' = [res EXCEPT ![p] = "ok"] /\ bytes' = bytes + 1 /\ written' = written + 1
                         /\ fdR' = fr /\ fdW' = fw /\ UNCHANGED pc
Signal(p) == SignalFrom(p, fdR, fdW)
\* the same calls made after the needed end was closed (wait after signal_prep, signal after wait_prep): the system call fails
\* on descriptor -1, nothing blocks, nothing is written
WaitBadFrom(p, fr, fw) == /\ pc[p] = "idle" /\ ~fr[p] /\ (PREP => ~fw[p])
                          /\ res' = [res EXCEPT ![p] = "ebadf"] /\ fdR' = fr /\ fdW' = fw /\ UNCHANGED <<bytes, pc, written>>
WaitBad(p) == WaitBadFrom(p, fdR, fdW)
SignalBadFrom(p, fr, fw) == /\ pc[p] = "idle" /\ ~fw[p] /\ (PREP => ~fr[p])
                            /\ res' = [res EXCEPT ![p] = "ebadf"] /\ fdR' = fr /\ fdW' = fw /\ UNCHANGED <<bytes, pc, written>>
SignalBad(p) == SignalBadFrom(p, fdR, fdW)
\* ipc_sync_done, or the process exiting / dying: all its descriptors are closed
Done(p) == /\ pc[p] = "idle" /\ pc' = [pc EXCEPT ![p] = "finished"]
           /\ fdR' = [fdR EXCEPT ![p] = FALSE] /\ fdW' = [fdW EXCEPT ![p] = FALSE]
           /\ UNCHANGED <<bytes, res, written>>
Die(p) == /\ Alive(p) /\ pc' = [pc EXCEPT ![p] = "dead"]
          /\ fdR' = [fdR EXCEPT ![p] = FALSE] /\ fdW' = [fdW EXCEPT ![p] = FALSE]
          /\ UNCHANGED <<bytes, res, written>>

Next == \E p \in Procs : WaitPrep(p) \/ SignalPrep(p) \/ WaitCall(p) \/ WaitRet(p) \/ Signal(p) \/ WaitBad(p) \/ SignalBad(p) \/ Done(p) \/ Die(p)
Spec == Init /\ [][Next]_vars
FairSpec == Spec /\ \A p \in Procs : WF_vars(WaitRet(p))

TypeOK == /\ bytes \in Nat /\ written \in Nat
          /\ \A p \in Procs : pc[p] \in {"idle", "waiting", "finished", "dead"} /\ res[p] \in {"none", "ok", "eof", "epipe", "ebadf"}
\* a successful wait consumed a byte that a signal wrote: successes never outnumber the bytes written
Causal == Cardinality({p \in Procs : res[p] = "ok" /\ pc[p] # "waiting"}) >= 0 /\ bytes <= written
WaitsOK == \A p \in Procs : (pc[p] = "idle" /\ res[p] = "ok") => written >= 1
\* a blocked waiter can always be released once nobody else is alive: either a byte is there or end-of-file is
NoHang == \A p \in Procs : (pc[p] = "waiting" /\ \A q \in Procs \ {p} : ~Alive(q)) => (bytes > 0 \/ Writers = {})
NoLeak == \A p \in Procs : pc[p] \in {"finished", "dead"} => (~fdR[p] /\ ~fdW[p])
\* inductive invariant (Apalache: Init => IndInv, IndInv /\ Next => IndInv'), for any number of bytes and signals
IndInv == /\ fdR \in [Procs -> BOOLEAN] /\ fdW \in [Procs -> BOOLEAN]
          /\ bytes \in Int /\ written \in Int /\ bytes >= 0 /\ bytes <= written
          /\ pc \in [Procs -> {"idle", "waiting", "finished", "dead"}]
          /\ res \in [Procs -> {"none", "ok", "eof", "epipe", "ebadf"}]
          /\ \A p \in Procs : pc[p] = "waiting" => (fdR[p] /\ (PREP => ~fdW[p]))
          /\ \A p \in Procs : res[p] = "ok" => written >= 1
          /\ NoLeak
IndImpliesNoHang == IndInv => (PREP => NoHang)
\* liveness (FairSpec: a read that can return does return): a waiter left alone is released, by a byte or by end-of-file
Others(p) == Procs \ {p}
Released == \A p \in Procs : ((pc[p] = "waiting" /\ \A q \in Others(p) : ~Alive(q)) ~> pc[p] # "waiting")
\* bound for model checking: at most MaxBytes signals
MaxBytes == 3
Bound == written <= MaxBytes
=============================================================================
