CONSTANTS Procs = {p1, p2}
          PREP = FALSE
SPECIFICATION Spec
INVARIANTS NoHang
CONSTRAINT Bound
CHECK_DEADLOCK FALSE
