SPECIFICATION Spec
CONSTANTS FDS = {0, 1}
          MAXID = 4
          PRIOS = {0}
          TIMEOUTS = {}
          BUDGET = 4
          CBBUDGET = 2
          MAXCLOCK = 0
          RCS = {0}
          CLEARREV = TRUE
          ATPOLL = TRUE
          GEN = FALSE
INVARIANTS Inv1 Inv23 Inv4 Inv5 Inv6 AbsOK TypeOK
CHECK_DEADLOCK FALSE
