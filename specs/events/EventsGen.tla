------------------------------ MODULE EventsGen ------------------------------
(* Behaviour generation from EventsImpl (GEN = TRUE): every state in which the client has finished and the loop
   is idle prints the history of client/environment actions and the set of implementation situations (tags)
   the behaviour went through; tools/checks/evgen.py turns histories into driver programs and selects by tags. *)
EXTENDS EventsImpl, Json
Quiet == pc = "out" /\ (budget = 0 \/ nextid > MAXID) /\ ~RunnableNow /\ hist # <<>>
CONSTANT TRAP
\* trap-directed generation: model checking for reachability of an implementation situation; the first behaviour that
\* reaches it is printed and the run stops (breadth-first => a shortest one).  hist is hidden from the state by a VIEW.
TrapInv == ~(TRAP \in tags /\ PrintT(<<"CASE", ToJson([h |-> hist, t |-> tags])>>))
TrapView == <<S, fds, scan, immq, minq, timers, orig, clock, kready, pc, ret, cur, cbleft, budget, nextid, rc, intrq,
              status, polled, errhup, ok, lastCP, lastCb, TRAP \in tags>>
Emit == Quiet => PrintT(<<"CASE", ToJson([h |-> hist, t |-> tags])>>)
=============================================================================
