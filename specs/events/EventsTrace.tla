---------------------------- MODULE EventsTrace ----------------------------
(***************************************************************************)
(* The event loop as properties C04 and C05 describe it (abstract level,    *)
(* decides), as a trace specification over executions of the real           *)
(* events_*.c on the fake kernel.  Every guard is one clause of a           *)
(* statement; nothing here depends on how the loop is implemented (array    *)
(* order, scan direction, number of polls).                                 *)
(*                                                                          *)
(* Times are <<seconds, microseconds>> pairs (TLC integers are 32-bit).     *)
(* Descriptor flags are bit masks: IN = 1, OUT = 2, ERR = 4, HUP = 8.       *)
(***************************************************************************)
EXTENDS TraceBase, Integers, FiniteSets
CONSTANTS MAXID, MAXFD
Ids == 1..MAXID
FDS == 0..(MAXFD - 1)

VARIABLES status,     \* id -> "none" | "pending" | "fired" | "cancelled"
          info,       \* id -> [kind, fd, op, prio, dl (deadline), orig (timeout)]
          imm,        \* priority -> sequence of pending immediate ids (registration order)
          slot,       \* <<fd, op>> -> id registered there, 0 if none
          polled,     \* id -> a poll since its registration reported its descriptor ready for its direction
          errhup,     \* descriptors for which the LATEST poll reported ERR or HUP
          kready,     \* fd -> kernel readiness mask (environment)
          clock,
          inRun, spin, ran, slept, runnable0, stopRc, intr, intrStop, cur, done
vars == <<l, status, info, imm, slot, polled, errhup, kready, clock,
          inRun, spin, ran, slept, runnable0, stopRc, intr, intrStop, cur, done>>

\* ---- helpers ----
Bit(m, b) == (m \div b) % 2 = 1
TLeq(a, b) == a[1] < b[1] \/ (a[1] = b[1] /\ a[2] <= b[2])
TLess(a, b) == a[1] < b[1] \/ (a[1] = b[1] /\ a[2] < b[2])
TAdd(a, b) == LET u == a[2] + b[2] IN IF u >= 1000000 THEN <<a[1] + b[1] + 1, u - 1000000>> ELSE <<a[1] + b[1], u>>
Ms(t) == <<t \div 1000, (t % 1000) * 1000>>
DirBit(op) == IF op = "R" THEN 1 ELSE 2
NoInfo == [kind |-> "none", fd |-> 0, op |-> "R", prio |-> 0, dl |-> <<0, 0>>, orig |-> <<0, 0>>]
Pending(i) == status[i] = "pending"
Socks == {i \in Ids : Pending(i) /\ info[i].kind = "sock"}
Timers == {i \in Ids : Pending(i) /\ info[i].kind = "timer"}
ImmPending == \E p \in 0..31 : imm[p] # <<>>
MinPrio == CHOOSE p \in 0..31 : imm[p] # <<>> /\ \A r \in 0..(p - 1) : imm[r] = <<>>
KReady(i) == Bit(kready[info[i].fd], DirBit(info[i].op)) \/ Bit(kready[info[i].fd], 4) \/ Bit(kready[info[i].fd], 8)
RunnableNow == ImmPending \/ (\E i \in Socks : KReady(i)) \/ (\E i \in Timers : TLeq(info[i].dl, clock))
Clk(p) == <<Ev[p \o "s"], Ev[p \o "u"]>>
Remove(s, x) == SelectSeq(s, LAMBDA y : y # x)

Init0 == /\ status = [i \in Ids |-> "none"] /\ info = [i \in Ids |-> NoInfo]
         /\ imm = [p \in 0..31 |-> <<>>] /\ slot = [k \in FDS \X {"R", "W"} |-> 0]
         /\ polled = [i \in Ids |-> FALSE] /\ errhup = {} /\ kready = [f \in FDS |-> 0]
         /\ clock = <<1, 0>> /\ inRun = FALSE /\ spin = FALSE /\ ran = 0 /\ slept = FALSE /\ runnable0 = FALSE
         /\ stopRc = 0 /\ intr = FALSE /\ intrStop = FALSE /\ cur = 0 /\ done = FALSE
Init == l = 1 /\ Init0
RunVars == <<inRun, spin, ran, slept, runnable0, stopRc, intrStop, cur, done>>

TReset == /\ IsEvent("reset")
          /\ status' = [i \in Ids |-> "none"] /\ info' = [i \in Ids |-> NoInfo]
          /\ imm' = [p \in 0..31 |-> <<>>] /\ slot' = [k \in FDS \X {"R", "W"} |-> 0]
          /\ polled' = [i \in Ids |-> FALSE] /\ errhup' = {} /\ kready' = [f \in FDS |-> 0]
          /\ clock' = <<1, 0>> /\ inRun' = FALSE /\ spin' = FALSE /\ ran' = 0 /\ slept' = FALSE /\ runnable0' = FALSE
          /\ stopRc' = 0 /\ intr' = FALSE /\ intrStop' = FALSE /\ cur' = 0 /\ done' = FALSE

\* calls are made from outside the loop (ctx = 0, not inside a run) or from the running callback (ctx = cur)
CtxOK == Ev.ctx = cur /\ (cur = 0 => ~inRun)

\* ---- registrations and cancellations ----
\* C04: "a registration that already fired can be made again" (a new id on the same descriptor/direction);
\* EEXIST exactly when the direction is occupied.  C14: any other failure needs an injected allocation failure
\* and leaves nothing registered.
RegSock ==
  /\ IsEvent("reg_sock") /\ CtxOK /\ Ev.id \in Ids /\ status[Ev.id] = "none" /\ Ev.fd \in FDS
  /\ LET k == <<Ev.fd, Ev.dir>> IN
     IF slot[k] # 0
     THEN /\ Ev.rc = -1 /\ Ev.eexist /\ UNCHANGED <<status, info, slot>>
     ELSE IF Ev.rc = 0
          THEN /\ status' = [status EXCEPT ![Ev.id] = "pending"]
               /\ info' = [info EXCEPT ![Ev.id] = [NoInfo EXCEPT !.kind = "sock", !.fd = Ev.fd, !.op = Ev.dir]]
               /\ slot' = [slot EXCEPT ![k] = Ev.id]
          ELSE /\ Ev.rc = -1 /\ Ev.inj > 0 /\ ~Ev.eexist /\ UNCHANGED <<status, info, slot>>
  /\ UNCHANGED <<imm, polled, errhup, kready, clock, intr>> /\ UNCHANGED RunVars
RegImm ==
  /\ IsEvent("reg_imm") /\ CtxOK /\ Ev.id \in Ids /\ status[Ev.id] = "none" /\ Ev.prio \in 0..31
  /\ IF Ev.ok
     THEN /\ status' = [status EXCEPT ![Ev.id] = "pending"]
          /\ info' = [info EXCEPT ![Ev.id] = [NoInfo EXCEPT !.kind = "imm", !.prio = Ev.prio]]
          /\ imm' = [imm EXCEPT ![Ev.prio] = Append(@, Ev.id)]
     ELSE Ev.inj > 0 /\ UNCHANGED <<status, info, imm>>
  /\ UNCHANGED <<slot, polled, errhup, kready, clock, intr>> /\ UNCHANGED RunVars
RegTimer ==
  /\ IsEvent("reg_timer") /\ CtxOK /\ Ev.id \in Ids /\ status[Ev.id] = "none" /\ Clk("c") = clock
  /\ IF Ev.ok
     THEN /\ status' = [status EXCEPT ![Ev.id] = "pending"]
          /\ info' = [info EXCEPT ![Ev.id] = [NoInfo EXCEPT !.kind = "timer", !.orig = <<Ev.ts, Ev.tu>>,
                                                            !.dl = TAdd(clock, <<Ev.ts, Ev.tu>>)]]
     ELSE (Ev.inj > 0 \/ (Has("cf") /\ Ev.cf > 0)) /\ UNCHANGED <<status, info>>    \* refused allocation, or the clock could not be read
  /\ UNCHANGED <<imm, slot, polled, errhup, kready, clock, intr>> /\ UNCHANGED RunVars
\* ENOENT exactly when nothing is registered there
CancelSock ==
  /\ IsEvent("cancel_sock") /\ CtxOK /\ Ev.fd \in FDS
  /\ LET k == <<Ev.fd, Ev.dir>> IN
     IF slot[k] = 0 THEN Ev.rc = -1 /\ (Ev.enoent \/ Ev.inj > 0) /\ UNCHANGED <<status, slot>>     \* (first use of the module may itself need memory)
     ELSE /\ Ev.rc = 0                                    \* cancels cannot fail, whatever the allocator does
          /\ status' = [status EXCEPT ![slot[k]] = "cancelled"] /\ slot' = [slot EXCEPT ![k] = 0]
  /\ UNCHANGED <<info, imm, polled, errhup, kready, clock, intr>> /\ UNCHANGED RunVars
CancelImm ==
  /\ IsEvent("cancel_imm") /\ CtxOK /\ Ev.id \in Ids /\ Pending(Ev.id) /\ info[Ev.id].kind = "imm"
  /\ status' = [status EXCEPT ![Ev.id] = "cancelled"]
  /\ imm' = [imm EXCEPT ![info[Ev.id].prio] = Remove(@, Ev.id)]
  /\ UNCHANGED <<info, slot, polled, errhup, kready, clock, intr>> /\ UNCHANGED RunVars
CancelTimer ==
  /\ IsEvent("cancel_timer") /\ CtxOK /\ Ev.id \in Ids /\ Pending(Ev.id) /\ info[Ev.id].kind = "timer"
  /\ status' = [status EXCEPT ![Ev.id] = "cancelled"]
  /\ UNCHANGED <<info, imm, slot, polled, errhup, kready, clock, intr>> /\ UNCHANGED RunVars
ResetTimer ==
  /\ IsEvent("reset_timer") /\ CtxOK /\ Ev.id \in Ids /\ Pending(Ev.id) /\ info[Ev.id].kind = "timer" /\ Ev.rc = 0
  /\ Clk("c") = clock
  /\ info' = [info EXCEPT ![Ev.id].dl = TAdd(clock, info[Ev.id].orig)]
  /\ UNCHANGED <<status, imm, slot, polled, errhup, kready, clock, intr>> /\ UNCHANGED RunVars
\* from a callback, from outside the loop, or (sig) from a signal handler while the loop is inside the first poll of a run: with no
\* callback in progress the request takes effect at once - nothing more is dispatched in this run
Interrupt ==
  /\ IsEvent("interrupt") /\ (IF Has("sig") THEN inRun /\ cur = 0 /\ Ev.ctx = 0 ELSE CtxOK) /\ intr' = TRUE
  /\ intrStop' = (IF Has("sig") /\ inRun /\ cur = 0 THEN TRUE ELSE intrStop)
  /\ UNCHANGED <<status, info, imm, slot, polled, errhup, kready, clock, inRun, spin, ran, slept, runnable0, stopRc, cur, done>>
DoneSet == /\ IsEvent("done_set") /\ done' = TRUE
           /\ UNCHANGED <<status, info, imm, slot, polled, errhup, kready, clock, intr, inRun, spin, ran, slept, runnable0, stopRc, intrStop, cur>>

\* ---- environment ----
EnvSet == /\ IsEvent("env") /\ Ev.fd \in FDS /\ kready' = [kready EXCEPT ![Ev.fd] = Ev.flags]
          /\ TLeq(clock, Clk("c")) /\ clock' = Clk("c")
          /\ UNCHANGED <<status, info, imm, slot, polled, errhup, intr>> /\ UNCHANGED RunVars
Tick == /\ IsEvent("tick") /\ TLeq(clock, Clk("c")) /\ clock' = Clk("c")
        /\ UNCHANGED <<status, info, imm, slot, polled, errhup, kready, intr>> /\ UNCHANGED RunVars
Sched == /\ IsEvent("sched") /\ UNCHANGED <<status, info, imm, slot, polled, errhup, kready, clock, intr>> /\ UNCHANGED RunVars

\* ---- the loop ----
RunCall ==
  /\ IsEvent("run_call") /\ ~inRun /\ cur = 0
  /\ inRun' = TRUE /\ spin' = Ev.spin /\ ran' = 0 /\ slept' = FALSE /\ stopRc' = 0 /\ intrStop' = FALSE
  /\ runnable0' = (RunnableNow /\ ~intr)          \* an interrupt requested before the call waives the progress clause
  /\ UNCHANGED <<status, info, imm, slot, polled, errhup, kready, clock, intr, cur, done>>

\* poll: the (fake) kernel's answer must be faithful; C05 blocking clause on the timeout
Poll ==
  /\ IsEvent("poll") /\ inRun /\ cur = 0
  /\ LET nreq == Len(Ev.fds)
         Req(f) == {k \in 1..nreq : Ev.fds[k][1] = f}
         RevOf(f) == IF \E k \in 1..Len(Ev.ret) : Ev.ret[k][1] = f
                     THEN Ev.ret[CHOOSE k \in 1..Len(Ev.ret) : Ev.ret[k][1] = f][2] ELSE 0
         c0 == Clk("c0")  c1 == Clk("c1")
         sleeps == TLess(c0, c1)
         dls == {info[i].dl : i \in Timers}
         mind == CHOOSE d \in dls : \A e \in dls : TLeq(d, e)
     IN /\ TLeq(c0, c1) /\ TLeq(clock, c1)      \* (scheduled readiness changes applied while sleeping are logged before the poll event)
        /\ \A k \in 1..nreq : Ev.fds[k][1] \in FDS
        \* implementation level (drift report only, comment block of events_network.c): the array given to poll
        \* holds exactly one entry per descriptor with a registered direction, asking exactly the registered directions
        /\ LET asked == {<<Ev.fds[k][1], Ev.fds[k][2]>> : k \in 1..nreq}
               want == {fm \in FDS \X (1..3) : fm[2] = (IF slot[<<fm[1], "R">>] # 0 THEN 1 ELSE 0)
                                                         + (IF slot[<<fm[1], "W">>] # 0 THEN 2 ELSE 0)}
           IN IF asked = want /\ Cardinality(asked) = nreq THEN TRUE ELSE PrintT(<<"IMPLDRIFT", l>>)
        \* C05: never blocks past the earliest timer deadline, rounded up to a millisecond
        /\ (Timers # {}) => /\ Ev.timeout >= 0                                     \* (poll(2): any negative timeout waits forever)
                            /\ (Ev.timeout > 0 => TLess(TAdd(c0, Ms(Ev.timeout)), TAdd(IF TLeq(mind, c0) THEN c0 ELSE mind, <<0, 1000>>)))
        /\ sleeps => Ev.timeout # 0
        /\ Ev.blocked => (Ev.timeout = -1 /\ Timers = {} /\ ~RunnableNow)   \* blocks forever only with nothing runnable
        /\ polled' = [i \in Ids |-> IF Pending(i) /\ info[i].kind = "sock" /\ Bit(RevOf(info[i].fd), DirBit(info[i].op))
                                    THEN TRUE ELSE polled[i]]
        /\ errhup' = {f \in FDS : Bit(RevOf(f), 4) \/ Bit(RevOf(f), 8)}
        /\ clock' = c1
        /\ slept' = (slept \/ (sleeps /\ ran = 0))
  /\ UNCHANGED <<status, info, imm, slot, kready, intr, inRun, spin, ran, runnable0, stopRc, intrStop, cur, done>>
Quiescent == /\ IsEvent("quiescent") /\ inRun /\ cur = 0 /\ ~RunnableNow /\ Timers = {} /\ inRun' = FALSE
             /\ UNCHANGED <<status, info, imm, slot, polled, errhup, kready, clock, intr, spin, ran, slept, runnable0, stopRc, intrStop, cur, done>>

CbEnter ==
  /\ IsEvent("cb_enter") /\ inRun /\ cur = 0
  /\ stopRc = 0                                   \* C05: the first non-zero result stops dispatching
  /\ ~intrStop                                    \* C05: an interrupt request stops dispatching after the current callback
  /\ Ev.id \in Ids /\ Clk("c") = clock
  /\ LET i == Ev.id IN
     /\ Pending(i)                                \* C04: at most once, never after cancel, own cookie
     /\ CASE info[i].kind = "imm" ->
               /\ ImmPending /\ Head(imm[MinPrio]) = i                           \* C05: priority order, FIFO within one
               /\ imm' = [imm EXCEPT ![MinPrio] = Tail(@)] /\ UNCHANGED slot
          [] info[i].kind = "sock" ->
               /\ ~ImmPending                                                     \* C05: an immediate wins over a ready socket
               /\ polled[i] \/ info[i].fd \in errhup                              \* C04: reported by a poll since registration
               /\ slot' = [slot EXCEPT ![<<info[i].fd, info[i].op>>] = 0] /\ UNCHANGED imm
          [] info[i].kind = "timer" ->
               /\ ~ImmPending /\ ~(\E s \in Socks : KReady(s))                    \* C05: ready socket wins over expired timer
               /\ TLeq(info[i].dl, clock)                                         \* C04: never before its deadline
               /\ \A t \in Timers : TLeq(info[i].dl, info[t].dl)                  \* C05: deadline order
               /\ UNCHANGED <<imm, slot>>
     /\ status' = [status EXCEPT ![i] = "fired"]
     /\ cur' = i /\ ran' = ran + 1
  /\ UNCHANGED <<info, polled, errhup, kready, clock, intr, inRun, spin, slept, runnable0, stopRc, intrStop, done>>
CbRet == /\ IsEvent("cb_ret") /\ cur # 0 /\ Ev.id = cur /\ cur' = 0
         /\ stopRc' = Ev.rc /\ intrStop' = intr
         /\ UNCHANGED <<status, info, imm, slot, polled, errhup, kready, clock, intr, inRun, spin, ran, slept, runnable0, done>>
RunRet ==
  /\ IsEvent("run_ret") /\ inRun /\ cur = 0
  /\ IF Ev.inj > 0 THEN Ev.rc \in {stopRc, -1}                                    \* C14: the loop itself may report an allocation failure
     ELSE /\ Ev.rc = stopRc                                                       \* first non-zero result, unchanged; 0 otherwise
          /\ IF spin THEN (stopRc # 0 \/ done \/ intr)
             ELSE /\ (ran = 0 /\ ~intr) => ~RunnableNow                           \* woke for something => ran it before returning
                  /\ (runnable0 /\ ~(intr /\ ran = 0)) => (ran >= 1 /\ ~slept)  \* progress without waiting (unless a signal handler asked the loop to stop first)
  /\ inRun' = FALSE /\ intr' = FALSE
  /\ UNCHANGED <<status, info, imm, slot, polled, errhup, kready, clock, spin, ran, slept, runnable0, stopRc, intrStop, cur, done>>
\* end of the program (the driver then cancels what it still holds); exit: nothing leaked (C14)
TEnd == /\ IsEvent("end") /\ ~inRun /\ cur = 0 /\ UNCHANGED <<status, info, imm, slot, polled, errhup, kready, clock, intr>> /\ UNCHANGED RunVars
TExit == /\ IsEvent("exit") /\ Ev.live = 0 /\ UNCHANGED <<status, info, imm, slot, polled, errhup, kready, clock, intr>> /\ UNCHANGED RunVars

Next == \/ TReset \/ RegSock \/ RegImm \/ RegTimer \/ CancelSock \/ CancelImm \/ CancelTimer \/ ResetTimer
        \/ Interrupt \/ DoneSet \/ EnvSet \/ Tick \/ Sched \/ RunCall \/ Poll \/ Quiescent \/ CbEnter \/ CbRet \/ RunRet
        \/ TEnd \/ TExit
Spec == Init /\ [][Next]_vars
=============================================================================
