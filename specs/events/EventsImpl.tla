----------------------------- MODULE EventsImpl -----------------------------
(***************************************************************************)
(* Implementation-shaped model of the event loop: one action per program    *)
(* point of events_run_internal() (events/events.c), events_network_get(),  *)
(* clearbit(), growpollfd() (events/events_network.c), the 32 immediate     *)
(* queues with minq (events_immediate.c) and the timer queue as a set with  *)
(* min-selection (events_timer.c over timerqueue.c).  Client calls are made *)
(* from outside the loop (pc = "out") and from inside the running callback  *)
(* (pc = "cb").  Time is in whole milliseconds here; exact microsecond      *)
(* arithmetic lives in EventsTrace (abstract level).                        *)
(*                                                                          *)
(* Ghost variables carry the abstract state of properties C04/C05; the      *)
(* guards are evaluated at every dispatch and recorded in `ok`, so that     *)
(* model checking decides "Impl => Abs" for every program and schedule      *)
(* inside the bound.  `hist`/`tags` exist only in the generation variant.   *)
(***************************************************************************)
EXTENDS Naturals, Integers, Sequences, FiniteSets, TLC

CONSTANTS FDS,        \* descriptors, e.g. {0, 1}
          MAXID,      \* registrations are numbered 1..MAXID in creation order
          PRIOS,      \* immediate priorities used, e.g. {0, 1}
          TIMEOUTS,   \* timer timeouts in ms, e.g. {0, 1, 2}
          BUDGET,     \* total number of client calls (register/cancel/reset/interrupt)
          CBBUDGET,   \* client calls per callback
          MAXCLOCK,
          RCS,        \* callback results, e.g. {0} or {0, 1}
          CLEARREV,   \* TRUE: clearbit() clears revents (the code).  FALSE: the mutation of DESIGN section 6
          GEN,        \* TRUE: generation variant (explicit environment, history)
          ATPOLL      \* TRUE: readiness changes are chosen at the polls (exhaustive and trap-directed runs); FALSE: explicit EnvSet actions

VARIABLES S,          \* fd -> [r, w, pp]: reader id, writer id (0 none), poll position (-1 none)
          fds,        \* the pollfd array: sequence of [fd, ev, rev] (position p of C is fds[p+1])
          scan,       \* fdscanpos; -1 encodes the size_t wrap
          immq, minq, \* immediate queues (prio -> seq of ids), minq as in the code (0..32)
          timers,     \* set of [id, dl]
          orig,       \* id -> timeout (for reset)
          clock, kready,
          pc,         \* "out" | "top" | "immloop" | "loop" | "afterget2" | "cb"
          ret,        \* program point to return to after a callback
          cur, cbleft, budget, nextid, rc, intrq, first,
          \* ---- ghosts (abstract state of C04/C05) ----
          status, polled, errhup, ok, ran, runnable0,
          \* ---- generation ----
          hist, tags,
          lastCb,     \* generation: the callback that ran last since the latest poll (0 none)
          lastCP      \* generation: <<fd, op>> whose pending revents bit was cleared by a cancel inside the running callback

vars == <<S, fds, scan, immq, minq, timers, orig, clock, kready, pc, ret, cur, cbleft, budget, nextid, rc, intrq, first,
          status, polled, errhup, ok, ran, runnable0, hist, tags, lastCP, lastCb>>

Ids == 1..MAXID
Flags == {"IN", "OUT", "HUP"}
Bit(op) == IF op = "R" THEN "IN" ELSE "OUT"
NF == Len(fds)

Log(r) == IF GEN THEN hist' = Append(hist, r) ELSE hist' = hist
Tag(t) == IF GEN THEN tags' = tags \cup t ELSE tags' = tags
NoLog == UNCHANGED <<hist, tags>>

Init ==
  /\ S = [f \in FDS |-> [r |-> 0, w |-> 0, pp |-> -1]] /\ fds = <<>> /\ scan = -1
  /\ immq = [p \in PRIOS |-> <<>>] /\ minq = 32 /\ timers = {} /\ orig = [i \in Ids |-> 0]
  /\ clock = 0 /\ kready = [f \in FDS |-> {}]
  /\ pc = "out" /\ ret = "out" /\ cur = 0 /\ cbleft = 0 /\ budget = BUDGET /\ nextid = 1 /\ rc = 0 /\ intrq = FALSE /\ first = FALSE
  /\ status = [i \in Ids |-> "none"] /\ polled = [i \in Ids |-> FALSE] /\ errhup = {} /\ ok = TRUE /\ ran = 0 /\ runnable0 = FALSE
  /\ hist = <<>> /\ tags = {} /\ lastCP = <<>> /\ lastCb = 0

\* ---------------------------------------------------------------------------
\* events_network.c
\* clearbit(pollpos, bit): returns <<S', fds', tagset>>
ClearBit(SS, ff, p, bit) ==
  LET e  == ff[p + 1]
      e1 == [e EXCEPT !.ev = @ \ {bit}, !.rev = IF CLEARREV THEN @ \ {bit} ELSE @]
      f1 == [ff EXCEPT ![p + 1] = e1]
      t0 == IF bit \in e.rev THEN {"clear_pending_rev"} ELSE {}
  IN IF e1.ev # {} THEN <<SS, f1, t0 \cup {"slot_survives"}>>
     ELSE LET S1 == [SS EXCEPT ![e.fd].pp = -1]
              n  == Len(ff)
          IN IF p # n - 1
             THEN LET last == f1[n]
                      f2   == [f1 EXCEPT ![p + 1] = last]
                  IN <<[S1 EXCEPT ![last.fd].pp = p], SubSeq(f2, 1, n - 1),
                       t0 \cup {"compact_move"} \cup (IF last.rev # {} THEN {"compact_move_pending"} ELSE {})>>
             ELSE <<S1, SubSeq(f1, 1, n - 1), t0 \cup {"compact_top"}>>

\* events_network_get(): <<id or 0, S', fds', scan', tags>>; scan is not decremented when an event is returned
RECURSIVE Get(_, _, _, _)
Get(SS, ff, sc, tg) ==
  IF sc < 0 \/ sc >= Len(ff)
  THEN <<0, SS, ff, sc, tg \cup (IF sc >= Len(ff) /\ \E k \in 1..Len(ff) : ff[k].rev # {} THEN {"scan_cut_short"} ELSE {})>>
  ELSE LET e  == ff[sc + 1]
           hup == "HUP" \in e.rev
           e1 == IF hup THEN [e EXCEPT !.rev = (@ \ {"HUP"}) \cup e.ev] ELSE e
           f1 == [ff EXCEPT ![sc + 1] = e1]
           tg1 == tg \cup (IF hup THEN (IF Cardinality(e.ev) = 2 THEN {"hup_both"} ELSE {"hup_one"}) ELSE {})
       IN IF "IN" \in e1.rev
          THEN LET c == ClearBit([SS EXCEPT ![e.fd].r = 0], f1, sc, "IN")
               IN <<SS[e.fd].r, c[1], c[2], sc, tg1 \cup c[3]>>
          ELSE IF "OUT" \in e1.rev
          THEN LET c == ClearBit([SS EXCEPT ![e.fd].w = 0], f1, sc, "OUT")
               IN <<SS[e.fd].w, c[1], c[2], sc, tg1 \cup c[3]>>
          ELSE Get(SS, f1, sc - 1, tg1)

\* ---------------------------------------------------------------------------
\* abstract-level helpers (ghost)
PendingIds == {i \in Ids : status[i] = "pending"}
SockOf(i) == CHOOSE f \in FDS : S[f].r = i \/ S[f].w = i
IsSock(i) == \E f \in FDS : S[f].r = i \/ S[f].w = i
DirOf(i) == IF S[SockOf(i)].r = i THEN "IN" ELSE "OUT"
ImmPending == \E p \in PRIOS : immq[p] # <<>>
KReadySock == \E f \in FDS : (S[f].r # 0 /\ kready[f] \cap {"IN", "HUP"} # {}) \/ (S[f].w # 0 /\ kready[f] \cap {"OUT", "HUP"} # {})
ExpiredTimer == \E t \in timers : t.dl <= clock
RunnableNow == ImmPending \/ KReadySock \/ ExpiredTimer

\* ---------------------------------------------------------------------------
\* client calls: from outside (pc = "out") or inside the running callback (pc = "cb")
CanCall == budget > 0 /\ ((pc = "out") \/ (pc = "cb" /\ cbleft > 0))
Spend == budget' = budget - 1 /\ cbleft' = (IF pc = "cb" THEN cbleft - 1 ELSE cbleft)
Ctx == cur

RegSock(f, op) ==
  /\ CanCall /\ nextid <= MAXID
  /\ LET occupied == IF op = "R" THEN S[f].r # 0 ELSE S[f].w # 0 IN
     IF occupied
     THEN /\ UNCHANGED <<S, fds, status, polled, nextid>>                 \* EEXIST
          /\ Log([op |-> "cancel_then_reg_eexist", ctx |-> Ctx, fd |-> f, dir |-> op, id |-> 0]) /\ Tag({"eexist"})
     ELSE LET id == nextid
              S1 == IF op = "R" THEN [S EXCEPT ![f].r = id] ELSE [S EXCEPT ![f].w = id]
              fresh == S[f].pp = -1
              S2 == IF fresh THEN [S1 EXCEPT ![f].pp = NF] ELSE S1
              f1 == IF fresh THEN Append(fds, [fd |-> f, ev |-> {}, rev |-> {}]) ELSE fds
              p  == S2[f].pp
          IN /\ S' = S2 /\ fds' = [f1 EXCEPT ![p + 1].ev = @ \cup {Bit(op)}]
             /\ status' = [status EXCEPT ![id] = "pending"] /\ polled' = [polled EXCEPT ![id] = FALSE]
             /\ nextid' = nextid + 1
             /\ Log([op |-> "reg_sock", ctx |-> Ctx, fd |-> f, dir |-> op, id |-> id])
             /\ Tag((IF pc = "cb" THEN {"reg_in_cb"} ELSE {}) \cup
                    (IF pc = "cb" /\ ~fresh /\ scan >= p /\ scan < NF THEN {"reg_in_cb_on_unscanned_slot"} ELSE {}) \cup
                    (IF pc = "cb" /\ ~fresh /\ fds[p + 1].rev # {} THEN {"reg_on_slot_with_pending_rev"} ELSE {}) \cup
                    (IF pc = "cb" /\ ~fresh /\ scan >= p /\ scan < NF /\ lastCP = <<f, op>> THEN {"rereg_after_cancel_pending_unscanned"} ELSE {}))
  /\ Spend
  /\ UNCHANGED <<scan, immq, minq, timers, orig, clock, kready, pc, ret, cur, rc, intrq, first, errhup, ok, ran, runnable0>>

CancelSock(f, op) ==
  /\ CanCall
  /\ LET id == IF op = "R" THEN S[f].r ELSE S[f].w IN
     IF id = 0
     THEN /\ UNCHANGED <<S, fds, status, lastCP>> /\ Log([op |-> "cancel_sock", ctx |-> Ctx, fd |-> f, dir |-> op, id |-> 0]) /\ Tag({"enoent"})
     ELSE LET S1 == IF op = "R" THEN [S EXCEPT ![f].r = 0] ELSE [S EXCEPT ![f].w = 0]
              c == ClearBit(S1, fds, S[f].pp, Bit(op))
          IN /\ S' = c[1] /\ fds' = c[2] /\ status' = [status EXCEPT ![id] = "cancelled"]
             /\ lastCP' = (IF GEN /\ pc = "cb" /\ "clear_pending_rev" \in c[3] THEN <<f, op>> ELSE lastCP)
             /\ Log([op |-> "cancel_sock", ctx |-> Ctx, fd |-> f, dir |-> op, id |-> id])
             /\ Tag({"cancel_" \o t : t \in c[3]} \cup (IF pc = "cb" THEN {"cancel_in_cb"} ELSE {}) \cup
                    (IF pc = "cb" /\ NF - 1 = scan /\ Len(c[2]) < NF THEN {"cancel_shrinks_to_scan"} ELSE {}))
  /\ Spend
  /\ UNCHANGED <<scan, immq, minq, timers, orig, clock, kready, pc, ret, cur, nextid, rc, intrq, first, polled, errhup, ok, ran, runnable0>>

RegImm(p) ==
  /\ CanCall /\ nextid <= MAXID
  /\ immq' = [immq EXCEPT ![p] = Append(@, nextid)] /\ minq' = (IF p < minq THEN p ELSE minq)
  /\ status' = [status EXCEPT ![nextid] = "pending"] /\ nextid' = nextid + 1
  /\ Log([op |-> "reg_imm", ctx |-> Ctx, fd |-> p, dir |-> "", id |-> nextid])
  /\ Tag(IF pc = "cb" THEN {"imm_in_cb"} ELSE {})
  /\ Spend
  /\ UNCHANGED <<S, fds, scan, timers, orig, clock, kready, pc, ret, cur, rc, intrq, first, polled, errhup, ok, ran, runnable0>>

CancelImm(i) ==
  /\ CanCall /\ \E p \in PRIOS : \E k \in 1..Len(immq[p]) : immq[p][k] = i
  /\ immq' = [p \in PRIOS |-> SelectSeq(immq[p], LAMBDA x : x # i)]
  /\ status' = [status EXCEPT ![i] = "cancelled"]
  /\ Log([op |-> "cancel", ctx |-> Ctx, fd |-> 0, dir |-> "", id |-> i]) /\ Tag({"cancel_imm"})
  /\ Spend
  /\ UNCHANGED <<S, fds, scan, minq, timers, orig, clock, kready, pc, ret, cur, nextid, rc, intrq, first, polled, errhup, ok, ran, runnable0>>

RegTimer(t) ==
  /\ CanCall /\ nextid <= MAXID
  /\ timers' = timers \cup {[id |-> nextid, dl |-> clock + t]} /\ orig' = [orig EXCEPT ![nextid] = t]
  /\ status' = [status EXCEPT ![nextid] = "pending"] /\ nextid' = nextid + 1
  /\ Log([op |-> "reg_timer", ctx |-> Ctx, fd |-> t, dir |-> "", id |-> nextid])
  /\ Tag(IF pc = "cb" THEN {"timer_in_cb"} ELSE {})
  /\ Spend
  /\ UNCHANGED <<S, fds, scan, immq, minq, clock, kready, pc, ret, cur, rc, intrq, first, polled, errhup, ok, ran, runnable0>>

CancelTimer(i) ==
  /\ CanCall /\ \E t \in timers : t.id = i
  /\ timers' = {t \in timers : t.id # i} /\ status' = [status EXCEPT ![i] = "cancelled"]
  /\ Log([op |-> "cancel", ctx |-> Ctx, fd |-> 0, dir |-> "", id |-> i]) /\ Tag({"cancel_timer"})
  /\ Spend
  /\ UNCHANGED <<S, fds, scan, immq, minq, orig, clock, kready, pc, ret, cur, nextid, rc, intrq, first, polled, errhup, ok, ran, runnable0>>

ResetTimer(i) ==
  /\ CanCall /\ \E t \in timers : t.id = i
  /\ timers' = {t \in timers : t.id # i} \cup {[id |-> i, dl |-> clock + orig[i]]}
  /\ Log([op |-> "reset", ctx |-> Ctx, fd |-> 0, dir |-> "", id |-> i])
  /\ Tag({"reset"} \cup (IF pc = "cb" THEN {"reset_in_cb"} ELSE {}))
  /\ Spend
  /\ UNCHANGED <<S, fds, scan, immq, minq, orig, clock, kready, pc, ret, cur, nextid, rc, intrq, first, status, polled, errhup, ok, ran, runnable0>>

Interrupt ==
  /\ CanCall /\ pc = "cb" /\ ~intrq
  /\ intrq' = TRUE /\ Log([op |-> "interrupt", ctx |-> Ctx, fd |-> 0, dir |-> "", id |-> 0]) /\ Tag({"interrupt"})
  /\ Spend
  /\ UNCHANGED <<S, fds, scan, immq, minq, timers, orig, clock, kready, pc, ret, cur, nextid, rc, first, status, polled, errhup, ok, ran, runnable0>>

\* environment (generation variant only; the exhaustive variant lets Poll choose readiness)
EnvSet(f, fl) ==
  /\ GEN /\ ~ATPOLL /\ pc \in {"out", "cb"} /\ kready[f] # fl /\ (S[f].pp # -1 \/ fl = {})   \* only descriptors somebody listens to
  /\ kready' = [kready EXCEPT ![f] = fl]
  /\ Log([op |-> "env", ctx |-> Ctx, fd |-> f, dir |-> "", id |-> 0, flags |-> fl]) /\ tags' = tags
  /\ UNCHANGED <<S, fds, scan, immq, minq, timers, orig, clock, pc, ret, cur, cbleft, budget, nextid, rc, intrq, first, status, polled, errhup, ok, ran, runnable0>>
Tick ==
  /\ pc \in {"out", "cb"} /\ clock < MAXCLOCK /\ timers # {}
  /\ clock' = clock + 1
  /\ Log([op |-> "tick", ctx |-> Ctx, fd |-> 0, dir |-> "", id |-> 0]) /\ tags' = tags
  /\ UNCHANGED <<S, fds, scan, immq, minq, timers, orig, kready, pc, ret, cur, cbleft, budget, nextid, rc, intrq, first, status, polled, errhup, ok, ran, runnable0>>

\* ---------------------------------------------------------------------------
\* the loop: events_run_internal()
RunCall ==
  /\ pc = "out" /\ pc' = "top" /\ rc' = 0 /\ ran' = 0 /\ first' = TRUE
  /\ runnable0' = (IF GEN THEN RunnableNow ELSE ImmPending \/ ExpiredTimer)
  /\ Log([op |-> "run", ctx |-> 0, fd |-> 0, dir |-> "", id |-> 0]) /\ tags' = tags
  /\ UNCHANGED <<S, fds, scan, immq, minq, timers, orig, clock, kready, ret, cur, cbleft, budget, nextid, intrq, status, polled, errhup, ok>>

\* events_immediate_get(): <<id or 0, immq', minq'>>
RECURSIVE AdvMinq(_)
AdvMinq(m) == IF m < 32 /\ (m \notin PRIOS \/ immq[m] = <<>>) THEN AdvMinq(m + 1) ELSE m
ImmGet == LET m == AdvMinq(minq) IN
          IF m = 32 THEN <<0, immq, 32>> ELSE <<Head(immq[m]), [immq EXCEPT ![m] = Tail(@)], m>>

\* dispatch of id i found by the loop at program point `back`; `guard` is the abstract guard (C04/C05) for it
Dispatch(i, guard, back) ==
  /\ ok' = (ok /\ status[i] = "pending" /\ guard)
  /\ status' = [status EXCEPT ![i] = "fired"]
  /\ cur' = i /\ cbleft' = CBBUDGET /\ pc' = "cb" /\ ret' = back /\ ran' = ran + 1
\* C05: increasing priority, first-in-first-out within a priority
AbsImmOK(i) == LET P == {p \in PRIOS : immq[p] # <<>>} IN
               P # {} /\ i = Head(immq[CHOOSE p \in P : \A r \in P : p <= r])

\* top of events_run_internal: immediates first, and if there were any, return after draining them
Top ==
  /\ pc = "top"
  /\ LET g == ImmGet IN
     IF g[1] # 0
     THEN /\ immq' = g[2] /\ minq' = g[3] /\ Dispatch(g[1], AbsImmOK(g[1]), "immloop")
          /\ Tag({"imm_first"}) /\ hist' = hist
          /\ UNCHANGED <<S, fds, scan, timers, orig, clock, kready, budget, nextid, rc, intrq, first, polled, errhup, runnable0>>
     ELSE /\ minq' = g[3] /\ pc' = "select1"
          /\ UNCHANGED <<S, fds, scan, immq, timers, orig, clock, kready, ret, cur, cbleft, budget, nextid, rc, intrq, first,
                         status, polled, errhup, ok, ran, runnable0, hist, tags>>
ImmLoop ==
  /\ pc = "immloop"
  /\ IF rc # 0 \/ intrq THEN pc' = "ret" /\ UNCHANGED <<immq, minq, status, cur, cbleft, ret, ran, ok>> /\ NoLog
     ELSE LET g == ImmGet IN
          IF g[1] # 0 THEN immq' = g[2] /\ minq' = g[3] /\ Dispatch(g[1], AbsImmOK(g[1]), "immloop") /\ NoLog
          ELSE minq' = g[3] /\ pc' = "ret" /\ UNCHANGED <<immq, status, cur, cbleft, ret, ran, ok>> /\ NoLog
  /\ UNCHANGED <<S, fds, scan, timers, orig, clock, kready, budget, nextid, rc, intrq, first, polled, errhup, runnable0>>

\* poll(): revents = kready /\ (events \cup {HUP}); ghost: polled / errhup
PollEffect(kr, ff) == [k \in 1..Len(ff) |-> [ff[k] EXCEPT !.rev = kr[ff[k].fd] \cap (ff[k].ev \cup {"HUP"})]]
GhostPoll(ff) ==
  /\ polled' = [i \in Ids |-> IF status[i] = "pending" /\ IsSock(i) /\ S[SockOf(i)].pp # -1
                                 /\ DirOf(i) \in ff[S[SockOf(i)].pp + 1].rev THEN TRUE ELSE polled[i]]
  /\ errhup' = {ff[k].fd : k \in {j \in 1..Len(ff) : "HUP" \in ff[j].rev}}

FLSETS == {{}, {"IN"}, {"OUT"}, {"IN", "OUT"}, {"HUP"}}
KChoices == IF ~GEN THEN [FDS -> SUBSET Flags] ELSE IF ATPOLL THEN [FDS -> FLSETS] ELSE {kready}
\* first, possibly blocking, select.  Exhaustive variant: the environment chooses readiness here.
Select1 ==
  /\ pc = "select1"
  /\ LET mind == IF timers = {} THEN -1 ELSE CHOOSE d \in {t.dl : t \in timers} : \A t \in timers : d <= t.dl
         timeout == IF mind = -1 THEN -1 ELSE IF mind <= clock THEN 0 ELSE mind - clock
     IN \/ \* something is ready now (or becomes ready: exhaustive variant), no time passes
           /\ \E kr \in KChoices :
                /\ LET ff == PollEffect(kr, fds) IN
                   /\ (\E k \in 1..Len(ff) : ff[k].rev # {}) \/ timeout = 0
                   /\ kready' = (IF GEN THEN kr ELSE kready) /\ fds' = ff /\ GhostPoll(ff)
                /\ IF GEN /\ kr # kready THEN hist' = Append(hist, [op |-> "envall", ctx |-> 0, fd |-> 0, dir |-> "", id |-> 0, kr |-> kr]) ELSE hist' = hist
           /\ clock' = clock /\ tags' = tags
        \/ \* nothing ready: sleep until the timeout expires
           /\ timeout > 0 /\ clock + timeout <= MAXCLOCK
           /\ \A k \in 1..NF : kready[fds[k].fd] \cap (fds[k].ev \cup {"HUP"}) = {}
           /\ clock' = clock + timeout /\ fds' = PollEffect(kready, fds) /\ GhostPoll(PollEffect(kready, fds)) /\ kready' = kready
           /\ Tag({"slept_to_timer"}) /\ hist' = hist
        \/ \* generation variant: a descriptor becomes ready while sleeping (scheduled readiness change)
           /\ GEN /\ timeout # 0 /\ NF > 0
           /\ \A k \in 1..NF : kready[fds[k].fd] \cap (fds[k].ev \cup {"HUP"}) = {}
           /\ \E k \in 1..NF, fl \in (SUBSET Flags) \ {{}}, d \in 1..2 :
                /\ fl \cap (fds[k].ev \cup {"HUP"}) # {}
                /\ (timeout = -1 \/ d < timeout) /\ clock + d <= MAXCLOCK
                /\ kready' = [kready EXCEPT ![fds[k].fd] = fl] /\ clock' = clock + d
                /\ fds' = PollEffect(kready', fds) /\ GhostPoll(PollEffect(kready', fds))
                /\ Log([op |-> "wake", ctx |-> 0, fd |-> fds[k].fd, dir |-> "", id |-> d, flags |-> fl]) /\ Tag({"woken_by_fd"})
  /\ scan' = NF - 1 /\ pc' = "loop"
  /\ UNCHANGED <<S, immq, minq, timers, orig, ret, cur, cbleft, budget, nextid, rc, intrq, first, status, ok, ran, runnable0>>

\* the do-loop: interrupt check, immediate, network event, re-poll, timer
Loop ==
  /\ pc = "loop"
  /\ IF intrq \/ rc # 0 THEN pc' = "ret" /\ UNCHANGED <<S, fds, scan, immq, minq, status, cur, cbleft, ret, ran, ok>> /\ NoLog
     ELSE LET g == ImmGet IN
          IF g[1] # 0
          THEN /\ immq' = g[2] /\ minq' = g[3] /\ Dispatch(g[1], AbsImmOK(g[1]), "loop") /\ UNCHANGED <<S, fds, scan>> /\ NoLog
          ELSE LET n == Get(S, fds, scan, {}) IN
               IF n[1] # 0
               THEN /\ S' = n[2] /\ fds' = n[3] /\ scan' = n[4] /\ minq' = g[3] /\ UNCHANGED immq
                    /\ Dispatch(n[1], ~ImmPending /\ (polled[n[1]] \/ SockOf(n[1]) \in errhup), "loop")
                    /\ Tag(n[5]) /\ hist' = hist
               ELSE /\ S' = n[2] /\ fds' = n[3] /\ scan' = n[4] /\ minq' = g[3] /\ pc' = "repoll"
                    /\ Tag(n[5]) /\ hist' = hist
                    /\ UNCHANGED <<immq, status, cur, cbleft, ret, ran, ok>>
  /\ UNCHANGED <<timers, orig, clock, kready, budget, nextid, rc, intrq, first, polled, errhup, runnable0>>

\* zero-timeout re-poll, then a network event, else a timer, else leave the loop
Repoll ==
  /\ pc = "repoll"
  /\ \E kr \in (IF GEN /\ ATPOLL /\ lastCb = 0 THEN {kready} ELSE KChoices) :
       LET ff == PollEffect(kr, fds)
           n == Get(S, ff, Len(ff) - 1, {})
           hist1 == IF GEN /\ kr # kready THEN Append(hist, [op |-> "envall", ctx |-> lastCb, fd |-> 0, dir |-> "", id |-> 0, kr |-> kr]) ELSE hist
       IN /\ kready' = (IF GEN THEN kr ELSE kready) /\ GhostPoll(ff)
          /\ IF n[1] # 0
             THEN /\ S' = n[2] /\ fds' = n[3] /\ scan' = n[4]
                  /\ Dispatch(n[1], ~ImmPending /\ (polled'[n[1]] \/ SockOf(n[1]) \in errhup'), "loop")
                  /\ Tag(n[5] \cup {"found_by_repoll"}) /\ hist' = hist1 /\ UNCHANGED timers
             ELSE LET exp == {t \in timers : t.dl <= clock} IN
                  IF exp # {}
                  THEN \E t \in exp :
                         /\ \A u \in timers : t.dl <= u.dl                       \* timerqueue: a least entry (ties free)
                         /\ timers' = timers \ {t}
                         /\ S' = n[2] /\ fds' = n[3] /\ scan' = n[4]
                         /\ ok' = (ok /\ status[t.id] = "pending" /\ ~ImmPending
                                      /\ ~(\E f \in FDS : (S[f].r # 0 /\ kr[f] \cap {"IN", "HUP"} # {}) \/ (S[f].w # 0 /\ kr[f] \cap {"OUT", "HUP"} # {})))
                         /\ status' = [status EXCEPT ![t.id] = "fired"]
                         /\ cur' = t.id /\ cbleft' = CBBUDGET /\ pc' = "cb" /\ ret' = "loop" /\ ran' = ran + 1
                         /\ Tag(n[5] \cup {"timer_fired"}) /\ hist' = hist1
                  ELSE /\ S' = n[2] /\ fds' = n[3] /\ scan' = n[4] /\ pc' = "ret"
                       /\ Tag(n[5]) /\ hist' = hist1
                       /\ UNCHANGED <<timers, status, cur, cbleft, ret, ran, ok>>
  /\ clock' = clock
  /\ UNCHANGED <<immq, minq, orig, budget, nextid, rc, intrq, first, runnable0>>

\* callback returns with result r
CbReturn(r) ==
  /\ pc = "cb" /\ pc' = ret /\ rc' = r /\ cur' = 0 /\ cbleft' = 0
  /\ Log([op |-> "cbret", ctx |-> cur, fd |-> r, dir |-> "", id |-> cur])
  /\ Tag(IF r # 0 THEN {"nonzero_rc"} ELSE {})
  /\ UNCHANGED <<S, fds, scan, immq, minq, timers, orig, clock, kready, ret, budget, nextid, intrq, first,
                 status, polled, errhup, ok, ran, runnable0>>

\* events_run returns: C05 progress / status clauses as ghost checks
RunRet ==
  /\ pc = "ret" /\ pc' = "out"
  /\ ok' = (ok /\ (runnable0 => ran >= 1) /\ ((ran = 0 /\ ~intrq) => ~(ImmPending \/ ExpiredTimer)))
  /\ intrq' = FALSE /\ rc' = 0 /\ NoLog
  /\ UNCHANGED <<S, fds, scan, immq, minq, timers, orig, clock, kready, ret, cur, cbleft, budget, nextid, first,
                 status, polled, errhup, ran, runnable0>>

Next ==
  \/ \E f \in FDS, op \in {"R", "W"} : (RegSock(f, op) /\ UNCHANGED lastCP) \/ CancelSock(f, op)
  \/ /\ UNCHANGED lastCP
     /\ \/ \E p \in PRIOS : RegImm(p)
        \/ \E t \in TIMEOUTS : RegTimer(t)
        \/ \E i \in Ids : CancelImm(i) \/ CancelTimer(i) \/ ResetTimer(i)
        \/ Interrupt \/ Tick
        \/ \E f \in FDS, fl \in {{}, {"IN"}, {"OUT"}, {"IN", "OUT"}, {"HUP"}, {"IN", "HUP"}} : EnvSet(f, fl)
        \/ RunCall \/ Top \/ ImmLoop \/ Select1 \/ Loop \/ Repoll \/ RunRet
  \/ \E r \in RCS : CbReturn(r) /\ lastCP' = <<>>
NextG == Next /\ lastCb' = (IF pc' = "cb" /\ pc # "cb" THEN cur' ELSE IF pc \in {"select1", "repoll"} THEN 0 ELSE lastCb)
Spec == Init /\ [][NextG]_vars

\* ---------------------------------------------------------------------------
\* the comment block of events_network.c
Inv1  == /\ \A f \in FDS : S[f].pp # -1 => S[f].pp < NF /\ fds[S[f].pp + 1].fd = f
         /\ \A j \in 1..NF : S[fds[j].fd].pp = j - 1
Inv23 == \A f \in FDS : (S[f].r # 0 \/ S[f].w # 0) <=> S[f].pp # -1
Inv4  == \A f \in FDS : S[f].pp # -1 =>
           /\ (S[f].r # 0 <=> "IN"  \in fds[S[f].pp + 1].ev)
           /\ (S[f].w # 0 <=> "OUT" \in fds[S[f].pp + 1].ev)
Inv5  == \A j \in 1..NF : (fds[j].rev \cap {"IN", "OUT"}) \subseteq fds[j].ev
Inv6  == pc = "loop" => \A j \in 1..NF : (fds[j].rev \cap {"IN", "OUT"}) # {} => j - 1 <= scan
\* every abstract guard (C04: once / only while registered / reported by a poll; C05: order, progress) held at every dispatch
AbsOK == ok
TypeOK == /\ scan \in -1..MAXID /\ minq \in 0..32 /\ nextid \in 1..(MAXID + 1)
\* generation: print the behaviour when it ends outside the loop with the budget used up, or at the depth bound
Fin == pc = "out" /\ (budget = 0 \/ nextid > MAXID)
=============================================================================
