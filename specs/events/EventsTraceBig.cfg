SPECIFICATION Spec
CONSTANTS MAXID = 512
          MAXFD = 600
POSTCONDITION Accepted
CHECK_DEADLOCK FALSE
