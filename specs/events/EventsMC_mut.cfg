SPECIFICATION Spec
CONSTANTS FDS = {0, 1}
          MAXID = 4
          PRIOS = {0}
          TIMEOUTS = {}
          BUDGET = 5
          CBBUDGET = 2
          MAXCLOCK = 0
          RCS = {0}
          CLEARREV = FALSE
          ATPOLL = TRUE
          GEN = FALSE
INVARIANTS AbsOK
CHECK_DEADLOCK FALSE
