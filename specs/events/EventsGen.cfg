SPECIFICATION Spec
CONSTANTS FDS = {0, 1, 2}
          MAXID = 9
          PRIOS = {0, 1, 5}
          TIMEOUTS = {0, 1, 2}
          BUDGET = 14
          CBBUDGET = 3
          MAXCLOCK = 9
          RCS = {0, 1}
          CLEARREV = TRUE
          ATPOLL = FALSE
          GEN = TRUE
          TRAP = "none"
INVARIANTS Emit AbsOK Inv1 Inv23 Inv4 Inv5
CHECK_DEADLOCK FALSE
