SPECIFICATION Spec
CONSTANTS MAXID = 256
          MAXFD = 8
POSTCONDITION Accepted
CHECK_DEADLOCK FALSE
