----------------------------- MODULE NbReadGeom -----------------------------
(***************************************************************************)
(* The window arithmetic of netbuf/netbuf_read.c (NbReadImpl.tla without    *)
(* the buffer contents) over unbounded integers, for Apalache: the          *)
(* invariants Geometry, ReadFits, Accounting and Progress are inductive for *)
(* EVERY initial buffer size, wait length, segment size and consume length, *)
(* where NbReadImpl is model-checked by TLC for a buffer of 4.  The         *)
(* contents property (Window) stays with TLC.                               *)
(*   apalache-mc check --init=Init    --inv=IndInv --length=0               *)
(*   apalache-mc check --init=IndInit --inv=IndInv --length=1               *)
(***************************************************************************)
EXTENDS Integers
VARIABLES
  \* @type: Int;
  buflen,
  \* @type: Int;
  bufpos,
  \* @type: Int;
  datalen,
  \* @type: Bool;
  rdActive,
  \* @type: Int;
  rdOff,
  \* @type: Int;
  rdSpace,
  \* @type: Int;
  waitk,
  \* @type: Bool;
  imm,
  \* @type: Int;
  next,
  \* @type: Int;
  consumed,
  \* @type: Bool;
  eof
Avail == datalen - bufpos
Max(a, b) == IF a > b THEN a ELSE b
Init == /\ buflen \in Int /\ buflen >= 1 /\ bufpos = 0 /\ datalen = 0
        /\ rdActive = FALSE /\ rdOff = 0 /\ rdSpace = 0 /\ waitk = 0 /\ imm = FALSE /\ next = 1 /\ consumed = 0 /\ eof = FALSE
NoRd == rdActive' = FALSE /\ rdOff' = 0 /\ rdSpace' = 0
Arm(bl, dl) == rdActive' = TRUE /\ rdOff' = dl /\ rdSpace' = bl - dl
\* netbuf_read_wait(R, k): grow to max(2 * buflen, k) when buflen < k, compact when the tail is shorter than k
Wait(k) ==
  /\ k >= 1 /\ waitk = 0 /\ ~rdActive /\ ~imm /\ ~eof
  /\ waitk' = k
  /\ IF Avail >= k
     THEN imm' = TRUE /\ UNCHANGED <<buflen, bufpos, datalen, rdActive, rdOff, rdSpace>>
     ELSE LET bl1   == IF buflen < k THEN Max(2 * buflen, k) ELSE buflen
              pos1  == IF buflen < k THEN 0 ELSE bufpos
              dl1   == IF buflen < k THEN Avail ELSE datalen
              moved == bl1 - pos1 < k
              pos2  == IF moved THEN 0 ELSE pos1
              dl2   == IF moved THEN dl1 - pos1 ELSE dl1
          IN /\ buflen' = bl1 /\ bufpos' = pos2 /\ datalen' = dl2 /\ Arm(bl1, dl2) /\ imm' = FALSE
  /\ UNCHANGED <<next, consumed, eof>>
Recv(n) ==
  /\ rdActive /\ n >= 1 /\ n <= rdSpace
  /\ next' = next + n /\ datalen' = datalen + n
  /\ IF datalen + n - bufpos >= waitk
     THEN NoRd /\ waitk' = 0
     ELSE Arm(buflen, datalen + n) /\ UNCHANGED waitk
  /\ UNCHANGED <<buflen, bufpos, imm, consumed, eof>>
Eof == /\ rdActive /\ NoRd /\ waitk' = 0 /\ eof' = TRUE
       /\ UNCHANGED <<buflen, bufpos, datalen, imm, next, consumed>>
ImmCb == /\ imm /\ imm' = FALSE /\ waitk' = 0
         /\ UNCHANGED <<buflen, bufpos, datalen, rdActive, rdOff, rdSpace, next, consumed, eof>>
Consume(j) == /\ waitk = 0 /\ j >= 1 /\ j <= Avail /\ bufpos' = bufpos + j /\ consumed' = consumed + j
              /\ UNCHANGED <<buflen, datalen, rdActive, rdOff, rdSpace, waitk, imm, next, eof>>
Cancel == /\ waitk # 0 /\ waitk' = 0 /\ NoRd /\ imm' = FALSE
          /\ UNCHANGED <<buflen, bufpos, datalen, next, consumed, eof>>
Next == \/ \E k \in Int : Wait(k)
        \/ \E n \in Int : Recv(n)
        \/ \E j \in Int : Consume(j)
        \/ Eof \/ ImmCb \/ Cancel
Geometry == 0 <= bufpos /\ bufpos <= datalen /\ datalen <= buflen /\ buflen >= 1
ReadFits == rdActive => (rdSpace >= 1 /\ rdOff = datalen /\ rdOff + rdSpace = buflen)
Accounting == next - 1 = consumed + Avail
Progress == (rdActive /\ waitk # 0) => buflen - bufpos >= waitk
\* a read in flight belongs to a wait that is not yet satisfied; an immediate callback to one that is
Pending == /\ rdActive => (waitk >= 1 /\ Avail < waitk /\ ~imm)
           /\ imm => (waitk >= 1 /\ Avail >= waitk /\ ~rdActive)
           /\ waitk >= 0 /\ consumed >= 0 /\ next >= 1
IndInv == Geometry /\ ReadFits /\ Accounting /\ Progress /\ Pending
IndInit == /\ buflen \in Int /\ bufpos \in Int /\ datalen \in Int /\ rdActive \in BOOLEAN /\ rdOff \in Int /\ rdSpace \in Int
           /\ waitk \in Int /\ imm \in BOOLEAN /\ next \in Int /\ consumed \in Int /\ eof \in BOOLEAN
           /\ IndInv
=============================================================================
