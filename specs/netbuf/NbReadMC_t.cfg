SPECIFICATION Spec
CONSTANTS INITBUF = 4
          STREAM = 14
          MAXK = 12
          GEN = FALSE
          DEPTH = 0
INVARIANTS Geometry ReadFits Window Accounting Progress
CHECK_DEADLOCK FALSE
