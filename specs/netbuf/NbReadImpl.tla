----------------------------- MODULE NbReadImpl -----------------------------
(***************************************************************************)
(* netbuf/netbuf_read.c, implementation level: the buffer window            *)
(* (buflen, bufpos, datalen) with the real arithmetic -- growth to          *)
(* max(2*buflen, k), compaction when buflen - bufpos < k, one network read  *)
(* at a time asking for at least one byte into buf[datalen..buflen), every  *)
(* completed read credited to datalen at once, re-armed until the wait is   *)
(* satisfied -- over a parametric initial size (INITBUF = 4 here, 4096 in   *)
(* the code).  Stream bytes are identified by their index, so loss,         *)
(* duplication and reordering are directly visible.                         *)
(***************************************************************************)
EXTENDS Naturals, Integers, Sequences, TLC, Json
CONSTANTS INITBUF, STREAM, MAXK, GEN, DEPTH
VARIABLES buf, bufpos, datalen, rd, waitk, imm, next, consumed, eof, hist
vars == <<buf, bufpos, datalen, rd, waitk, imm, next, consumed, eof, hist>>
buflen == Len(buf)
Avail == datalen - bufpos
NoRd == [off |-> 0, space |-> 0, active |-> FALSE]
Max(a, b) == IF a > b THEN a ELSE b
Log(r) == hist' = (IF GEN THEN Append(hist, r) ELSE hist)
Init == /\ buf = [i \in 1..INITBUF |-> 0] /\ bufpos = 0 /\ datalen = 0 /\ rd = NoRd /\ waitk = 0 /\ imm = FALSE
        /\ next = 1 /\ consumed = 0 /\ eof = FALSE /\ hist = <<>>
\* launch a read of at least one byte (netbuf_read_more)
Arm(b, dl) == [off |-> dl, space |-> Len(b) - dl, active |-> TRUE]
\* netbuf_read_wait(R, k)
Wait(k) ==
  /\ waitk = 0 /\ ~rd.active /\ ~imm /\ ~eof
  /\ waitk' = k
  /\ IF Avail >= k
     THEN imm' = TRUE /\ UNCHANGED <<buf, bufpos, datalen, rd>>
     ELSE LET grown == IF buflen < k
                       THEN [i \in 1..Max(2 * buflen, k) |-> IF i <= Avail THEN buf[bufpos + i] ELSE 0]
                       ELSE buf
              pos1  == IF buflen < k THEN 0 ELSE bufpos
              dl1   == IF buflen < k THEN Avail ELSE datalen
              moved == Len(grown) - pos1 < k
              b2    == IF moved THEN [i \in 1..Len(grown) |-> IF i <= dl1 - pos1 THEN grown[pos1 + i] ELSE 0] ELSE grown
              pos2  == IF moved THEN 0 ELSE pos1
              dl2   == IF moved THEN dl1 - pos1 ELSE dl1
          IN /\ buf' = b2 /\ bufpos' = pos2 /\ datalen' = dl2 /\ rd' = Arm(b2, dl2) /\ imm' = FALSE
  /\ Log(<<"wait", k>>)
  /\ UNCHANGED <<next, consumed, eof>>
\* the kernel delivers n bytes to the read in flight; callback_read credits them and re-arms or completes
Recv(n) ==
  /\ rd.active /\ n >= 1 /\ n <= rd.space /\ next + n - 1 <= STREAM
  /\ buf' = [i \in 1..buflen |-> IF i > rd.off /\ i <= rd.off + n THEN next + (i - rd.off - 1) ELSE buf[i]]
  /\ next' = next + n /\ datalen' = datalen + n
  /\ IF datalen + n - bufpos >= waitk
     THEN rd' = NoRd /\ waitk' = 0                                        \* wait callback, status 0
     ELSE rd' = Arm(buf', datalen + n) /\ UNCHANGED waitk
  /\ Log(<<"recv", n>>)
  /\ UNCHANGED <<bufpos, imm, consumed, eof>>
\* the peer closed: status 1
Eof == /\ rd.active /\ rd' = NoRd /\ waitk' = 0 /\ eof' = TRUE /\ Log(<<"eof", 0>>)
       /\ UNCHANGED <<buf, bufpos, datalen, imm, next, consumed>>
\* immediate callback for a wait satisfied from the buffer
ImmCb == /\ imm /\ imm' = FALSE /\ waitk' = 0 /\ Log(<<"run", 0>>)
         /\ UNCHANGED <<buf, bufpos, datalen, rd, next, consumed, eof>>
Consume(j) == /\ waitk = 0 /\ j >= 1 /\ j <= Avail /\ bufpos' = bufpos + j /\ consumed' = consumed + j
              /\ buf' = [i \in 1..buflen |-> IF i <= bufpos + j THEN 0 ELSE buf[i]]      \* (dead cells normalised: fewer model states)
              /\ Log(<<"consume", j>>)
              /\ UNCHANGED <<datalen, rd, waitk, imm, next, eof>>
\* netbuf_read_wait_cancel: nothing that was taken from the socket is forgotten
Cancel == /\ waitk # 0 /\ waitk' = 0 /\ rd' = NoRd /\ imm' = FALSE /\ Log(<<"cancel", 0>>)
          /\ UNCHANGED <<buf, bufpos, datalen, next, consumed, eof>>
Next == \/ \E k \in 1..MAXK : Wait(k)
        \/ \E n \in 1..MAXK : Recv(n)
        \/ \E j \in 1..MAXK : Consume(j)
        \/ Eof \/ ImmCb \/ Cancel
Spec == Init /\ [][Next]_vars
\* ---- C07 (reader), design level ----
Geometry == 0 <= bufpos /\ bufpos <= datalen /\ datalen <= buflen
ReadFits == rd.active => (rd.space >= 1 /\ rd.off = datalen /\ rd.off + rd.space = buflen)
\* the window holds exactly the stream bytes consumed+1 .. consumed+Avail, in order
Window == \A i \in 1..Avail : buf[bufpos + i] = consumed + i
\* nothing is lost: every byte taken from the kernel is consumed or visible
Accounting == next - 1 = consumed + Avail
\* a wait in progress always has room to make progress towards k
Progress == (rd.active /\ waitk # 0) => buflen - bufpos >= waitk
Emit == (GEN /\ Len(hist) = DEPTH) => PrintT(<<"CASE", ToJson(hist)>>)
Bound == ~GEN \/ Len(hist) <= DEPTH
=============================================================================
