SPECIFICATION Spec
CONSTANTS WBUFLEN = 4
          MAXW = 6
          TOTAL = 11
          GEN = FALSE
          DEPTH = 0
INVARIANTS Prefix FailOnce Conservation Launched Coalesce
CHECK_DEADLOCK FALSE
