SPECIFICATION Spec
CONSTANTS INITBUF = 4
          STREAM = 60
          MAXK = 20
          GEN = TRUE
          DEPTH = 16
INVARIANTS Geometry ReadFits Window Accounting Emit
CONSTRAINT Bound
CHECK_DEADLOCK FALSE
