----------------------------- MODULE NbWriteImpl -----------------------------
(***************************************************************************)
(* netbuf/netbuf_write.c, implementation level: the queue of write buffers  *)
(* [buflen, data], the buffer being written (curr), coalescing of small     *)
(* writes into WBUFLEN-byte buffers (WBUFLEN = 4 here, 4096 in the code),   *)
(* one network write at a time for the whole head buffer, the sticky        *)
(* failure flag.  Written bytes are identified by their index.              *)
(***************************************************************************)
EXTENDS Naturals, Integers, Sequences, TLC, Json
CONSTANTS WBUFLEN, MAXW, TOTAL, GEN, DEPTH
VARIABLES queue, curr, sent, written, handed, failed, failcbs, hist
vars == <<queue, curr, sent, written, handed, failed, failcbs, hist>>
Log(r) == hist' = (IF GEN THEN Append(hist, r) ELSE hist)
Init == queue = <<>> /\ curr = <<>> /\ sent = 0 /\ written = 0 /\ handed = <<>> /\ failed = FALSE /\ failcbs = 0 /\ hist = <<>>
\* poke(): discard empty buffers at the head, then launch the head buffer if nothing is in flight
RECURSIVE DropEmpty(_)
DropEmpty(q) == IF q # <<>> /\ Head(q).data = <<>> THEN DropEmpty(Tail(q)) ELSE q
Poke(q, c) == IF c # <<>> \/ failed THEN <<q, c>>
              ELSE LET q1 == DropEmpty(q) IN IF q1 = <<>> THEN <<q1, c>> ELSE <<Tail(q1), Head(q1).data>>
\* netbuf_write_write(len) = reserve + copy + consume
Write(len) ==
  /\ written + len <= TOTAL
  /\ Log(<<"write", len>>)
  /\ IF failed THEN UNCHANGED <<queue, curr, written, sent>>                       \* discarded silently
     ELSE LET data == [i \in 1..len |-> written + i]
              last == IF queue = <<>> THEN [buflen |-> 0, data |-> <<>>] ELSE queue[Len(queue)]
              fits == queue # <<>> /\ last.buflen - Len(last.data) >= len
              q1 == IF fits THEN [queue EXCEPT ![Len(queue)].data = @ \o data]
                    ELSE Append(queue, [buflen |-> IF len > WBUFLEN THEN len ELSE WBUFLEN, data |-> data])
              p == Poke(q1, curr)
          IN queue' = p[1] /\ curr' = p[2] /\ written' = written + len /\ sent' = (IF curr = <<>> /\ p[2] # <<>> THEN 0 ELSE sent)
  /\ UNCHANGED <<handed, failed, failcbs>>
\* the kernel accepts n more bytes of the buffer in flight; when it is complete the next one is launched
Accept(n) ==
  /\ curr # <<>> /\ n >= 1 /\ sent + n <= Len(curr)
  /\ handed' = handed \o SubSeq(curr, sent + 1, sent + n)
  /\ Log(<<"accept", n>>)
  /\ IF sent + n = Len(curr)
     THEN LET p == Poke(queue, <<>>) IN queue' = p[1] /\ curr' = p[2] /\ sent' = 0
     ELSE UNCHANGED <<queue, curr>> /\ sent' = sent + n
  /\ UNCHANGED <<written, failed, failcbs>>
\* the transport fails: failure callback once, nothing further is sent
Fail == /\ curr # <<>> /\ ~failed /\ failed' = TRUE /\ failcbs' = failcbs + 1 /\ curr' = <<>> /\ sent' = 0
        /\ Log(<<"fail", 0>>) /\ UNCHANGED <<queue, written, handed>>
Next == (\E len \in 0..MAXW : Write(len)) \/ (\E n \in 1..MAXW : Accept(n)) \/ Fail
Spec == Init /\ [][Next]_vars
\* ---- C07 (writer), design level ----
Prefix == handed = [i \in 1..Len(handed) |-> i] /\ Len(handed) <= written        \* a prefix of the concatenation of all writes
FailOnce == failcbs <= 1 /\ (failed <=> failcbs = 1)
RECURSIVE Flat(_)
Flat(q) == IF q = <<>> THEN <<>> ELSE Head(q).data \o Flat(Tail(q))
\* nothing is lost while the transport works: handed + in flight + queued = everything written
Conservation == ~failed => handed \o SubSeq(curr, sent + 1, Len(curr)) \o Flat(queue) = [i \in 1..written |-> i]
Launched == (~failed /\ curr = <<>>) => Flat(queue) = <<>>                        \* never idle with data queued
Coalesce == \A k \in 1..Len(queue) : Len(queue[k].data) <= queue[k].buflen
Emit == (GEN /\ Len(hist) = DEPTH) => PrintT(<<"CASE", ToJson(hist)>>)
Bound == ~GEN \/ Len(hist) <= DEPTH
=============================================================================
