SPECIFICATION Spec
CONSTANTS INITBUF = 4
          STREAM = 10
          MAXK = 9
          GEN = FALSE
          DEPTH = 0
INVARIANTS Geometry ReadFits Window Accounting Progress
CHECK_DEADLOCK FALSE
