SPECIFICATION Spec
CONSTANTS WBUFLEN = 4
          MAXW = 13
          TOTAL = 80
          GEN = TRUE
          DEPTH = 14
INVARIANTS Prefix FailOnce Conservation Launched Emit
CONSTRAINT Bound
CHECK_DEADLOCK FALSE
