------------------------------- MODULE NbTrace -------------------------------
(***************************************************************************)
(* Property C07 as a trace specification over executions of the real        *)
(* netbuf_read.c / netbuf_write.c (on the real network layer and event      *)
(* loop, scripted sockets).  Reader on descriptor 0, writer on descriptor 1. *)
(* Abstract state: bytes arrived from the peer, bytes consumed, the pending *)
(* wait; bytes written, bytes handed to the socket, the failure flag.       *)
(***************************************************************************)
EXTENDS TraceBase, Integers, VPrims
VARIABLES arrived, consumed, waiting, eof, rerr, reported,   \* reader (reported: end-of-stream or an error has been reported)
          written, handed, failed, failcbs, reserved, werr,    \* writer (werr: a write-side call reported an allocation failure)
          rxq, txq, incb, ralive, walive
vars == <<l, arrived, consumed, waiting, eof, rerr, reported, written, handed, failed, failcbs, reserved, werr, rxq, txq, incb, ralive, walive>>
NoWait == [id |-> 0, k |-> 0]
RxByte(o) == (o * 7 + 1) % 251              \* reader stream, descriptor 0
TxByte(o) == (o * 11 + 3) % 251             \* writer stream
Init0 == /\ arrived = 0 /\ consumed = 0 /\ waiting = NoWait /\ eof = FALSE /\ rerr = FALSE /\ reported = FALSE
         /\ written = 0 /\ handed = 0 /\ failed = FALSE /\ failcbs = 0 /\ reserved = -1 /\ werr = FALSE
         /\ rxq = <<>> /\ txq = <<>> /\ incb = 0 /\ ralive = FALSE /\ walive = FALSE
Init == l = 1 /\ Init0
TReset == /\ IsEvent("reset") /\ arrived' = 0 /\ consumed' = 0 /\ waiting' = NoWait /\ eof' = FALSE /\ rerr' = FALSE /\ reported' = FALSE
          /\ written' = 0 /\ handed' = 0 /\ failed' = FALSE /\ failcbs' = 0 /\ reserved' = -1 /\ werr' = FALSE
          /\ rxq' = <<>> /\ txq' = <<>> /\ incb' = 0 /\ ralive' = FALSE /\ walive' = FALSE
RVars == <<arrived, consumed, waiting, eof, rerr, reported, ralive>>
WVars == <<written, handed, failed, failcbs, reserved, werr, walive>>
Keep(v) == UNCHANGED v

Consume(q, ans, ret) ==
  IF ans = "NOTREADY" \/ q = <<>> THEN q
  ELSE IF ans = "DATA" THEN (IF Head(q).n - ret <= 0 THEN Tail(q) ELSE <<[Head(q) EXCEPT !.n = @ - ret]>> \o Tail(q))
  ELSE IF ans \in {"EAGAIN", "EINTR"} THEN Tail(q) ELSE q
TRx == IsEvent("rx") /\ rxq' = Append(rxq, [kind |-> Ev.kind, n |-> Ev.n]) /\ Keep(<<txq, incb>>) /\ Keep(RVars) /\ Keep(WVars)
TTx == IsEvent("tx") /\ txq' = Append(txq, [kind |-> Ev.kind, n |-> Ev.n]) /\ Keep(<<rxq, incb>>) /\ Keep(RVars) /\ Keep(WVars)
Pass(e) == IsEvent(e) /\ Keep(<<rxq, txq, incb>>) /\ Keep(RVars) /\ Keep(WVars)
\* the loop returns non-zero only when it reports a refused allocation of its own or of a callback re-arming a request
\* (C14); what was buffered or awaited at that moment is then no longer owed (werr)
TRunRet == /\ IsEvent("run_ret") /\ (Ev.rc # 0 => Ev.inj > 0)
           /\ werr' = (werr \/ Ev.rc # 0)
           /\ Keep(<<written, handed, failed, failcbs, reserved, walive, rxq, txq, incb>>) /\ Keep(RVars)
TPass == Pass("poll") \/ Pass("tick") \/ Pass("run_call") \/ TRunRet \/ Pass("env") \/ Pass("quiescent")

\* ------------------------------- reader -------------------------------
TRInit == /\ IsEvent("rinit") /\ ~ralive /\ (Ev.ok \/ Ev.inj > 0) /\ ralive' = Ev.ok
          /\ Keep(<<arrived, consumed, waiting, eof, rerr, reported, rxq, txq, incb>>) /\ Keep(WVars)
\* bytes taken from the kernel for the reader
TRecv == /\ IsEvent("recv") /\ Ev.fd = 0 /\ ralive /\ waiting.id # 0            \* only while a wait is pending
         /\ Ev.spos = arrived
         /\ arrived' = arrived + (IF Ev.ret > 0 THEN Ev.ret ELSE 0)
         /\ eof' = (eof \/ Ev.ans = "EOF") /\ rerr' = (rerr \/ Ev.ans = "ERR")
         /\ rxq' = Consume(rxq, Ev.ans, Ev.ret)
         /\ Keep(<<consumed, waiting, reported, ralive, txq, incb>>) /\ Keep(WVars)
TWait == /\ IsEvent("wait") /\ ralive /\ waiting.id = 0 /\ Ev.ctx = incb
         /\ IF Ev.rc = 0 THEN waiting' = [id |-> Ev.id, k |-> Ev.k] ELSE Ev.rc = -1 /\ Ev.inj > 0 /\ Keep(waiting)
         /\ Keep(<<arrived, consumed, eof, rerr, reported, ralive, rxq, txq, incb>>) /\ Keep(WVars)
\* what the application can see: starts at the first unconsumed byte, holds exactly the peer's bytes in order
WindowOK == /\ Ev.match /\ Ev.peeklen <= arrived - consumed
            /\ Has("data") => BytesOf(Ev.data) = [i \in 1..Ev.peeklen |-> RxByte(consumed + i - 1)]
TWaitCb ==
  /\ IsEvent("wait_cb") /\ incb = 0 /\ waiting.id # 0 /\ Ev.id = waiting.id      \* none after cancel, one per wait, through the loop
  /\ WindowOK
  /\ CASE Ev.status = 0 -> Ev.peeklen >= waiting.k                               \* success: k unconsumed bytes have arrived and are visible
       [] Ev.status = 1 -> eof /\ (reported \/ arrived - consumed < waiting.k)   \* end-of-stream: the peer closed first
                                                                                 \* (no promise once end-of-stream / error was reported)
       [] Ev.status = -1 -> rerr \/ Ev.inj > 0                                   \* error: the transport failed
       [] OTHER -> FALSE
  /\ waiting' = NoWait /\ incb' = Ev.id /\ reported' = (reported \/ Ev.status # 0)
  /\ Keep(<<arrived, consumed, eof, rerr, ralive, rxq, txq>>) /\ Keep(WVars)
TCbRet == IsEvent("cb_ret") /\ incb = Ev.id /\ incb' = 0 /\ Keep(<<rxq, txq>>) /\ Keep(RVars) /\ Keep(WVars)
TPeek == IsEvent("peek") /\ ralive /\ WindowOK /\ Keep(<<rxq, txq, incb>>) /\ Keep(RVars) /\ Keep(WVars)
TConsume == /\ IsEvent("consume") /\ ralive /\ Ev.j <= arrived - consumed /\ consumed' = consumed + Ev.j
            /\ Keep(<<arrived, waiting, eof, rerr, reported, ralive, rxq, txq, incb>>) /\ Keep(WVars)
TWaitCancel == /\ IsEvent("wait_cancel") /\ ralive /\ waiting' = NoWait
               /\ Keep(<<arrived, consumed, eof, rerr, reported, ralive, rxq, txq, incb>>) /\ Keep(WVars)

\* ------------------------------- writer -------------------------------
TWInit == /\ IsEvent("winit") /\ ~walive /\ (Ev.ok \/ Ev.inj > 0) /\ walive' = Ev.ok
          /\ Keep(<<written, handed, failed, failcbs, reserved, werr, rxq, txq, incb>>) /\ Keep(RVars)
\* after the first transport failure later writes are discarded silently
TWrite == /\ IsEvent("nb_write") /\ walive /\ reserved = -1
          /\ IF Ev.rc = 0 THEN written' = (IF failed THEN written ELSE Ev.woff + Ev.len) /\ (~failed => Ev.woff = written)
             ELSE Ev.rc = -1 /\ Ev.inj > 0 /\ Keep(written)
          /\ werr' = (werr \/ Ev.rc # 0)
          /\ Keep(<<handed, failed, failcbs, reserved, walive, rxq, txq, incb>>) /\ Keep(RVars)
TReserve == /\ IsEvent("nb_reserve") /\ walive /\ reserved = -1
            /\ IF Ev.ok THEN reserved' = Ev.len ELSE Ev.inj > 0 /\ Keep(reserved)
            /\ werr' = (werr \/ ~Ev.ok)
            /\ Keep(<<written, handed, failed, failcbs, walive, rxq, txq, incb>>) /\ Keep(RVars)
TWConsume == /\ IsEvent("nb_consume") /\ walive /\ reserved >= Ev.len /\ reserved' = -1
             /\ (Ev.rc = 0 \/ Ev.inj > 0)
             /\ written' = (IF failed THEN written ELSE Ev.woff + Ev.len) /\ (~failed => Ev.woff = written)
             /\ werr' = (werr \/ Ev.rc # 0)
             /\ Keep(<<handed, failed, failcbs, walive, rxq, txq, incb>>) /\ Keep(RVars)
\* the peer receives a prefix of the concatenation of all writes, in call order; nothing after a failure
TSend == /\ IsEvent("send") /\ Ev.fd = 1 /\ walive /\ ~failed
         /\ Ev.spos = handed /\ Ev.len >= 1 /\ handed + Ev.len <= written              \* only bytes that were written, in order
         /\ Ev.dataok
         /\ (Has("data") => BytesOf(Ev.data) = [i \in 1..Ev.ret |-> TxByte(handed + i - 1)])
         /\ handed' = handed + (IF Ev.ret > 0 THEN Ev.ret ELSE 0)
         /\ failed' = (Ev.ans = "ERR")
         /\ txq' = Consume(txq, Ev.ans, Ev.ret)
         /\ Keep(<<written, failcbs, reserved, werr, walive, rxq, incb>>) /\ Keep(RVars)
\* the failure callback fires once, after the first transport failure (or a refused allocation, C14)
TFailCb == /\ IsEvent("fail_cb") /\ walive /\ failcbs = 0 /\ (failed \/ Ev.inj > 0)
           /\ failcbs' = 1 /\ failed' = TRUE
           /\ Keep(<<written, handed, reserved, werr, walive, rxq, txq, incb>>) /\ Keep(RVars)

\* end of the execution (the kernel had nothing more to offer, or the program ended)
TEnd == /\ IsEvent("end") /\ incb = 0
        \* a wait still pending is legitimate only if the peer never sent enough and neither closed nor failed
        /\ (Ev.pending_wait # 0) => (waiting.id = Ev.pending_wait /\ (werr \/ (arrived - consumed < waiting.k /\ rxq = <<>>)))
        /\ (waiting.id # 0) => Ev.pending_wait = waiting.id
        \* the whole of it when the transport never fails (and the kernel kept accepting)
        /\ (walive /\ ~failed /\ ~werr /\ reserved = -1 /\ txq # <<>> /\ Head(txq).kind = "DATA") => handed = written
        /\ (failed => failcbs = 1)
        /\ Keep(<<rxq, txq, incb>>) /\ Keep(RVars) /\ Keep(WVars)
TExit == IsEvent("exit") /\ Ev.live = 0 /\ Keep(<<rxq, txq, incb>>) /\ Keep(RVars) /\ Keep(WVars)

Next == \/ TReset \/ TRx \/ TTx \/ TPass \/ TRInit \/ TRecv \/ TWait \/ TWaitCb \/ TCbRet \/ TPeek \/ TConsume \/ TWaitCancel
        \/ TWInit \/ TWrite \/ TReserve \/ TWConsume \/ TSend \/ TFailCb \/ TEnd \/ TExit
Spec == Init /\ [][Next]_vars
=============================================================================
