------------------------------- MODULE HttpAbs -------------------------------
(***************************************************************************)
(* Life cycle of one HTTP request (http/http.c) against every transport     *)
(* outcome: connecting -> header -> (chunk-size <-> chunk-data | body |     *)
(* to-eof) -> finished, with the environment deciding what arrives next.    *)
(* Design-level statement of C08's "exactly one invocation of the caller's  *)
(* callback (none if cancelled)" and of the body-size clauses.              *)
(***************************************************************************)
EXTENDS Naturals, Integers
CONSTANTS MAXBODY, LIMITS, MAXINTERIM
VARIABLES st, ncb, resp, bodylen, limit, readlen, interim, cancelled
vars == <<st, ncb, resp, bodylen, limit, readlen, interim, cancelled>>
Init == st = "connecting" /\ ncb = 0 /\ resp = "none" /\ bodylen = 0 /\ limit \in LIMITS /\ readlen = 0 /\ interim = 0 /\ cancelled = FALSE
Deliver(r, bl) == st' = "finished" /\ ncb' = ncb + 1 /\ resp' = r /\ bodylen' = bl /\ UNCHANGED <<limit, readlen, interim, cancelled>>
Fail == Deliver("null", 0)
TooBig == Deliver("toobig", -1)
Connected == st = "connecting" /\ st' = "header" /\ UNCHANGED <<ncb, resp, bodylen, limit, readlen, interim, cancelled>>
ConnectFailed == st = "connecting" /\ Fail
\* a complete header block arrived
Header1xx == st = "header" /\ interim < MAXINTERIM /\ interim' = interim + 1 /\ UNCHANGED <<st, ncb, resp, bodylen, limit, readlen, cancelled>>
HeaderBad == st = "header" /\ Fail                                               \* malformed status line / NUL / > 64 KiB
HeaderNoBody == st = "header" /\ Deliver("ok", 0)                                \* HEAD, 204, 304
HeaderChunked == st = "header" /\ st' = "chunksize" /\ UNCHANGED <<ncb, resp, bodylen, limit, readlen, interim, cancelled>>
HeaderCLen(n) == st = "header" /\ IF n > limit THEN TooBig
                                  ELSE IF n = 0 THEN Deliver("ok", 0)
                                  ELSE st' = "body" /\ readlen' = n /\ UNCHANGED <<ncb, resp, bodylen, limit, interim, cancelled>>
HeaderToEof == st = "header" /\ st' = "toeof" /\ UNCHANGED <<ncb, resp, bodylen, limit, readlen, interim, cancelled>>
\* chunked framing
ChunkLine(n) == st = "chunksize" /\ IF n = 0 THEN Deliver("ok", bodylen)
                                   ELSE IF n > limit - bodylen THEN TooBig
                                   ELSE st' = "chunkdata" /\ readlen' = n /\ UNCHANGED <<ncb, resp, bodylen, limit, interim, cancelled>>
ChunkLineBad == st = "chunksize" /\ Fail
\* k more bytes of the current block arrived
Data(k) == /\ st \in {"body", "chunkdata"} /\ k >= 1 /\ k <= readlen
           /\ bodylen' = bodylen + k /\ readlen' = readlen - k
           /\ IF readlen - k = 0
              THEN IF st = "body" THEN st' = "finished" /\ ncb' = ncb + 1 /\ resp' = "ok" ELSE st' = "chunksize" /\ UNCHANGED <<ncb, resp>>
              ELSE UNCHANGED <<st, ncb, resp>>
           /\ UNCHANGED <<limit, interim, cancelled>>
EofData(k) == /\ st = "toeof" /\ k >= 1 /\ bodylen + k <= MAXBODY
              /\ IF k > limit - bodylen THEN TooBig ELSE bodylen' = bodylen + k /\ UNCHANGED <<st, ncb, resp, limit, readlen, interim, cancelled>>
Eof == \/ st = "toeof" /\ Deliver("ok", bodylen)
       \/ st \in {"header", "chunksize", "chunkdata", "body"} /\ Fail           \* EOF where more was promised
Err == st \in {"header", "chunksize", "chunkdata", "body", "toeof"} /\ Fail
Cancel == st \notin {"finished", "cancelled"} /\ st' = "cancelled" /\ cancelled' = TRUE /\ UNCHANGED <<ncb, resp, bodylen, limit, readlen, interim>>
Next == \/ Connected \/ ConnectFailed \/ Header1xx \/ HeaderBad \/ HeaderNoBody \/ HeaderChunked \/ HeaderToEof
        \/ \E n \in 0..MAXBODY : HeaderCLen(n) \/ ChunkLine(n)
        \/ ChunkLineBad \/ Eof \/ Err \/ Cancel
        \/ \E k \in 1..MAXBODY : Data(k) \/ EofData(k)
Spec == Init /\ [][Next]_vars
\* C08
AtMostOnce == ncb <= 1 /\ (cancelled => ncb = 0) /\ (st = "finished" <=> ncb = 1)
BodyWithinLimit == resp = "ok" => bodylen >= 0 /\ bodylen <= limit
TooBigShape == resp = "toobig" => bodylen = -1
NeverOverLimit == st \in {"body", "chunkdata"} => bodylen + readlen <= limit     \* what addbody's assertion needs
=============================================================================
