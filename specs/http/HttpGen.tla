------------------------------- MODULE HttpGen -------------------------------
(***************************************************************************)
(* The space of well-formed HTTP/1.x responses of property C09, as a        *)
(* specification: a response is built field by field (one action per        *)
(* field); every finished structure is printed and concretised into bytes   *)
(* by tools/checks/c08.py.  Simulation samples the space; the classes       *)
(* (sizes relative to the limit, 1xx blocks shorter / longer than the final *)
(* header block, chunk sizes up to above the 1 MiB wait cap, optional       *)
(* whitespace forms, values containing ':') are the quantifier of C09.      *)
(***************************************************************************)
EXTENDS Naturals, Sequences, TLC, Json
VARIABLES step, r
vars == <<step, r>>
Methods == {"GET", "HEAD", "POST", "PUT"}
Statuses == {200, 201, 204, 206, 301, 304, 404, 500, 599}
Framings == {"clen", "chunked", "eof"}
BodySizes == {0, 1, 2, 3, 10, 255, 256, 257, 4095, 4096, 4097, 8192, 70000, 1048576, 1048577, 1200000}
Limits == {"zero", "below2", "below1", "exact", "above1", "above2", "double", "huge"}
ChunkPlans == {"one", "bytes", "halves", "small", "mixed", "bigfirst"}
Exts == {"none", "ext", "extval", "upper"}
Interims == {<<>>, <<"short">>, <<"long">>, <<"short", "long">>, <<"long", "short">>, <<"long", "long", "short">>}
HdrCounts == {0, 1, 2, 5, 40}
OWSForms == {"none", "sp", "tab", "both", "trail"}
ValueForms == {"plain", "empty", "colon", "long"}
Segs == {"all", "bytes", "two", "primes", "edge", "random"}
Init == step = 0 /\ r = [method |-> "GET"]
Pick(f, S) == \E v \in S : r' = [x \in DOMAIN r \cup {f} |-> IF x = f THEN v ELSE r[x]]
Next == /\ step < 12 /\ step' = step + 1
        /\ CASE step = 0 -> Pick("method", Methods)
             [] step = 1 -> Pick("status", Statuses)
             [] step = 2 -> Pick("framing", Framings)
             [] step = 3 -> Pick("bodysize", BodySizes)
             [] step = 4 -> Pick("limit", Limits)
             [] step = 5 -> Pick("chunks", ChunkPlans)
             [] step = 6 -> Pick("ext", Exts)
             [] step = 7 -> Pick("interim", Interims)
             [] step = 8 -> Pick("nhdr", HdrCounts)
             [] step = 9 -> Pick("ows", OWSForms)
             [] step = 10 -> Pick("vform", ValueForms)
             [] step = 11 -> Pick("seg", Segs)
Spec == Init /\ [][Next]_vars
Emit == step = 12 => PrintT(<<"CASE", ToJson(r)>>)
=============================================================================
