SPECIFICATION Spec
CONSTANTS MAXBODY = 6
          LIMITS = {0, 1, 3, 6}
          MAXINTERIM = 2
INVARIANTS AtMostOnce BodyWithinLimit TooBigShape NeverOverLimit
CHECK_DEADLOCK FALSE
