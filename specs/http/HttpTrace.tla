------------------------------ MODULE HttpTrace ------------------------------
(***************************************************************************)
(* Properties C08 and C09 as a trace specification over executions of the   *)
(* real HTTP client (http.c on netbuf / network / events, scripted sockets). *)
(*                                                                          *)
(* The first event of an execution is the generator's structured            *)
(* description of what the server will send (`plan`): for well-formed       *)
(* responses the interim responses, status, header list, framing and body;  *)
(* Decode(plan) -- TLA+ text -- is what the callback must deliver (C09).    *)
(* For hostile streams only the C08 clauses apply.  Strings are hex.        *)
(***************************************************************************)
EXTENDS TraceBase, Integers, VPrims
VARIABLES plan, rq, ncb, cancelled, started, fatal, done, sentok
vars == <<l, plan, rq, ncb, cancelled, started, fatal, done, sentok>>
NoPlan == [kind |-> "none"]
Init0 == plan = NoPlan /\ rq = NoPlan /\ ncb = 0 /\ cancelled = FALSE /\ started = FALSE /\ fatal = FALSE /\ done = FALSE /\ sentok = TRUE
Init == l = 1 /\ Init0
TReset == IsEvent("reset") /\ plan' = NoPlan /\ rq' = NoPlan /\ ncb' = 0 /\ cancelled' = FALSE /\ started' = FALSE /\ fatal' = FALSE
          /\ done' = FALSE /\ sentok' = TRUE
Keep(v) == UNCHANGED v
All == <<plan, rq, ncb, cancelled, started, fatal, done, sentok>>

\* ---------------------------------------------------------------------------
\* C09 oracle: what a well-formed response described by p must be decoded to, for request method m and limit max
HexHEAD == "48454144"
NoBody(p, m) == m = HexHEAD \/ p.status \in {204, 304}
Decode(p, m, max) ==
  LET blen == IF NoBody(p, m) THEN 0 ELSE p.bodylen IN
  [status  |-> p.status,
   headers |-> p.headers,                                    \* names and values, optional whitespace trimmed, in order
   toobig  |-> blen > max,
   bodylen |-> IF blen > max THEN -1 ELSE blen,
   bodysha |-> IF NoBody(p, m) THEN "e3b0c44298fc1c149afbf4c8996fb92427ae41e4649b934ca495991b7852b855" ELSE p.bodysha]
\* the request on the wire: method SP path SP HTTP/1.1 CRLF (name ": " value CRLF)* CRLF body     (hex)
RECURSIVE HdrHex(_, _)
HdrHex(hs, i) == IF i > Len(hs) THEN "" ELSE StrCat(StrCat(StrCat(hs[i][1], "3a20"), StrCat(hs[i][2], "0d0a")), HdrHex(hs, i + 1))
WireHex(r) == StrCat(StrCat(StrCat(r.method, "20"), StrCat(r.path, "20485454502f312e310d0a")),
                     StrCat(StrCat(HdrHex(r.headers, 1), "0d0a"), r.body))
IsPrefixStr(a, b) == StrLen(a) <= StrLen(b) /\ SubStr(b, 1, StrLen(a)) = a
MaxR == rq.maxrlen        \* decimal string; plans keep it below 2^31 so TLC can compare it numerically after conversion

\* ---------------------------------------------------------------------------
TPlan == IsEvent("plan") /\ plan = NoPlan /\ plan' = Ev.p /\ Keep(<<rq, ncb, cancelled, started, fatal, done, sentok>>)
TRequest == IsEvent("request") /\ rq = NoPlan /\ rq' = Ev /\ Keep(<<plan, ncb, cancelled, started, fatal, done, sentok>>)
\* http_request returns NULL only if an allocation was refused (C14)
TStart == /\ IsEvent("http_request") /\ ~started /\ (Ev.ok \/ Ev.inj > 0)
          /\ started' = Ev.ok /\ fatal' = ~Ev.ok /\ Keep(<<plan, rq, ncb, cancelled, done, sentok>>)
Pass(e) == IsEvent(e) /\ Keep(All)
TPass == Pass("socket") \/ Pass("connect_call") \/ Pass("getsockopt") \/ Pass("close") \/ Pass("poll") \/ Pass("tick")
         \/ Pass("run_call") \/ Pass("env") \/ Pass("quiescent") \/ Pass("recv")
\* the loop reports failure only after a refused allocation; the request is then gone without a callback (C14)
\* (or when the caller's own callback returned non-zero: that value comes back unchanged and is nobody's failure)
\* (over the TLS transport a non-zero callback result reaches the loop as -1: network_ssl.c's poke reports every failure that way)
CbStop == Has("cbrc") /\ Ev.cbrc # 0 /\ (Ev.rc = Ev.cbrc \/ (Has("tls") /\ Ev.rc = -1))
TRunRet == /\ IsEvent("run_ret") /\ (Ev.rc = 0 \/ Ev.inj > 0 \/ fatal \/ CbStop)
           /\ fatal' = (fatal \/ (Ev.rc # 0 /\ ~CbStop)) /\ Keep(<<plan, rq, ncb, cancelled, started, done, sentok>>)
\* bytes handed to the socket: always a prefix of the request as given (C09: sent verbatim)
TSend == /\ IsEvent("send") /\ Ev.nosignal /\ Keep(All)
TSent == /\ IsEvent("sent")
         /\ (Has("data") => IsPrefixStr(Ev.data, WireHex(rq)))
         \* a delivered, well-formed exchange has the whole request on the wire
         /\ (Has("data") /\ ncb = 1 /\ done /\ plan.kind = "wellformed" /\ ~cancelled /\ ~fatal) => Ev.data = WireHex(rq)
         /\ Keep(All)

\* the callback: at most one, none after cancel; C08 clauses for anything delivered; C09 for well-formed streams
TCb ==
  /\ IsEvent("http_cb") /\ started /\ ncb = 0 /\ ~cancelled
  /\ ncb' = 1
  /\ IF Ev.null
     THEN \* no response: never for a complete well-formed response (unless an allocation was refused)
          /\ (plan.kind = "wellformed" /\ plan.complete) => Ev.inj > 0 \/ fatal
          /\ done' = FALSE
     ELSE /\ Ev.status >= 100 /\ Ev.status <= 599                                           \* C08
          /\ IF Ev.toobig THEN Ev.bodylen = -1 /\ Ev.bodynull                                \* C08: oversized => (size_t)(-1), no buffer
             ELSE /\ Ev.bodylen >= 0 /\ DecCmp(ToString(Ev.bodylen), MaxR) <= 0            \* C08: never longer than the limit
                  /\ (Ev.bodylen > 0 => ~Ev.bodynull /\ Ev.bodyalloc)
          /\ (plan.kind = "wellformed") =>
               LET d == Decode(plan, rq.method, plan.maxrlen) IN
               /\ Ev.status = d.status                                                       \* C09: exactly that status
               /\ Ev.nheaders = Len(d.headers) /\ Ev.headers = d.headers                     \* exactly those headers, in order
               /\ Ev.toobig = d.toobig /\ Ev.bodylen = d.bodylen
               /\ (~d.toobig /\ d.bodylen > 0) => (Ev.bodysha = d.bodysha                    \* exactly that body
                                                   /\ (Has("body") /\ "body" \in DOMAIN plan => Ev.body = plan.body))
          /\ done' = TRUE
  /\ Keep(<<plan, rq, cancelled, started, fatal, sentok>>)
TCancel == /\ IsEvent("cancel") /\ started /\ ncb = 0 /\ cancelled' = TRUE /\ Keep(<<plan, rq, ncb, started, fatal, done, sentok>>)
\* end of the execution: exactly one callback (none if cancelled / never started / fatal allocation failure),
\* provided the server's stream ended or was complete
TEnd == /\ IsEvent("end") /\ Ev.ncb = ncb
        /\ (started /\ ~cancelled /\ ~fatal /\ plan.ends) => ncb = 1
        /\ Keep(All)
TExit == IsEvent("exit") /\ Ev.live = 0 /\ Keep(All)                                         \* C08: leaks nothing
Next == TReset \/ TPlan \/ TRequest \/ TStart \/ TPass \/ TRunRet \/ TSend \/ TSent \/ TCb \/ TCancel \/ TEnd \/ TExit
Spec == Init /\ [][Next]_vars
=============================================================================
