----------------------------- MODULE TraceBase -----------------------------
(***************************************************************************)
(* Shared by every trace specification: the ndjson trace recorded from the  *)
(* real code (file named by environment variable TRACE), the position `l`   *)
(* of the next event, and the acceptance condition.  Executions are         *)
(* concatenated with {"e":"reset"} lines.                                   *)
(***************************************************************************)
EXTENDS Naturals, Sequences, TLC, Json, IOUtils
VARIABLE l
Tr == ndJsonDeserialize(IOEnv.TRACE)
Ev == Tr[l]
IsEvent(e) == l <= Len(Tr) /\ Tr[l].e = e /\ l' = l + 1
Has(f) == f \in DOMAIN Tr[l]
\* every line of the trace was explained by an action of the specification
Accepted == TLCGet("stats").diameter - 1 = Len(Tr)
SeqToSet(s) == {s[i] : i \in 1..Len(s)}
=============================================================================
