------------------------------- MODULE BigNat -------------------------------
(* Natural numbers beyond TLC's 32-bit integers, in pure TLA+: little-endian sequences of base-10000 limbs. *)
EXTENDS Naturals, Integers, Sequences
BASE == 10000
RECURSIVE NormT(_)
NormT(s) == IF s # <<>> /\ s[Len(s)] = 0 THEN NormT(SubSeq(s, 1, Len(s) - 1)) ELSE s
Norm(a) == NormT(a)
RECURSIVE MulAddSmall(_, _, _)          \* a * m + c, with 0 <= m, c < BASE
MulAddSmall(a, m, c) == IF a = <<>> THEN (IF c = 0 THEN <<>> ELSE <<c>>)
                        ELSE LET t == a[1] * m + c IN <<t % BASE>> \o MulAddSmall(Tail(a), m, t \div BASE)
RECURSIVE CmpFrom(_, _, _)
CmpFrom(a, b, i) == IF i = 0 THEN 0 ELSE IF a[i] < b[i] THEN -1 ELSE IF a[i] > b[i] THEN 1 ELSE CmpFrom(a, b, i - 1)
Cmp(a, b) == IF Len(a) < Len(b) THEN -1 ELSE IF Len(a) > Len(b) THEN 1 ELSE CmpFrom(a, b, Len(a))
Leq(a, b) == Cmp(a, b) <= 0
\* digits: sequence of digit values (most significant first) in base b (2..36)
RECURSIVE FromDigits(_, _, _)
FromDigits(ds, b, acc) == IF ds = <<>> THEN Norm(acc) ELSE FromDigits(Tail(ds), b, MulAddSmall(acc, b, Head(ds)))
RECURSIVE Pow2T(_, _)
Pow2T(k, acc) == IF k = 0 THEN acc ELSE Pow2T(k - 1, MulAddSmall(acc, 2, 0))
Pow2(n) == Pow2T(n, <<1>>)
RECURSIVE Sub1(_)
Sub1(a) == IF a[1] > 0 THEN Norm(<<a[1] - 1>> \o Tail(a)) ELSE <<BASE - 1>> \o Sub1(Tail(a))
\* from a tuple of ASCII decimal digits
FromDecBytes(bs) == FromDigits([i \in 1..Len(bs) |-> bs[i] - 48], 10, <<>>)
=============================================================================
