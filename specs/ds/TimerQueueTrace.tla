-------------------------- MODULE TimerQueueTrace --------------------------
(***************************************************************************)
(* Trace validation of datastruct/timerqueue.c (C13, timer-queue part).     *)
(* State: the live entries and their times.  Identities are the *)
(* driver's entry numbers, recovered from the pointer the queue hands back. *)
(***************************************************************************)
EXTENDS TraceBase, Integers, FiniteSets
CONSTANT MAXEL
IDS == 1..MAXEL
VARIABLES live, tm
vars == <<l, live, tm>>
\* a time is <<seconds div 2^30, seconds mod 2^30, microseconds>> (TLC integers are 32-bit; seconds may be decades apart)
Leq(a, b) == a[1] < b[1] \/ (a[1] = b[1] /\ (a[2] < b[2] \/ (a[2] = b[2] /\ a[3] <= b[3])))
Init == l = 1 /\ live = {} /\ tm = [i \in IDS |-> <<0, 0, 0>>]
TReset == IsEvent("reset") /\ live' = {} /\ tm' = [i \in IDS |-> <<0, 0, 0>>]
IsMin(i) == i \in live /\ \A j \in live : Leq(tm[i], tm[j])
TAdd == /\ IsEvent("t_add") /\ Ev.id \notin live /\ Ev.ok
        /\ live' = live \cup {Ev.id} /\ tm' = [tm EXCEPT ![Ev.id] = <<Ev.sh, Ev.s, Ev.u>>]
TAddFail == IsEvent("t_add") /\ ~Ev.ok /\ Ev.inj > 0 /\ UNCHANGED <<live, tm>>       \* C14: failure changes nothing
TInit == IsEvent("t_init") /\ live = {} /\ (Ev.ok \/ Ev.inj > 0) /\ UNCHANGED <<live, tm>>
TEndAll == IsEvent("end") /\ Ev.live = 0 /\ UNCHANGED <<live, tm>>
TDelete == IsEvent("t_delete") /\ Ev.id \in live /\ live' = live \ {Ev.id} /\ UNCHANGED tm
TIncrease == /\ IsEvent("t_increase") /\ Ev.id \in live /\ Leq(tm[Ev.id], <<Ev.sh, Ev.s, Ev.u>>)
             /\ tm' = [tm EXCEPT ![Ev.id] = <<Ev.sh, Ev.s, Ev.u>>] /\ UNCHANGED live
\* getmin: the least time, or NULL iff empty
TGetMin == /\ IsEvent("t_getmin")
           /\ IF Ev.none THEN live = {} ELSE \E i \in live : IsMin(i) /\ tm[i] = <<Ev.sh, Ev.s, Ev.u>>
           /\ UNCHANGED <<live, tm>>
\* getptr(t): exactly the pointer stored with a least entry, iff its time <= t; nothing later than t
TGetPtr == /\ IsEvent("t_getptr")
           /\ IF Ev.id = 0
              THEN /\ \A i \in live : ~Leq(tm[i], <<Ev.sh, Ev.s, Ev.u>>)
                   /\ UNCHANGED <<live, tm>>
              ELSE /\ IsMin(Ev.id) /\ Leq(tm[Ev.id], <<Ev.sh, Ev.s, Ev.u>>)
                   /\ live' = live \ {Ev.id} /\ UNCHANGED tm
TEnd == IsEvent("t_end") /\ live = {} /\ UNCHANGED <<live, tm>>
Next == TReset \/ TAddFail \/ TInit \/ TEndAll \/ TAdd \/ TDelete \/ TIncrease \/ TGetMin \/ TGetPtr \/ TEnd
Spec == Init /\ [][Next]_vars
=============================================================================
