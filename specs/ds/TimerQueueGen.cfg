SPECIFICATION GSpec
CONSTANTS IDS = {1, 2, 3, 4, 5, 6}
          TIMES = {0, 1, 2, 3}
          DEPTH = 16
INVARIANTS Emit NotLate MinFirst
CHECK_DEADLOCK FALSE
