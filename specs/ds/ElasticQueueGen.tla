--------------------------- MODULE ElasticQueueGen ---------------------------
(* Behaviour generation for the elastic queue and the sequential map. *)
EXTENDS ElasticQueue, TLC, Json
CONSTANTS DEPTH, MODE        \* MODE = "eq" or "sm"
VARIABLE hist
gvars == <<q, arr, offset, base, lastmin, hist>>
GInit == Init /\ hist = <<>>
GNext == \/ Len(hist) = DEPTH - 1 /\ UNCHANGED vars /\ hist' = Append(hist, <<"getmin", 0>>)
         \/ /\ Len(hist) < DEPTH - 1
            /\ \/ \E r \in RECS : Add(r) /\ hist' = Append(hist, <<"add", r>>)
               \/ MODE = "eq" /\ Delete /\ hist' = Append(hist, <<"delete", 0>>)
               \/ MODE = "sm" /\ \E i \in 0..(base + Len(q) + 1) : MapDelete(i) /\ hist' = Append(hist, <<"delete", i>>)
               \/ \E i \in 0..(base + Len(q) + 1) : UNCHANGED vars /\ hist' = Append(hist, <<"get", i>>)
               \/ UNCHANGED vars /\ hist' = Append(hist, <<"getmin", 0>>)
GSpec == GInit /\ [][GNext]_gvars
Emit == Len(hist) = DEPTH => PrintT(<<"CASE", ToJson(hist)>>)
=============================================================================
