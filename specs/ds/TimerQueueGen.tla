---------------------------- MODULE TimerQueueGen ----------------------------
(* Behaviour generation for the timer queue: TimerQueue's actions with the call history as a ghost. *)
EXTENDS TimerQueue, TLC, Json
CONSTANT DEPTH
VARIABLE hist
gvars == <<heap, rc, key, live, released, hist>>
GInit == Init /\ hist = <<>>
GNext == \/ /\ Len(hist) < DEPTH - 1
            /\ \/ \E i \in IDS, t \in TIMES :
                    \/ Add(i, t) /\ hist' = Append(hist, <<"tadd", i, t>>)
                    \/ Increase(i, t) /\ hist' = Append(hist, <<"tincrease", i, t>>)
               \/ \E i \in IDS : Delete(i) /\ hist' = Append(hist, <<"tdelete", i, 0>>)
               \/ \E t \in TIMES : GetPtr(t) /\ hist' = Append(hist, <<"tgetptr", t, 0>>)
               \/ UNCHANGED vars /\ hist' = Append(hist, <<"tgetmin", 0, 0>>)
         \/ Len(hist) = DEPTH - 1 /\ UNCHANGED vars /\ hist' = Append(hist, <<"tgetmin", 0, 0>>)
GSpec == GInit /\ [][GNext]_gvars
Emit == Len(hist) = DEPTH => PrintT(<<"CASE", ToJson(hist)>>)
=============================================================================
