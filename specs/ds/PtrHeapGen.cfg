SPECIFICATION GSpec
CONSTANTS ELEMS = {1, 2, 3, 4, 5, 6, 7}
          KEYS = {0, 1, 2, 3}
          DEPTH = 14
INVARIANTS Emit HeapOrder MinIsLeast Handles
CHECK_DEADLOCK FALSE
