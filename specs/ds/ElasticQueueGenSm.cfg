SPECIFICATION GSpec
CONSTANTS RECS = {1, 2, 3}
          MAXLEN = 1000
          DEPTH = 24
          MODE = "sm"
INVARIANTS Emit Abstraction CompactOK
CHECK_DEADLOCK FALSE
