------------------------------ MODULE PtrHeap ------------------------------
(***************************************************************************)
(* datastruct/ptrheap.c.                                                    *)
(*                                                                          *)
(* Abstract state (what property C13 talks about): the set `live` of        *)
(* elements inserted and not yet deleted, and their keys `key`.             *)
(* Implementation state: the array `heap` (a sequence of elements, position *)
(* p of the C array is heap[p+1]) and `rc[e]`, the position most recently   *)
(* reported for e through the record-cookie callback (-1: none).            *)
(* One action per public function; heapifyup / heapify / swap are the       *)
(* operators Up / Down / Swap.                                              *)
(***************************************************************************)
EXTENDS Naturals, Integers, Sequences, FiniteSets

CONSTANTS ELEMS,        \* element identities (the pointers)
          KEYS          \* key values (a set of naturals)

VARIABLES heap, rc, key, live
vars == <<heap, rc, key, live>>

N == Len(heap)

Swap(h, r, i, j) == LET h2 == [h EXCEPT ![i + 1] = h[j + 1], ![j + 1] = h[i + 1]]
                    IN <<h2, [r EXCEPT ![h2[i + 1]] = i, ![h2[j + 1]] = j]>>

\* heapifyup(elems, i): k is the key function
RECURSIVE Up(_, _, _, _)
Up(h, r, i, k) == IF i = 0 THEN <<h, r>>
                  ELSE LET p == (i - 1) \div 2 IN
                       IF k[h[i + 1]] >= k[h[p + 1]] THEN <<h, r>>
                       ELSE LET s == Swap(h, r, i, p) IN Up(s[1], s[2], p, k)

\* heapify(elems, i, n)
RECURSIVE Down(_, _, _, _, _)
Down(h, r, i, n, k) ==
  LET l1 == 2 * i + 1
      l2 == 2 * i + 2
      m1 == IF l1 < n /\ k[h[i + 1]] > k[h[l1 + 1]] THEN l1 ELSE i
      m  == IF l2 < n /\ k[h[m1 + 1]] > k[h[l2 + 1]] THEN l2 ELSE m1
  IN IF m = i THEN <<h, r>> ELSE LET s == Swap(h, r, m, i) IN Down(s[1], s[2], m, n, k)

\* the same without notifications (ptrheap_create passes setreccookie = NULL)
DownQuiet(h, i, n, k) == Down(h, [e \in ELEMS |-> -1], i, n, k)[1]

Init == heap = <<>> /\ rc = [e \in ELEMS |-> -1] /\ key = [e \in ELEMS |-> 0] /\ live = {}

\* ptrheap_add(H, e) with key v
AddResult(h, r, k, e, v) ==
  LET h1 == Append(h, e)
      r1 == [r EXCEPT ![e] = Len(h)]
      k1 == [k EXCEPT ![e] = v]
      u  == Up(h1, r1, Len(h), k1)
  IN <<u[1], u[2], k1>>
Add(e, v) == /\ e \notin live
             /\ LET a == AddResult(heap, rc, key, e, v) IN heap' = a[1] /\ rc' = a[2] /\ key' = a[3]
             /\ live' = live \cup {e}

\* ptrheap_delete(H, rc[e])
DeleteResult(h, r, k, e) ==
  LET p == r[e]
      n == Len(h)
  IN IF p # n - 1
     THEN LET h1 == [h EXCEPT ![p + 1] = h[n]]
              r1 == [r EXCEPT ![h[n]] = p]
              res == IF p > 0 /\ k[h1[p + 1]] < k[h1[(p - 1) \div 2 + 1]]
                     THEN LET s == Swap(h1, r1, p, (p - 1) \div 2) IN Up(s[1], s[2], (p - 1) \div 2, k)
                     ELSE Down(h1, r1, p, n, k)
          IN <<SubSeq(res[1], 1, n - 1), [res[2] EXCEPT ![e] = -1]>>
     ELSE <<SubSeq(h, 1, n - 1), [r EXCEPT ![e] = -1]>>
Delete(e) == /\ e \in live
             /\ LET d == DeleteResult(heap, rc, key, e) IN heap' = d[1] /\ rc' = d[2]
             /\ live' = live \ {e} /\ UNCHANGED key

DeleteMin == N > 0 /\ Delete(heap[1])

\* the caller raises the key of e and calls ptrheap_increase(H, rc[e])
Increase(e, v) == /\ e \in live /\ v >= key[e]
                  /\ key' = [key EXCEPT ![e] = v]
                  /\ LET d == Down(heap, rc, rc[e], N, key') IN heap' = d[1] /\ rc' = d[2]
                  /\ UNCHANGED live
\* the caller lowers the key of e and calls ptrheap_decrease(H, rc[e])
Decrease(e, v) == /\ e \in live /\ v <= key[e]
                  /\ key' = [key EXCEPT ![e] = v]
                  /\ LET u == Up(heap, rc, rc[e], key') IN heap' = u[1] /\ rc' = u[2]
                  /\ UNCHANGED live
IncreaseMin(v) == N > 0 /\ Increase(heap[1], v)

\* ptrheap_create(..., N, ptrs): es is a sequence of distinct elements, ks their keys
RECURSIVE BuildFrom(_, _, _, _)
BuildFrom(h, i, n, k) == IF i < 0 THEN h ELSE BuildFrom(DownQuiet(h, i, n, k), i - 1, n, k)
CreateResult(es, k) == LET h == BuildFrom(es, Len(es) - 1, Len(es), k)
                       IN <<h, [e \in ELEMS |-> IF \E i \in 1..Len(h) : h[i] = e
                                                THEN (CHOOSE i \in 1..Len(h) : h[i] = e) - 1 ELSE -1]>>

Next == \/ \E e \in ELEMS, v \in KEYS : Add(e, v) \/ Increase(e, v) \/ Decrease(e, v)
        \/ \E e \in ELEMS : Delete(e)
        \/ DeleteMin
        \/ \E v \in KEYS : IncreaseMin(v)
Spec == Init /\ [][Next]_vars

----------------------------------------------------------------------------
\* Property C13 (heap part)
HeapOrder  == \A i \in 1..N-1 : key[heap[(i - 1) \div 2 + 1]] <= key[heap[i + 1]]
MinIsLeast == N > 0 => \A e \in live : key[heap[1]] <= key[e]          \* getmin is a least element
Handles    == /\ \A e \in live : rc[e] >= 0 /\ rc[e] < N /\ heap[rc[e] + 1] = e   \* the reported position identifies e
              /\ {heap[i] : i \in 1..N} = live /\ N = Cardinality(live)
              /\ \A e \in ELEMS \ live : rc[e] = -1
TypeOK     == live \subseteq ELEMS /\ N <= Cardinality(ELEMS)
=============================================================================
