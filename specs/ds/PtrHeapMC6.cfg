SPECIFICATION Spec
CONSTANTS ELEMS = {1, 2, 3, 4, 5, 6}
          KEYS = {0, 1, 2, 3}
INVARIANTS HeapOrder MinIsLeast Handles TypeOK
