----------------------------- MODULE TimerQueue -----------------------------
(***************************************************************************)
(* datastruct/timerqueue.c on top of PtrHeap: entries are (time, pointer)   *)
(* pairs; the handle of an entry is the entry itself, so it stays valid     *)
(* across every other operation.  The heap is PtrHeap with key = time.      *)
(* Times are naturals here (the C timeval order is the lexicographic order  *)
(* of (sec, usec); the trace specification uses pairs).                     *)
(***************************************************************************)
EXTENDS Naturals, Integers, Sequences, FiniteSets
CONSTANTS IDS, TIMES
VARIABLES heap, rc, key, live, released    \* released: the last <<id, time, query>> handed back by getptr (<<>> none)
H == INSTANCE PtrHeap WITH ELEMS <- IDS, KEYS <- TIMES
vars == <<heap, rc, key, live, released>>
Init == H!Init /\ released = <<>>
Add(i, t) == H!Add(i, t) /\ UNCHANGED released
Delete(i) == H!Delete(i) /\ UNCHANGED released
Increase(i, t) == H!Increase(i, t) /\ UNCHANGED released
\* timerqueue_getptr(Q, t): releases the least entry iff its time <= t
GetPtr(t) == IF Len(heap) > 0 /\ key[heap[1]] <= t
             THEN H!Delete(heap[1]) /\ released' = <<heap[1], key[heap[1]], t>>
             ELSE UNCHANGED vars
Next == \/ \E i \in IDS, t \in TIMES : Add(i, t) \/ Increase(i, t)
        \/ \E i \in IDS : Delete(i)
        \/ \E t \in TIMES : GetPtr(t)
Spec == Init /\ [][Next]_vars
\* C13 (timer queue part)
NotLate == released # <<>> => released[2] <= released[3]   \* nothing later than the query time
MinFirst == H!MinIsLeast /\ H!HeapOrder /\ H!Handles
\* a release removes a least entry: checked as an action property
ReleaseLeast == [][(live' # live /\ Cardinality(live') < Cardinality(live) /\ released' # released) =>
                     \A e \in live : released'[2] <= key[e]]_vars
=============================================================================
