------------------------------ MODULE EASizing ------------------------------
(* Integer abstraction of elasticarray.c's sizing policy, for Apalache: IndInv is inductive for all sizes. *)
EXTENDS Integers
VARIABLES
  \* @type: Int;
  size,
  \* @type: Int;
  alloc,
  \* @type: Bool;
  shrinkFailed
NAlloc(ns) == IF alloc < ns THEN (IF 2 * alloc < ns THEN ns ELSE 2 * alloc)
              ELSE IF alloc \div 4 > ns THEN 2 * ns ELSE alloc
Init == size = 0 /\ alloc = 0 /\ shrinkFailed = FALSE
Grow(ns, okr) == /\ ns >= size /\ ns <= 1000000
                 /\ IF NAlloc(ns) = alloc \/ okr
                    THEN size' = ns /\ alloc' = NAlloc(ns) /\ shrinkFailed' = FALSE
                    ELSE UNCHANGED <<size, alloc, shrinkFailed>>
Shrink(ns, okr) == /\ ns >= 0 /\ ns <= size
                   /\ size' = ns
                   /\ IF NAlloc(ns) = 0 \/ NAlloc(ns) = alloc \/ okr
                      THEN alloc' = NAlloc(ns) /\ shrinkFailed' = FALSE
                      ELSE alloc' = alloc /\ shrinkFailed' = TRUE
Truncate(okr) == /\ IF size = 0 \/ alloc = size \/ okr THEN alloc' = size /\ shrinkFailed' = FALSE ELSE UNCHANGED <<alloc, shrinkFailed>>
                 /\ UNCHANGED size
Next == \E ns \in Int, okr \in BOOLEAN : Grow(ns, okr) \/ Shrink(ns, okr) \/ Truncate(okr)
IndInv == /\ size >= 0 /\ alloc >= size
          /\ (shrinkFailed \/ alloc \div 4 <= size)
IndInit == size \in Int /\ alloc \in Int /\ shrinkFailed \in BOOLEAN /\ IndInv
=============================================================================
