SPECIFICATION Spec
CONSTANTS ELEMS = {1, 2, 3, 4, 5}
          KEYS = {0, 1, 2}
INVARIANTS HeapOrder MinIsLeast Handles TypeOK
