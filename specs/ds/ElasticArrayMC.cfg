SPECIFICATION Spec
CONSTANTS BYTES = {1, 2}
          MAXSIZE = 9
          RECLENS = {1, 2, 3}
          FAILS = {TRUE, FALSE}
INVARIANTS Refines Capacity Factor4
PROPERTY FailUnchanged
