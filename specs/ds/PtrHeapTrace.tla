---------------------------- MODULE PtrHeapTrace ----------------------------
(***************************************************************************)
(* Trace validation of datastruct/ptrheap.c (property C13, heap part).      *)
(* Abstract level (decides): `live`, `key`, and `hd[e]` = the position most *)
(* recently reported for e through the record-cookie callback, as observed. *)
(* Implementation level (drift only): the array model of PtrHeap.tla is run *)
(* alongside; `drift` becomes TRUE when the observed notifications stop     *)
(* matching it (a refactor that keeps the property is allowed to do that).  *)
(***************************************************************************)
EXTENDS TraceBase, Integers, FiniteSets
CONSTANT MAXEL
ELEMS == 1..MAXEL
KEYS == Nat
VARIABLES live, key, hd, heap, rc, drift
H == INSTANCE PtrHeap WITH ELEMS <- ELEMS, KEYS <- KEYS
vars == <<l, live, key, hd, heap, rc, drift>>

Init0 == live = {} /\ key = [e \in ELEMS |-> 0] /\ hd = [e \in ELEMS |-> -1]
         /\ heap = <<>> /\ rc = [e \in ELEMS |-> -1] /\ drift = FALSE
Init == l = 1 /\ Init0

\* apply the notifications logged with the event, in order
RECURSIVE ApplyNotes(_, _, _)
ApplyNotes(h, ns, i) == IF i > Len(ns) THEN h ELSE ApplyNotes([h EXCEPT ![ns[i][1]] = ns[i][2]], ns, i + 1)

\* C13: the position most recently reported identifies exactly that element:
\* reported positions of live elements are distinct and inside the heap
\* (a heap made without the record-cookie callback has no handles: only the minimum clauses apply to it)
NoCb == Has("nocb") /\ Ev.nocb
HandlesOK(lv, h) == NoCb \/ ((\A e \in lv : h[e] >= 0 /\ h[e] < Cardinality(lv)) /\ Cardinality({h[x] : x \in lv}) = Cardinality(lv))

\* implementation model step: (heap', rc') given as a pair, compared with observation
ImplStep(pair, lv, h) ==
  /\ heap' = (IF drift \/ NoCb THEN heap ELSE pair[1])
  /\ rc' = (IF drift \/ NoCb THEN rc ELSE pair[2])
  /\ drift' = (IF drift \/ NoCb THEN TRUE
               ELSE IF \A e \in lv : pair[2][e] = h[e] THEN FALSE
               ELSE PrintT(<<"IMPLDRIFT", l>>))

TReset == IsEvent("reset") /\ live' = {} /\ key' = [e \in ELEMS |-> 0] /\ hd' = [e \in ELEMS |-> -1]
          /\ heap' = <<>> /\ rc' = [e \in ELEMS |-> -1] /\ drift' = FALSE

TCreate == /\ IsEvent("h_create") /\ live = {} /\ Ev.ok
           /\ LET es == Ev.els  ks == Ev.keys
                  k1 == [e \in ELEMS |-> IF \E i \in 1..Len(es) : es[i] = e THEN ks[CHOOSE i \in 1..Len(es) : es[i] = e] ELSE 0]
                  h1 == ApplyNotes(hd, Ev.notes, 1)
                  lv == SeqToSet(es)
              IN /\ live' = lv /\ key' = k1 /\ hd' = h1
                 /\ HandlesOK(lv, h1)
                 /\ ImplStep(H!CreateResult(es, k1), lv, h1)

\* C14: a failed add / create / init reports failure only if the allocator refused, and changes nothing
TAddFail == /\ IsEvent("h_add") /\ Ev.rc = -1 /\ Ev.inj > 0 /\ Ev.notes = <<>>
            /\ UNCHANGED <<live, key, hd, heap, rc, drift>>
TInit == /\ IsEvent("h_init") /\ live = {} /\ (Ev.ok \/ Ev.inj > 0) /\ UNCHANGED <<live, key, hd, heap, rc, drift>>
TCreateFail == /\ IsEvent("h_create") /\ ~Ev.ok /\ Ev.inj > 0 /\ live = {} /\ UNCHANGED <<live, key, hd, heap, rc, drift>>
TEndAll == /\ IsEvent("end") /\ Ev.live = 0 /\ UNCHANGED <<live, key, hd, heap, rc, drift>>   \* nothing leaked
TAdd == /\ IsEvent("h_add") /\ Ev.el \notin live /\ Ev.rc = 0
        /\ LET h1 == ApplyNotes(hd, Ev.notes, 1)  lv == live \cup {Ev.el} IN
           /\ live' = lv /\ key' = [key EXCEPT ![Ev.el] = Ev.key] /\ hd' = h1
           /\ HandlesOK(lv, h1)
           /\ ImplStep(IF drift THEN <<heap, rc>> ELSE LET a == H!AddResult(heap, rc, key, Ev.el, Ev.key) IN <<a[1], a[2]>>, lv, h1)

\* getmin: NULL exactly when empty, otherwise a least element of the live multiset
TGetMin == /\ IsEvent("h_getmin")
           /\ IF Ev.el = 0 THEN live = {}
              ELSE Ev.el \in live /\ \A x \in live : key[Ev.el] <= key[x]
           /\ UNCHANGED <<live, key, hd, heap, rc, drift>>

\* delete by handle: the driver passes the position last reported for the element it intends
TDelete == /\ IsEvent("h_delete") /\ Ev.el \in live /\ Ev.h = hd[Ev.el]
           /\ LET h1 == [ApplyNotes(hd, Ev.notes, 1) EXCEPT ![Ev.el] = -1]  lv == live \ {Ev.el} IN
              /\ live' = lv /\ hd' = h1 /\ UNCHANGED key
              /\ HandlesOK(lv, h1)
              /\ ImplStep(IF drift THEN <<heap, rc>> ELSE H!DeleteResult(heap, rc, key, Ev.el), lv, h1)

\* deletemin: removes the element the preceding getmin reported (logged as el)
TDeleteMin == /\ IsEvent("h_deletemin") /\ Ev.el \in live /\ \A x \in live : key[Ev.el] <= key[x]
              /\ LET h1 == [ApplyNotes(hd, Ev.notes, 1) EXCEPT ![Ev.el] = -1]  lv == live \ {Ev.el} IN
                 /\ live' = lv /\ hd' = h1 /\ UNCHANGED key
                 /\ HandlesOK(lv, h1)
                 /\ ImplStep(IF drift THEN <<heap, rc>> ELSE H!DeleteResult(heap, rc, key, Ev.el), lv, h1)

TIncrease == /\ IsEvent("h_increase") /\ Ev.el \in live /\ Ev.h = hd[Ev.el] /\ Ev.key >= key[Ev.el]
             /\ LET h1 == ApplyNotes(hd, Ev.notes, 1)  k1 == [key EXCEPT ![Ev.el] = Ev.key] IN
                /\ key' = k1 /\ hd' = h1 /\ UNCHANGED live
                /\ HandlesOK(live, h1)
                /\ ImplStep(IF drift THEN <<heap, rc>> ELSE H!Down(heap, rc, rc[Ev.el], Len(heap), k1), live, h1)
TDecrease == /\ IsEvent("h_decrease") /\ Ev.el \in live /\ Ev.h = hd[Ev.el] /\ Ev.key <= key[Ev.el]
             /\ LET h1 == ApplyNotes(hd, Ev.notes, 1)  k1 == [key EXCEPT ![Ev.el] = Ev.key] IN
                /\ key' = k1 /\ hd' = h1 /\ UNCHANGED live
                /\ HandlesOK(live, h1)
                /\ ImplStep(IF drift THEN <<heap, rc>> ELSE H!Up(heap, rc, rc[Ev.el], k1), live, h1)
\* increasemin: the element is the one the preceding getmin reported
TIncreaseMin == /\ IsEvent("h_increasemin") /\ Ev.el \in live /\ Ev.key >= key[Ev.el]
                /\ \A x \in live : key[Ev.el] <= key[x]
                /\ LET h1 == ApplyNotes(hd, Ev.notes, 1)  k1 == [key EXCEPT ![Ev.el] = Ev.key] IN
                   /\ key' = k1 /\ hd' = h1 /\ UNCHANGED live
                   /\ HandlesOK(live, h1)
                   /\ ImplStep(IF drift THEN <<heap, rc>> ELSE H!Down(heap, rc, 0, Len(heap), k1), live, h1)
\* end of an execution: the driver has drained the heap with getmin/deletemin; nothing may be left
TEnd == IsEvent("h_end") /\ live = {} /\ UNCHANGED <<live, key, hd, heap, rc, drift>>

Next == TReset \/ TAddFail \/ TInit \/ TCreateFail \/ TEndAll \/ TCreate \/ TAdd \/ TGetMin \/ TDelete \/ TDeleteMin \/ TIncrease \/ TDecrease \/ TIncreaseMin \/ TEnd
Spec == Init /\ [][Next]_vars
=============================================================================
