----------------------------- MODULE PtrHeapGen -----------------------------
(* Behaviour generation: the actions of PtrHeap with the call history as a ghost; used with
   `tlc -simulate`; every behaviour of length DEPTH is printed as one program. *)
EXTENDS PtrHeap, TLC, Json
CONSTANT DEPTH
VARIABLE hist
gvars == <<heap, rc, key, live, hist>>
Rec(op, e, v) == <<op, e, v>>
GInit == Init /\ hist = <<>>
GNext == \/ Len(hist) = DEPTH - 1 /\ UNCHANGED vars /\ hist' = Append(hist, Rec("getmin", 0, 0))
         \/ /\ Len(hist) < DEPTH - 1
            /\ \/ \E e \in ELEMS, v \in KEYS :
                    \/ Add(e, v) /\ hist' = Append(hist, Rec("add", e, v))
                    \/ Increase(e, v) /\ hist' = Append(hist, Rec("increase", e, v))
                    \/ Decrease(e, v) /\ hist' = Append(hist, Rec("decrease", e, v))
               \/ \E e \in ELEMS : Delete(e) /\ hist' = Append(hist, Rec("delete", e, 0))
               \/ DeleteMin /\ hist' = Append(hist, Rec("deletemin", 0, 0))
               \/ \E v \in KEYS : IncreaseMin(v) /\ hist' = Append(hist, Rec("increasemin", 0, v))
               \/ UNCHANGED vars /\ hist' = Append(hist, Rec("getmin", 0, 0))
GSpec == GInit /\ [][GNext]_gvars
Emit == Len(hist) = DEPTH => PrintT(<<"CASE", ToJson(hist)>>)
=============================================================================
