SPECIFICATION Spec
CONSTANT MAXEL = 128
POSTCONDITION Accepted
CHECK_DEADLOCK FALSE
