SPECIFICATION Spec
CONSTANT MAXEL = 64
POSTCONDITION Accepted
CHECK_DEADLOCK FALSE
