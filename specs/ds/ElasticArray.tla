---------------------------- MODULE ElasticArray ----------------------------
(***************************************************************************)
(* datastruct/elasticarray.c.  Abstract state: `content`, the byte sequence *)
(* an ideal resizable array would hold (-1 = an uninitialised byte).        *)
(* Implementation state: `size`, `alloc` with the policy of resize();       *)
(* `shrinkFailed` remembers that the last shrink could not reallocate.      *)
(* The outcome of realloc is an environment choice (okr), so the same       *)
(* module serves C12 (okr = TRUE) and C14 (allocation failure).             *)
(***************************************************************************)
EXTENDS Naturals, Integers, Sequences
CONSTANTS BYTES, MAXSIZE, RECLENS, FAILS   \* FAILS: set of possible realloc outcomes ({TRUE} or BOOLEAN)
VARIABLES content, size, alloc, shrinkFailed, lastrc
vars == <<content, size, alloc, shrinkFailed, lastrc>>

\* the allocation resize() wants for a new size ns when the current allocation is a
NAlloc(a, ns) == IF a < ns THEN (IF 2 * a < ns THEN ns ELSE 2 * a)
                 ELSE IF a \div 4 > ns THEN 2 * ns ELSE a
\* does resize(ns) succeed when realloc's outcome is okr ?
ResizeOK(a, ns, okr) == NAlloc(a, ns) = 0 \/ NAlloc(a, ns) = a \/ okr

Init == content = <<>> /\ size = 0 /\ alloc = 0 /\ shrinkFailed = FALSE /\ lastrc = 0

Fill(n) == [i \in 1..n |-> -1]
Take(s, n) == SubSeq(s, 1, n)

\* elasticarray_append(EA, buf, nrec, reclen) with the nrec*reclen bytes `data`
EAAppend(data, okr) ==
  LET ns == size + Len(data) IN
  /\ ns <= MAXSIZE
  /\ IF ResizeOK(alloc, ns, okr)
     THEN content' = content \o data /\ size' = ns /\ alloc' = NAlloc(alloc, ns) /\ lastrc' = 0 /\ shrinkFailed' = FALSE
     ELSE UNCHANGED <<content, size, alloc, shrinkFailed>> /\ lastrc' = -1      \* on error the array is unmodified

\* elasticarray_resize(EA, nrec, reclen)
ResizeTo(ns, okr) ==
  /\ ns <= MAXSIZE
  /\ IF ResizeOK(alloc, ns, okr)
     THEN /\ content' = (IF ns <= size THEN Take(content, ns) ELSE content \o Fill(ns - size))
          /\ size' = ns /\ alloc' = NAlloc(alloc, ns) /\ lastrc' = 0 /\ shrinkFailed' = FALSE
     ELSE UNCHANGED <<content, size, alloc, shrinkFailed>> /\ lastrc' = -1

\* elasticarray_shrink(EA, nrec, reclen): cannot fail; keeps the old buffer if realloc refuses
Shrink(nbytes, okr) ==
  LET ns == IF nbytes > size THEN 0 ELSE size - nbytes IN
  /\ content' = Take(content, ns) /\ size' = ns /\ lastrc' = 0
  /\ IF ResizeOK(alloc, ns, okr)
     THEN alloc' = NAlloc(alloc, ns) /\ shrinkFailed' = FALSE
     ELSE alloc' = alloc /\ shrinkFailed' = TRUE

\* elasticarray_truncate(EA)
Truncate(okr) ==
  /\ UNCHANGED <<content, size>>
  /\ IF size = 0 \/ alloc = size \/ okr
     THEN alloc' = size /\ lastrc' = 0 /\ shrinkFailed' = FALSE
     ELSE UNCHANGED <<alloc, shrinkFailed>> /\ lastrc' = -1

Datas == UNION {[1..n -> BYTES] : n \in {k * r : k \in 0..2, r \in RECLENS}}
Next == \E okr \in FAILS :
          \/ \E d \in Datas : EAAppend(d, okr)
          \/ \E k \in 0..MAXSIZE, r \in RECLENS : k * r <= MAXSIZE /\ ResizeTo(k * r, okr)
          \/ \E k \in 0..3, r \in RECLENS : Shrink(k * r, okr)
          \/ Truncate(okr)
Spec == Init /\ [][Next]_vars

----------------------------------------------------------------------------
\* C12 (array part)
Refines   == size = Len(content)                       \* holds exactly the ideal array's bytes (count)
Capacity  == alloc >= size                             \* never reads or writes outside its storage
Factor4   == shrinkFailed \/ alloc \div 4 <= size      \* within a factor 4 after growth or a successful shrink
\* C14: a failed operation leaves the array exactly as it was (action property)
FailUnchanged == [][lastrc' = -1 => UNCHANGED <<content, size, alloc>>]_vars
=============================================================================
