---------------------------- MODULE ElasticTrace ----------------------------
(***************************************************************************)
(* Trace validation of elasticarray.c, elasticqueue.c, seqptrmap.c and      *)
(* mpool.h (C12), including the allocation-failure clauses (C14): an event  *)
(* carries `inj` = number of allocation failures injected during the call.  *)
(* Abstract state only: the ideal array `content` (-1 = uninitialised       *)
(* byte), the ideal queue `q`, the ideal map (`base`, `q` of pointer ids,   *)
(* 0 = deleted), the pool's objects in use.  The implementation-level       *)
(* allocation policy (ElasticArray!NAlloc) is compared for drift only.      *)
(***************************************************************************)
EXTENDS TraceBase, Integers, FiniteSets, VPrims
VARIABLES kind,      \* which structure this execution exercises
          alive,     \* the object exists
          content,   \* array: ideal byte sequence
          alloc,     \* array: allocation size last observed; model allocation for drift
          malloc0,   \* model allocation (implementation level)
          q, base,   \* queue / map
          inuse,     \* pool: objects handed out and not yet returned
          seen,      \* pool: every object the pool ever handed out
          drift
vars == <<l, kind, alive, content, alloc, malloc0, q, base, inuse, seen, drift>>

EA == INSTANCE ElasticArray WITH BYTES <- 0..255, MAXSIZE <- 1000000, RECLENS <- {1}, FAILS <- {TRUE},
        size <- Len(content), shrinkFailed <- FALSE, lastrc <- 0, alloc <- malloc0

Init0 == kind = "none" /\ alive = FALSE /\ content = <<>> /\ alloc = 0 /\ malloc0 = 0 /\ q = <<>> /\ base = 0
         /\ inuse = {} /\ seen = {} /\ drift = FALSE
Init == l = 1 /\ Init0
TReset == IsEvent("reset") /\ kind' = "none" /\ alive' = FALSE /\ content' = <<>> /\ alloc' = 0 /\ malloc0' = 0
          /\ q' = <<>> /\ base' = 0 /\ inuse' = {} /\ seen' = {} /\ drift' = FALSE

Fill(n) == [i \in 1..n |-> -1]
Take(s, n) == SubSeq(s, 1, n)
\* observed bytes agree with the ideal array (uninitialised bytes may hold anything)
Match(model, obs) == Len(model) = Len(obs) /\ \A i \in 1..Len(model) : model[i] = -1 \/ model[i] = obs[i]
\* a failure result is legal only if the allocator refused something during the call
FailureAllowed == Ev.inj > 0
\* C12: allocated storage within a factor 4 of the contents (the code's own integer form)
Factor4(a, sz) == a \div 4 <= sz /\ sz <= a
Drift(ok) == drift' = (IF drift \/ ok THEN drift ELSE PrintT(<<"IMPLDRIFT", l>>))
KeepQ == UNCHANGED <<q, base, inuse, seen>>

\* ------------------------------ array ------------------------------
TEaInit ==
  /\ IsEvent("ea_init") /\ kind = "none" /\ kind' = "ea"
  /\ IF Ev.ok THEN /\ alive' = TRUE /\ content' = Fill(Ev.nrec * Ev.reclen) /\ alloc' = Ev.alloc
                   /\ Factor4(Ev.alloc, Ev.nrec * Ev.reclen)
                   /\ malloc0' = EA!NAlloc(0, Ev.nrec * Ev.reclen) /\ Drift(Ev.alloc = EA!NAlloc(0, Ev.nrec * Ev.reclen))
              ELSE FailureAllowed /\ alive' = FALSE /\ UNCHANGED <<content, alloc, malloc0, drift>>
  /\ KeepQ
TEaAppend ==
  /\ IsEvent("ea_append") /\ kind = "ea" /\ alive
  /\ LET d == BytesOf(Ev.data) IN
     IF Ev.rc = 0
     THEN /\ content' = content \o d /\ alloc' = Ev.alloc
          /\ Factor4(Ev.alloc, Len(content) + Len(d))                         \* after growth
          /\ malloc0' = EA!NAlloc(malloc0, Len(content) + Len(d)) /\ Drift(Ev.alloc = EA!NAlloc(malloc0, Len(content) + Len(d)))
     ELSE /\ Ev.rc = -1 /\ FailureAllowed
          /\ Ev.alloc = alloc /\ UNCHANGED <<content, alloc, malloc0, drift>>   \* on error the array is unmodified
  /\ UNCHANGED <<kind, alive>> /\ KeepQ
\* a record count whose byte size overflows size_t: ENOMEM, array unchanged, whatever the allocator does
TEaAppendBig ==
  /\ IsEvent("ea_appendbig") /\ kind = "ea" /\ alive
  /\ Ev.rc = -1 /\ Ev.errno = 12 /\ Ev.alloc = alloc
  /\ UNCHANGED <<kind, alive, content, alloc, malloc0, drift>> /\ KeepQ
TEaResize ==
  /\ IsEvent("ea_resize") /\ kind = "ea" /\ alive
  /\ IF Ev.big THEN Ev.rc = -1 /\ Ev.alloc = alloc /\ UNCHANGED <<content, alloc, malloc0, drift>>
     ELSE LET ns == Ev.nrec * Ev.reclen IN
          IF Ev.rc = 0
          THEN /\ content' = (IF ns <= Len(content) THEN Take(content, ns) ELSE content \o Fill(ns - Len(content)))
               /\ alloc' = Ev.alloc /\ Factor4(Ev.alloc, ns)
               /\ malloc0' = EA!NAlloc(malloc0, ns) /\ Drift(Ev.alloc = EA!NAlloc(malloc0, ns))
          ELSE /\ Ev.rc = -1 /\ FailureAllowed /\ Ev.alloc = alloc /\ UNCHANGED <<content, alloc, malloc0, drift>>
  /\ UNCHANGED <<kind, alive>> /\ KeepQ
\* shrink cannot fail; the factor-4 bound is owed only if realloc did not refuse
TEaShrink ==
  /\ IsEvent("ea_shrink") /\ kind = "ea" /\ alive /\ Ev.rc = 0
  /\ LET nb == IF Ev.big THEN Len(content) + 1 ELSE Ev.nrec * Ev.reclen
         ns == IF nb > Len(content) THEN 0 ELSE Len(content) - nb IN
     /\ content' = Take(content, ns) /\ alloc' = Ev.alloc
     /\ Ev.alloc >= ns
     /\ (Ev.inj = 0 => Factor4(Ev.alloc, ns))
     /\ malloc0' = (IF Ev.inj = 0 THEN EA!NAlloc(malloc0, ns) ELSE Ev.alloc)
     /\ Drift(Ev.inj > 0 \/ Ev.alloc = EA!NAlloc(malloc0, ns))
  /\ UNCHANGED <<kind, alive>> /\ KeepQ
TEaTruncate ==
  /\ IsEvent("ea_truncate") /\ kind = "ea" /\ alive
  /\ IF Ev.rc = 0 THEN alloc' = Ev.alloc /\ Ev.alloc = Len(content) /\ malloc0' = Ev.alloc
     ELSE Ev.rc = -1 /\ FailureAllowed /\ Ev.alloc = alloc /\ UNCHANGED <<alloc, malloc0>>
  /\ UNCHANGED <<kind, alive, content, drift>> /\ KeepQ
TEaGetSize == /\ IsEvent("ea_getsize") /\ kind = "ea" /\ alive /\ Ev.n = Len(content) \div Ev.reclen
              /\ UNCHANGED <<kind, alive, content, alloc, malloc0, drift>> /\ KeepQ
TEaGet == /\ IsEvent("ea_get") /\ kind = "ea" /\ alive
          /\ (Ev.pos + 1) * Ev.reclen <= Len(content)
          /\ Match(SubSeq(content, Ev.pos * Ev.reclen + 1, (Ev.pos + 1) * Ev.reclen), BytesOf(Ev.data))
          /\ UNCHANGED <<kind, alive, content, alloc, malloc0, drift>> /\ KeepQ
\* export / exportdup hand over exactly the contents
TEaExportDup ==
  /\ IsEvent("ea_exportdup") /\ kind = "ea" /\ alive
  /\ IF Ev.rc = 0 THEN /\ Match(content, BytesOf(Ev.data)) /\ Ev.nrec = Len(content) \div Ev.reclen
                       /\ (Len(content) > 0 => Ev.bufsize >= Len(content))
     ELSE Ev.rc = -1 /\ FailureAllowed
  /\ UNCHANGED <<kind, alive, content, alloc, malloc0, drift>> /\ KeepQ
TEaExport ==
  /\ IsEvent("ea_export") /\ kind = "ea" /\ alive
  /\ IF Ev.rc = 0 THEN /\ Match(content, BytesOf(Ev.data)) /\ Ev.nrec = Len(content) \div Ev.reclen
                       /\ (Len(content) > 0 => Ev.bufsize = Len(content))
                       /\ alive' = FALSE
     ELSE Ev.rc = -1 /\ FailureAllowed /\ alive' = TRUE
  /\ UNCHANGED <<kind, content, alloc, malloc0, drift>> /\ KeepQ
TEaDump == /\ IsEvent("ea_dump") /\ kind = "ea" /\ alive /\ Ev.size = Len(content) /\ Match(content, BytesOf(Ev.data))
           /\ alive' = FALSE /\ UNCHANGED <<kind, content, alloc, malloc0, drift>> /\ KeepQ

\* ------------------------------ queue ------------------------------
KeepEa == UNCHANGED <<content, alloc, malloc0, drift, inuse, seen>>
TEqInit == /\ IsEvent("eq_init") /\ kind = "none" /\ kind' = "eq"
           /\ IF Ev.ok THEN alive' = TRUE ELSE FailureAllowed /\ alive' = FALSE
           /\ UNCHANGED <<q, base>> /\ KeepEa
TEqAdd == /\ IsEvent("eq_add") /\ kind = "eq" /\ alive
          /\ IF Ev.rc = 0 THEN q' = Append(q, Ev.rec) ELSE Ev.rc = -1 /\ FailureAllowed /\ UNCHANGED q
          /\ UNCHANGED <<kind, alive, base>> /\ KeepEa
TEqDelete == /\ IsEvent("eq_delete") /\ kind = "eq" /\ alive
             /\ q' = (IF q = <<>> THEN q ELSE Tail(q))                  \* cannot fail, whatever the allocator says
             /\ UNCHANGED <<kind, alive, base>> /\ KeepEa
TEqGetLen == /\ IsEvent("eq_getlen") /\ kind = "eq" /\ alive /\ Ev.n = Len(q)
             /\ UNCHANGED <<kind, alive, q, base>> /\ KeepEa
TEqGet == /\ IsEvent("eq_get") /\ kind = "eq" /\ alive
          /\ IF Ev.pos >= Len(q) THEN Ev.null ELSE ~Ev.null /\ Ev.rec = q[Ev.pos + 1]
          /\ UNCHANGED <<kind, alive, q, base>> /\ KeepEa
TEqDump == /\ IsEvent("eq_dump") /\ kind = "eq" /\ alive /\ Ev.n = Len(q) /\ Ev.recs = q
           /\ alive' = FALSE /\ UNCHANGED <<kind, q, base>> /\ KeepEa

\* ------------------------------ map ------------------------------
\* q holds the pointer ids of numbers base .. base+Len(q)-1 (0 = deleted); q is empty or starts with a live entry
MapGet(i) == IF i < base \/ i - base >= Len(q) THEN 0 ELSE q[i - base + 1]
RECURSIVE StripNulls(_, _)
StripNulls(s, b) == IF s # <<>> /\ s[1] = 0 THEN StripNulls(Tail(s), b + 1) ELSE <<s, b>>
TSmInit == /\ IsEvent("sm_init") /\ kind = "none" /\ kind' = "sm"
           /\ IF Ev.ok THEN alive' = TRUE ELSE FailureAllowed /\ alive' = FALSE
           /\ UNCHANGED <<q, base>> /\ KeepEa
TSmAdd == /\ IsEvent("sm_add") /\ kind = "sm" /\ alive
          /\ IF Ev.num >= 0 THEN Ev.num = base + Len(q) /\ q' = Append(q, Ev.ptr)      \* consecutive numbers from 0
             ELSE Ev.num = -1 /\ FailureAllowed /\ UNCHANGED q
          /\ UNCHANGED <<kind, alive, base>> /\ KeepEa
TSmGet == /\ IsEvent("sm_get") /\ kind = "sm" /\ alive /\ Ev.ptr = MapGet(Ev.num)
          /\ UNCHANGED <<kind, alive, q, base>> /\ KeepEa
TSmDelete == /\ IsEvent("sm_delete") /\ kind = "sm" /\ alive
             /\ IF MapGet(Ev.num) = 0 THEN UNCHANGED <<q, base>>
                ELSE LET s == StripNulls([q EXCEPT ![Ev.num - base + 1] = 0], base) IN q' = s[1] /\ base' = s[2]
             /\ UNCHANGED <<kind, alive>> /\ KeepEa
TSmGetMin == /\ IsEvent("sm_getmin") /\ kind = "sm" /\ alive
             /\ Ev.num = (IF q = <<>> THEN -1 ELSE base)                 \* least live number, -1 if none
             /\ UNCHANGED <<kind, alive, q, base>> /\ KeepEa
TSmDump == /\ IsEvent("sm_dump") /\ kind = "sm" /\ alive
           /\ Ev.min = (IF q = <<>> THEN -1 ELSE base)
           /\ \A k \in 1..Len(Ev.ptrs) : Ev.ptrs[k] = MapGet(k - 2)       \* numbers -1 .. issued
           /\ alive' = FALSE /\ UNCHANGED <<kind, q, base>> /\ KeepEa

\* ------------------------------ pool ------------------------------
KeepAll == UNCHANGED <<content, alloc, malloc0, drift, q, base, alive>>
TMpMalloc == /\ IsEvent("mp_malloc") /\ kind \in {"none", "mp"} /\ kind' = "mp"
             /\ IF Ev.null THEN FailureAllowed /\ UNCHANGED <<inuse, seen>>
                ELSE /\ Ev.obj # 0                                     \* a live allocation
                     /\ Ev.obj \notin inuse                            \* never an object that is still in use
                     /\ inuse' = inuse \cup {Ev.obj} /\ seen' = seen \cup {Ev.obj}
             /\ KeepAll
TMpFree == /\ IsEvent("mp_free") /\ kind = "mp" /\ Ev.obj \in inuse /\ Ev.intact
           /\ inuse' = inuse \ {Ev.obj} /\ UNCHANGED <<kind, seen>> /\ KeepAll
\* at exit every object the pool obtained has been returned to the allocator
TMpExit == /\ IsEvent("mp_exit") /\ kind \in {"none", "mp"} /\ inuse = {} /\ Ev.live = 0
           /\ UNCHANGED <<kind, inuse, seen>> /\ KeepAll

\* end of an execution: nothing the library allocated is left (C14: no leak)
TEnd == /\ IsEvent("end") /\ ~alive /\ Ev.live = 0 /\ UNCHANGED <<kind, alive, content, alloc, malloc0, q, base, inuse, seen, drift>>

Next == \/ TReset \/ TEnd
        \/ TEaInit \/ TEaAppend \/ TEaAppendBig \/ TEaResize \/ TEaShrink \/ TEaTruncate \/ TEaGetSize \/ TEaGet
        \/ TEaExportDup \/ TEaExport \/ TEaDump
        \/ TEqInit \/ TEqAdd \/ TEqDelete \/ TEqGetLen \/ TEqGet \/ TEqDump
        \/ TSmInit \/ TSmAdd \/ TSmGet \/ TSmDelete \/ TSmGetMin \/ TSmDump
        \/ TMpMalloc \/ TMpFree \/ TMpExit
Spec == Init /\ [][Next]_vars
=============================================================================
