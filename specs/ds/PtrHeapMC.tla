----------------------------- MODULE PtrHeapMC -----------------------------
EXTENDS PtrHeap
\* create-from-array: every sequence of distinct elements with every key assignment is an initial state
Perms(S) == {f \in [1..Cardinality(S) -> S] : \A i, j \in 1..Cardinality(S) : i # j => f[i] # f[j]}
InitCreate == \E S \in SUBSET ELEMS : \E es \in Perms(S) : \E k \in [ELEMS -> KEYS] :
                 LET c == CreateResult(es, k) IN heap = c[1] /\ rc = c[2] /\ key = k /\ live = S
SpecCreate == InitCreate /\ [][Next]_vars
=============================================================================
