SPECIFICATION Spec
CONSTANTS IDS = {1, 2, 3, 4}
          TIMES = {0, 1, 2}
INVARIANTS NotLate MinFirst
PROPERTY ReleaseLeast
