---------------------------- MODULE ElasticQueue ----------------------------
(***************************************************************************)
(* datastruct/elasticqueue.c and datastruct/seqptrmap.c.  Abstract state:   *)
(* `q`, the ideal FIFO queue of records, and for the map `base` (the number *)
(* of the record at the head; numbers are issued consecutively from 0).     *)
(* Implementation state: the backing array `arr` (records), `offset`, with  *)
(* the compaction rule of elasticqueue_delete.  A record NULL (0) in the    *)
(* map marks a deleted number.                                              *)
(***************************************************************************)
EXTENDS Naturals, Integers, Sequences
CONSTANTS RECS, MAXLEN
VARIABLES q, arr, offset, base, lastmin
vars == <<q, arr, offset, base, lastmin>>
Init == q = <<>> /\ arr = <<>> /\ offset = 0 /\ base = 0 /\ lastmin = -1
Add(r) == /\ Len(arr) < MAXLEN
          /\ q' = Append(q, r) /\ arr' = Append(arr, r) /\ UNCHANGED <<offset, base, lastmin>>
\* elasticqueue_delete: drop the head; compact when the dead prefix exceeds the live part
DelQ(qq, aa, off) ==
  IF Len(qq) = 0 THEN <<qq, aa, off>>
  ELSE LET off1 == off + 1  len1 == Len(qq) - 1 IN
       IF off1 > len1 THEN <<Tail(qq), SubSeq(aa, off1 + 1, off1 + len1), 0>>
       ELSE <<Tail(qq), aa, off1>>
Delete == LET d == DelQ(q, arr, offset) IN q' = d[1] /\ arr' = d[2] /\ offset' = d[3] /\ UNCHANGED <<base, lastmin>>
\* seqptrmap_delete(i): NULL the slot, then strip leading NULLs
RECURSIVE Strip(_, _, _, _)
Strip(qq, aa, off, b) == IF Len(qq) > 0 /\ qq[1] = 0
                         THEN LET d == DelQ(qq, aa, off) IN Strip(d[1], d[2], d[3], b + 1)
                         ELSE <<qq, aa, off, b>>
MapDelete(i) ==
  IF i < base \/ i - base >= Len(q) THEN UNCHANGED vars
  ELSE LET k == i - base + 1
           q1 == [q EXCEPT ![k] = 0]
           a1 == [arr EXCEPT ![offset + k] = 0]
           s == Strip(q1, a1, offset, base)
       IN q' = s[1] /\ arr' = s[2] /\ offset' = s[3] /\ base' = s[4] /\ UNCHANGED lastmin
Next == \/ \E r \in RECS : Add(r)
        \/ Delete
        \/ \E i \in 0..(base + Len(q)) : MapDelete(i)
Spec == Init /\ [][Next]_vars
\* C12 (queue / map part)
Abstraction == /\ offset + Len(q) = Len(arr)
               /\ \A k \in 1..Len(q) : arr[offset + k] = q[k]           \* same records, first-in-first-out
CompactOK == offset <= Len(q) \/ Len(q) = 0                             \* dead prefix never exceeds the live part
Bound == base + Len(q) <= MAXLEN
=============================================================================
