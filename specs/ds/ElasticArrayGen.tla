--------------------------- MODULE ElasticArrayGen ---------------------------
(* Behaviour generation for the elastic array: ElasticArray's actions with the call history as a ghost. *)
EXTENDS ElasticArray, TLC, Json
CONSTANT DEPTH
VARIABLE hist
gvars == <<content, size, alloc, shrinkFailed, lastrc, hist>>
GInit == Init /\ hist = <<>>
H(op, a, b, d) == [op |-> op, a |-> a, b |-> b, d |-> d]
Obs == \/ \E r \in RECLENS : hist' = Append(hist, H("getsize", r, 0, <<>>))
       \/ \E r \in RECLENS : hist' = Append(hist, H("exportdup", r, 0, <<>>))
       \/ \E r \in RECLENS, p \in 0..3 : hist' = Append(hist, H("get", p, r, <<>>))
GNext == \/ Len(hist) = DEPTH - 1 /\ UNCHANGED vars /\ hist' = Append(hist, H("exportdup", 1, 0, <<>>))
         \/ /\ Len(hist) < DEPTH - 1
            /\ \/ \E r \in RECLENS, k \in 0..3, b \in BYTES :
                    LET d == [i \in 1..(k * r) |-> ((b + i) % 3) + 1] IN
                    EAAppend(d, TRUE) /\ hist' = Append(hist, H("append", r, 0, d))
               \/ \E k \in 0..MAXSIZE, r \in RECLENS : k * r <= MAXSIZE /\ ResizeTo(k * r, TRUE) /\ hist' = Append(hist, H("resize", k, r, <<>>))
               \/ \E k \in 0..4, r \in RECLENS : Shrink(k * r, TRUE) /\ hist' = Append(hist, H("shrink", k, r, <<>>))
               \/ Truncate(TRUE) /\ hist' = Append(hist, H("truncate", 0, 0, <<>>))
               \/ UNCHANGED vars /\ Obs
GSpec == GInit /\ [][GNext]_gvars
Emit == Len(hist) = DEPTH => PrintT(<<"CASE", ToJson(hist)>>)
=============================================================================
