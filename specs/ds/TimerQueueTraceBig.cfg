SPECIFICATION Spec
CONSTANT MAXEL = 4000
POSTCONDITION Accepted
CHECK_DEADLOCK FALSE
