SPECIFICATION Spec
CONSTANTS RECS = {1, 2}
          MAXLEN = 7
INVARIANTS Abstraction CompactOK
CONSTRAINT Bound
