SPECIFICATION GSpec
CONSTANTS BYTES = {1, 2, 3}
          MAXSIZE = 40
          RECLENS = {1, 2, 3, 5}
          FAILS = {TRUE}
          DEPTH = 12
INVARIANTS Emit Refines Capacity Factor4
CHECK_DEADLOCK FALSE
