#!/usr/bin/env python3
"""Records one small execution of the real code per trace specification (selftest/<name>.ndjson) together with a
corruption recipe (selftest/index.json).  `make setup` (tools/selftest.py) then demonstrates that every trace
specification binds: the recorded trace is accepted, the corrupted copy is rejected.  Run by hand when a driver changes."""
import json, os, random, sys
sys.path.insert(0, os.path.dirname(os.path.abspath(__file__)))
import vlib
from checks import c04, c06, c07, c08, c12, c13, c16, c17, c18, cryptogen, evgen

OUT = os.path.join(vlib.VERIF, "selftest")
c = vlib.Check("SELFTEST")
rnd = random.Random(5)
index = {}


def record(name, exe, prog, area, module, cfg, corrupt, maxev=400):
    execs, crashes = vlib.run_programs(exe, [prog], os.path.join(c.dir, name), procs=1, timeout=120)
    assert not crashes and execs[0], (name, crashes)
    ev = execs[0][:maxev]
    with open(os.path.join(OUT, name + ".ndjson"), "w") as f:
        f.write('{"e":"reset"}\n')
        for e in ev:
            f.write(json.dumps(e, separators=(",", ":")) + "\n")
    index[name] = {"area": area, "module": module, "cfg": cfg, "corrupt": corrupt}
    print(name, len(ev), "events")


P = evgen.Prog(2)
s1 = P.slot([], 0); s2 = P.slot(["reg_imm 3 1"], 0); P.next = 4
P.main = ["reg_sock 1 0 R", "reg_timer 2 0 1500", "env 0 1", "run", "run", "run"]
record("events", c04.build(c), P.text(), "events", "EventsTrace", "EventsTrace.cfg", ["drop", "poll"])
record("net", c06.build(c), "prog net\nnfd 1\nmain\n  rx 0 D 3 0 0\n  rx 0 A 0 11 0\n  rx 0 D 4 0 0\n  read 1 0 8 5\n  drain\nendmain\nend\n", "network", "NetTrace", "NetTrace.cfg", ["set", "cb", "n", 6])
record("netbuf", c07.build(c), "prog nb\nscript 1 rc 0\n  peek\n  consume 3\nendscript\nmain\n  rx 0 D 5 0 0\n  rinit\n  wait 1 4\n  winit\n  tx 1 D 100 0 0\n  wwrite 10\n  drain\nendmain\nend\n", "netbuf", "NbTrace", "NbTrace.cfg", ["set", "wait_cb", "status", 1])
s = c08.simple_response(rnd, 1, chunked=True, n=5, nh=2)
s["interim"] = []
record("http", c08.build(c), c08.wellformed(s, rnd, 1), "http", "HttpTrace", "HttpTrace.cfg", ["set", "http_cb", "status", 201])
record("elastic", c12.build(c), c12.ea_prog([("append", 2, [1, 2, 3, 4]), ("getsize", 2), ("shrink", "1", 2), ("exportdup", 1)]), "ds", "ElasticTrace", "ElasticTrace.cfg", ["set", "ea_getsize", "n", 3])
record("getopt", c18.build(c), "prog getopt\n" + c18.line(1, ["-ab", "--foo=v", "op"]) + "\nend\n", "text", "GetoptTrace", "GetoptTrace.cfg", ["set", "go", "label", "2d7a"])
texe = c16.build(c)
record("parsenum", texe, "prog text\npn u8 e6i 0 0 0 255 " + "200".encode().hex() + "\nhs 12345\nhp " + "12 kB".encode().hex() + "\nend\n", "text", "ParsenumTrace", "ParsenumTrace.cfg", ["set", "pn", "val", "77"])
record("codec", texe, "prog text\nb64e 666f6f\nhexe 00ff\nen 32b 3 01020304\njf 62 " + '{"a":[1, 2],"b":3}'.encode().hex() + ' m=[["61",false,5],["62",false,16]]\nend\n', "text", "CodecTrace", "CodecTrace.cfg", ["set", "b64e", "out", "00"])
cexe = cryptogen.build(c, "accel")
lines = ["hash sha256 3,0,4 1 " + bytes(range(7)).hex(), "hmac sha1 0102 5 0102030405", "pbkdf2 70 73 2 33", "crc 3,4 5 " + bytes(range(7)).hex(),
         "aes " + "00" * 16 + " " + "11" * 16, "ctr " + "22" * 16 + " 7 5,11,R9,4 0 " + bytes(range(20)).hex(),
         "dhpub " + "%064x" % 0x1234567890abcdef1122334455667788 + " " + "ab" * 32, "dhsane " + "ff" * 256,
         "sig s3h 86400 4b4559 736563726574 7265 474554 6275636b6574 2f70 none 0", "drbg 5,32 f,f"]
for nm, ev, fld, val in (("crypto_hash", "hash", "digest", "00" * 32), ("crypto_ctr", "ctr", "out", "00" * 20), ("crypto_dh", "dhpub", "out", "00" * 256),
                         ("crypto_sig", "sig", "auth", "00"), ("crypto_drbg", "drbg_read", "out", "00" * 5)):
    record(nm, cexe, "prog crypto\n" + "\n".join(lines) + "\nend\n", "crypto", "CryptoTrace", "CryptoTrace.cfg", ["set", ev, fld, val])
# ipc_sync between two forked processes (extra X01)
iexe = vlib.build(c.dir, "drv_ipc", [os.path.join(vlib.HARNESS, "drv_ipc.c")] + vlib.repo_srcs("util/ipc_sync.c", "util/noeintr.c", "util/warnp.c"))
record("ipc", iexe, "prog ipc\nA wait\nB signal\nA done\nB done\nend\n", "proc", "IpcSyncTrace", "IpcSyncTrace.cfg", ["set", "ret", "rc", -1])
# the diagnostics channel (extra X02)
wexe = vlib.build(c.dir, "drv_warnp", [os.path.join(vlib.HARNESS, f) for f in ("drv_warnp.c", "allocwrap.c")] + vlib.repo_srcs("util/warnp.c"),
                  wraps=["malloc", "calloc", "realloc", "free", "strdup", "syslog", "__syslog_chk", "vsyslog", "closelog"])
record("warnp", wexe, "prog w\nname 2f782f79\nsyslog 1\nwarn 2 1 6d 0\nsyslog 0\nwarnp 0 3 70 5\nend\n", "util", "WarnpTrace", "WarnpTrace.cfg", ["set", "msg", "errno_after", 5])
# readpass in a scripted environment (extra X03)
from checks import x03
rexe = vlib.build(c.dir, "drv_readpass", [os.path.join(vlib.HARNESS, "drv_readpass.c")] + vlib.repo_srcs("util/readpass.c", "util/warnp.c", "util/insecure_memzero.c"), wraps=x03.WRAPS)
record("readpass", rexe, x03.prog(1, 1, 0, 1, 1, 1, 1, b"pw\npx\nqq\nqq\n", [(2, ["INT", "HUP"], "r")]), "util", "ReadpassTrace", "ReadpassTrace.cfg", ["drop", "sigrestore"])
# network_ssl over a scripted engine (extra X04)
from checks import x04
sexe = vlib.build(c.dir, "drv_ssl", [os.path.join(vlib.HARNESS, "drv_ssl.c")] + vlib.repo_srcs(*x04.EV_SRCS), wraps=x04.WRAPS, libs=["-lssl", "-lcrypto"])
record("ssl", sexe, "prog ssl\nrq R D2 D3\nwq W D4\nscript 1 rc 0\n  write 2 4 4\nendscript\nmain\n  open\n  read 1 5 5\n  runk\n  env 3\n  runk\n  runk\n  close\nendmain\nend\n",
       "network", "NetSslTrace", "NetSslTrace.cfg", ["set", "cb", "n", 4])
with open(os.path.join(OUT, "index.json"), "w") as f:
    json.dump(index, f, indent=1, sort_keys=True)
