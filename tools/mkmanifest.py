#!/usr/bin/env python3
"""Writes MANIFEST.json from the table below (one entry per claimed property)."""
import json, os
V = os.path.dirname(os.path.dirname(os.path.abspath(__file__)))
ALL = ["C%02d" % i for i in range(1, 21)]
CHECKS = {
 "C01": dict(
   text="TLC model-checks the buffering and padding logic shared by the three digests for every update partition of every message up to 20 bytes at block size 8 (specs/crypto/HashStream.tla); HMAC (RFC 2104), PBKDF2 (RFC 8018) and the algebraic meaning of CRC32C (polynomial division over GF(2)) are TLA+ definitions (Hash.tla) over the digest primitives; messages of every length 0..130 and around the padding / block boundaries, update partitions (one call, byte-wise, <= 3 cuts at boundary offsets, zero-length updates), alignments 0..15, key lengths 0..131, (salt, c, dkLen) grids and CRC alignments x lengths are run through the real code and TLC validates every digest, byte count, HMAC, derived key and CRC. SHA-256 is also transcribed from FIPS 180-4 in plain TLA+ (Sha256Ref.tla), cross-checked against the primitive on every length 0..200 and used to decide messages up to 200 bytes; very long messages (2^29 bytes and more: the bit counter's carry) are periodic pattern messages whose digest a primitive computes; one-shot HMAC calls are also made with the digest written over the message and over the key.",
   note='SHA-1 and MD5 compression and SHA-256 beyond 200 bytes are JDK primitives (java.security.MessageDigest) behind Java module overrides; everything above them is TLA+.',
   technique='TLA+ functional specification over JDK primitives + TLC model checking of the stateful part + trace validation of every call of the real code',
   design='6/C01'),
 "C02": dict(
   text='TLC model-checks the counter / partial-block logic of AES-CTR (specs/crypto/AesCtrImpl.tla, scaled: every partition of a stream into calls on the portable and the accelerated path yields keystream bytes in block order); AES-CTR itself is the TLA+ definition of AesCtr.tla (keystream block i = AES_k(nonce_be64 || i_be64)); single blocks, streams cut at and around 16-byte boundaries (0-length calls, in place, re-initialisation) and long streams across the 256- and 65536-block counter carries in five call styles are run through the real code and validated by TLC (long streams on windows at the carry offsets). AES itself is also transcribed from FIPS 197 in plain TLA+ (AesRef.tla: S-box from its definition, key expansion, cipher), cross-checked against the primitive and used to decide every single-block call; Apalache proves the counter logic with the real constants (16-byte blocks, counter byte wrapping at 256) inductive for every stream position (AesCtrGeom.tla); caller buffers at every offset from a 16-byte boundary, whole-block runs ending exactly at a carry followed by a tail, and the first AES use of a freshly executed process with the k-th allocation refused are included.',
   note='Keystream blocks of AES-CTR use a JDK primitive (javax.crypto AES/ECB) that is cross-checked against AesRef.tla.',
   technique='TLA+ functional specification over JDK primitives + TLC model checking of the stateful part + trace validation of every call of the real code',
   design='6/C02'),
 "C03": dict(
   text='The C01/C02 specifications and input classes (alignments 0..15, lengths around the 8- and 16-byte thresholds, partitions that switch between accelerated and portable code inside one stream, counter carries) are executed by five builds of the same sources - all features, none, SSE2 only, SSE4.2 only, AES-NI only - each validated by TLC against the same specifications, and all outputs are compared with the portable build. HMAC-SHA256 and PBKDF2 inputs are part of the cross-build set.',
   note='x86-64 host with SHA-NI, SSSE3, SSE2, SSE4.2, AES-NI; ARM paths are not compiled.',
   technique='TLA+ functional specification over JDK primitives + TLC model checking of the stateful part + trace validation of every call of the real code',
   design='6/C03'),
 "C10": dict(
   text="DH.tla defines the public value 2^(2^258+x) mod p and the shared key y^(2^258+x) mod p over a big-integer primitive, with p derived from the RFC 3526 formula; DHMC.tla model-checks agreement and blinding-independence on a small group of the same shape; boundary private, peer and blinding values (blinding scripted by replacing the entropy call at link time), values with leading-zero results and single-bit variations of p for the sanity check are run through the real code and validated by TLC. Also: the key written over the peer's value, p +- 2^k and p +- random for the sanity check, every one of the first 90 bignum allocations of a call refused in turn (failure reported, or the specified value), and calls made with a stale entry in the bignum library's error queue.",
   note='Modular exponentiation is java.math.BigInteger.modPow.',
   technique='TLA+ functional specification over JDK primitives + TLC model checking of the stateful part + trace validation of every call of the real code',
   design='6/C10'),
 "C11": dict(
   text='DrbgMC.tla model-checks the reseed / chunk / failure schedule with an abstract HMAC (no output from an unseeded or stale state; a failing source fails the call); Drbg.tla is SP 800-90A HMAC_DRBG in TLA+ over Hash.tla; request-size sequences (0, 1, 31..33, 65535..65537, 131073, runs across several reseed intervals) with the OS entropy source scripted at the open/read level (short reads, error, EOF, open failure at each of its first requests) are run through the real generator and TLC re-runs every call: byte-exact output, entropy requested exactly when and as much as specified, failure exactly when the source failed. Also: EINTR and failures after a short read, empty requests and requests of several 65536-byte pieces before a reseed point, descriptors closed and re-used by the application between two reseeds, and random bytes asked for by an exit handler registered before the first use.',
   note='SHA-256 compression is a JDK primitive; RDRAND is excluded from the build.',
   technique='TLA+ functional specification over JDK primitives + TLC model checking of the stateful part + trace validation of every call of the real code',
   design='6/C11'),
 "C19": dict(
   text="SigV4.tla is the published Signature Version 4 algorithm (canonical request, string to sign, signing-key chain) for the four documented request shapes, with the timestamp derived from the epoch time by civil-date arithmetic, over Hash.tla's HMAC; requests over the URI-unreserved alphabet (lengths 0..200), printable secrets around the HMAC block size, absent / empty / non-empty bodies, expiry extremes and wrapped time() values at day, leap-day and 2038 boundaries are signed by the real code and every returned hash, timestamp, Authorization header and query string is validated by TLC. A third of the requests repeat the previous one with exactly one argument changed (statelessness across calls), under process time zones west and east of UTC.",
   note='SHA-256 compression is a JDK primitive.',
   technique='TLA+ functional specification over JDK primitives + TLC model checking of the stateful part + trace validation of every call of the real code',
   design='6/C19'),
 "C20": dict(
   text="Life-cycle conformance: every hash / HMAC event carries whether the finalised context is all zero; AES key expansion / free, AES-CTR init / stream / free, DH generate / compute and failing key-file reads run with the secrets registered as byte patterns (big-endian and limb order) which a scanner looks for in every block released through free() and through OpenSSL's allocator at the moment of release, in the all-features and the software build; TLC validates zero = TRUE and tainted = 0 on every event. While a key file is read every release in the process (libc's own included, through the sanitizer's free hook; stdio's buffer exempt) is scanned and every block that received a copy of the secret must be all zero when released; AES-CTR stream objects must be all zero when released (also right after a re-initialisation); Diffie-Hellman error paths are reached by refusing each bignum allocation in turn.",
   note='The scanner (harness/drv_crypto.c) is the observer; only distinctive 8-byte windows are searched; stack copies are out of scope.',
   technique='trace validation of life-cycle events against the TLA+ trace specification, with a free-time memory scanner as observer',
   design='6/C20'),
 "C15": dict(
   text="Hostile-input generation defined by the specifications: TLC enumerates every string of length <= 4/5 over 13 JSON structure characters, every bracketed / Unix-path string of length <= 5/6 over 8 address characters and every candidate encoding of length <= 4 over 14 symbols (CodecGen.tla); the check adds every prefix of valid JSON documents with every key, and structured mutations (nesting to depth 64, strings ending in an escape, corrupted / truncated base-64 and serialised addresses, Unix paths around the 108-byte limit, digit runs to 5000 characters, key / passphrase files with over-long, unterminated and NUL-containing lines, hostile argument vectors). Every input is handed to the real parser in an exact-size heap allocation under ASan/UBSan; TLC validates each call's documented value range (pointer inside [buf, end], outlen <= inlen/4*3, verdict in the documented set) and, where C16-C18 define it, the answer (CodecTrace, ParsenumTrace, GetoptTrace). Key files and passphrase files are also decided semantically (KeyFile.tla), passphrases also arrive through a named pipe, serialised addresses are cut with a consistent length field, member names continue the key with a NUL byte, and abandoned parses inside option packs are followed by optreset.",
   note='The memory-safety verdict itself comes from ASan/UBSan on the generated executions (observed, not proved); termination by per-run timeouts; no host-name address forms; JSON depth <= 64.',
   technique='TLA+-defined hostile input spaces enumerated by TLC + sanitizer-instrumented replay + trace validation of value ranges against the TLA+ specs',
   design='6/C15'),
 "C17": dict(
   text='RFC 4648 base-64 (encode, decode, exact well-formedness), hexadecimal and the big-/little-endian byte orders are TLA+ definitions (specs/text/Codec.tla); TLC enumerates every byte string of length <= 4 over 7 byte values and every candidate encoding of length <= 4 over 14 symbols, all of which (plus random longer strings with a corrupted and a truncated encoding each, every width / order / buffer offset 0..15 of the endian routines, numeric IPv4 / IPv6 and Unix-path addresses with print-resolve, serialise-deserialise and duplicate round trips, and generated valid JSON objects with escapes, \\u names and white space everywhere) are run through the real code; TLC validates every call against the definitions (acceptance exact; JSON: first top-level member whose decoded name equals the key, \\u names never match). Every byte value is tried at several positions of base-64 / hex text; JSON member names include proper prefixes and escape-extended variants of other names.',
   note="Address literals -> bytes by Python's ipaddress module and the JSON generator's own member list are the encoder side of the oracle; numeric addresses only.",
   technique='TLA+ functional specification + exhaustive enumeration of small input spaces by TLC + trace validation of every call',
   design='6/C17'),
 "C16": dict(
   text="The verdict of PARSENUM / PARSENUM_EX is a TLA+ definition (specs/text/Parsenum.tla over BigNat.tla: grammar per base, exact natural-number value, in-bounds-and-in-type test, EINVAL / ERANGE); floats (ParsenumFloat.tla: the numeral as an exact rational, result within half a unit in the last place) and sizes (Humansize.tla: language and truncating 2-3 digit format) likewise. TLC enumerates the complete structured numeral space (white space x sign x base prefix x digit class at the type limits and at the requested bounds +/- 1 x trailing junk x trailing flag x base x bounds shape x target type); every point is concretised and parsed by every applicable macro form with intmax_t and uintmax_t bounds, together with float/double numerals, sizes at every power of 1000 +/- 1 and the token-pair language of humansize_parse; TLC validates every call's verdict and value against the specification. White space classes include vertical tab and form feed on their own.",
   note='Bounds for signed targets lie inside the target type; floats in the normal range, C locale; big-integer arithmetic for floats and sizes through java.math.BigInteger (integers in pure TLA+).',
   technique='TLA+ functional specification + exhaustive enumeration of the structured input space by TLC + trace validation of every call',
   design='6/C16'),
 "C18": dict(
   text='The option grammar of util/getopt.h is a TLA+ step function (specs/text/Getopt.tla: one getopt() call per step). TLC enumerates every argument vector of length <= 3 over a 33-token alphabet for three option tables (with / without a missing-argument handler), checking that the grammar is well defined, and prints all of them; the real parser processes every one after an optreset that follows a different vector, plus random vectors to length 8, parses abandoned after 0..3 options and parses that are the first of a fresh process; TLC validates every getopt() call (option, argument, default / missing path) and the final operand index against the grammar.',
   note='Bounded enumeration (length <= 3 exhaustively; to 8 sampled); three compiled option tables; warnings disabled (opterr = 0).',
   technique='TLA+ grammar specification, exhaustive enumeration of inputs by TLC, trace validation of every parser call against the spec',
   design='6/C18'),
 "C08": dict(
   text='TLC model-checks the request life cycle against every transport outcome (specs/http/HttpAbs.tla: at most one callback, none after cancel, body within the limit, oversize shape, the bound addbody relies on) and generates the structures of well-formed responses from the grammar in HttpGen.tla (1xx interim blocks shorter and longer than the final header block, three framings, chunk plans up to above the 1 MiB wait cap, optional-whitespace forms, body sizes at/below/above the limit); these are concretised to bytes and, together with structured hostile mutations (bad/huge/negative/whitespace chunk sizes, missing CRLF, NUL bytes, >64 KiB headers, 1xx floods, buffer-edge alignment of empty lines, truncation, bit flips), sent under many segmentations (down to single bytes, EAGAIN/EINTR noise, EOF/error/stall endings, connection plans, cancellation instants) to the real http.c stack in a forked ASan/UBSan/LSan child on scripted sockets; TLC validates every trace against HttpTrace.tla, whose Decode operator is the C09 oracle and whose other guards are the C08 clauses (one callback, status range, body limit, oversize shape, no leak, request bytes verbatim). Process options (warnings to syslog, a callback that returns non-zero after releasing the body) and connection plans ending in an asynchronous refusal are part of the programs; the request structure and its strings are released right after the call.',
   note='Memory safety is observed by the sanitizers on the executions the specification generates (not proved); limits below 2^31; at most 450 interim responses / 1500 chunks per response; the Python concretiser is the encoder side of the oracle.',
   technique='TLA+ model checking (TLC) of the life cycle + TLC-generated response structures replayed into the real code + trace validation against the TLA+ spec',
   design='6/C08'),
 "C09": dict(
   text='TLC model-checks the request life cycle against every transport outcome (specs/http/HttpAbs.tla: at most one callback, none after cancel, body within the limit, oversize shape, the bound addbody relies on) and generates the structures of well-formed responses from the grammar in HttpGen.tla (1xx interim blocks shorter and longer than the final header block, three framings, chunk plans up to above the 1 MiB wait cap, optional-whitespace forms, body sizes at/below/above the limit); these are concretised to bytes and, together with structured hostile mutations (bad/huge/negative/whitespace chunk sizes, missing CRLF, NUL bytes, >64 KiB headers, 1xx floods, buffer-edge alignment of empty lines, truncation, bit flips), sent under many segmentations (down to single bytes, EAGAIN/EINTR noise, EOF/error/stall endings, connection plans, cancellation instants) to the real http.c stack in a forked ASan/UBSan/LSan child on scripted sockets; TLC validates every trace against HttpTrace.tla, whose Decode operator is the C09 oracle and whose other guards are the C08 clauses (one callback, status range, body limit, oversize shape, no leak, request bytes verbatim). Header names that begin like a framing header, Content-Length values with leading zeros and header values ending in bytes >= 0x80 are generated.',
   note="Same machinery as C08 with the emphasis on well-formed responses (Decode oracle) and an independent seed; header blocks below the client's documented 64 KiB limit.",
   technique='TLA+ model checking (TLC) of the life cycle + TLC-generated response structures replayed into the real code + trace validation against the TLA+ spec',
   design='6/C09'),
 "C07": dict(
   text="Exhaustive TLC model checking of the reader's window arithmetic (specs/netbuf/NbReadImpl.tla: growth, compaction, one read in flight credited at once, re-arm, cancel; every fragmentation and wait/consume/cancel order over a scaled buffer of 4) and of the writer's queue (NbWriteImpl.tla: coalescing, one write in flight, sticky failure; every accept fragmentation and failure point); behaviours simulated from both models are scaled by 1024 to the real 4096-byte buffers and, together with seeded random programs (waits from 1 to 5x4096 started from callbacks and from outside, cancel at arbitrary instants, write/reserve/consume sizes 0..3x4096, EAGAIN/EINTR/EOF/error positions), executed by the real netbuf/network/events code on scripted sockets; every trace is validated by TLC against NbTrace.tla (window content = peer stream from the first unconsumed byte, status clauses, prefix property of the writer, single failure callback). Apalache proves the reader's window arithmetic (Geometry, ReadFits, Accounting, Progress) inductive for every buffer size, wait length and segment size (NbReadGeom.tla).",
   note='Assumes the application does not consume while a wait is pending; scripted sockets are the trusted environment; no SSL function pointers.',
   technique='TLA+ model checking (TLC) + behaviours generated from the TLA+ models replayed into the real code + trace validation against the TLA+ spec',
   design='6/C07'),
 "C06": dict(
   text='Fault-sequence enumeration by TLC model checking: NetRW.tla enumerates every kernel answer sequence (data 1..4, EAGAIN, EINTR, EOF, hard error, every cancellation instant) of length <= 4 (5 thorough) for every (buflen <= 4, min) pair, NetConnect.tla every outcome plan of <= 3 addresses over 8 outcomes with and without per-address timeout and every cancellation instant; the design-level invariants (exactly one callback, range, EOF/error, first connected, losers closed) are checked on all of them and ALL enumerated cases are replayed against the real network_*.c on the real event loop with scripted sockets; plus seeded random long programs (64 KiB buffers, back-to-back requests from callbacks, concurrent read+write, accept scripts). Every trace is validated by TLC against NetTrace.tla. Timeouts are handed over in memory that is released right after the call.',
   note='Kernel answers come from the scripted-socket layer (trusted environment model); getsockopt itself never fails; numeric addresses only.',
   technique='TLA+ model checking (TLC) as exhaustive fault-sequence enumerator + trace validation against the TLA+ spec',
   design='6/C06'),
 "C04": dict(
   text="Exhaustive TLC model checking of the implementation-shaped model of the loop (specs/events/EventsImpl.tla: poll-array compaction, scan position, 32 immediate queues, timer set, calls from inside callbacks; every program and schedule inside the bound; the six invariants of events_network.c's comment block and the abstract guards of the property as ghost checks; the model with revents clearing switched off is required to fail). Programs are derived from that model by TLC: a shortest behaviour reaching each of 34 implementation situations (model checking for reachability) and thousands of simulated behaviours selected by situation-pair coverage; together with seeded random programs (nested callback scripts, 24.8-day timers, hundreds of descriptors) they are executed by the real events_*.c on a fake kernel (poll and clock interposed) and every execution is validated by TLC against the abstract trace specification EventsTrace.tla, each guard of which is one clause of the statement. Programs with 12..70 pending timers (ties, cancels and resets from inside callbacks) and single timers around INT_MAX milliseconds are included; the array given to poll is compared with the registered directions (implementation-level drift report).",
   note='Exhaustive only inside the MC constants (2 descriptors, <= 4 registrations, <= 5 calls); fake kernel is the trusted environment model (faithful POSIX poll semantics, single-threaded); EINTR from poll not simulated.',
   technique='TLA+ model checking (TLC) + TLC-derived programs replayed into the real code + trace validation against the TLA+ spec',
   design='6/C04'),
 "C05": dict(
   text="Exhaustive TLC model checking of the implementation-shaped model of the loop (specs/events/EventsImpl.tla: poll-array compaction, scan position, 32 immediate queues, timer set, calls from inside callbacks; every program and schedule inside the bound; the six invariants of events_network.c's comment block and the abstract guards of the property as ghost checks; the model with revents clearing switched off is required to fail). Programs are derived from that model by TLC: a shortest behaviour reaching each of 34 implementation situations (model checking for reachability) and thousands of simulated behaviours selected by situation-pair coverage; together with seeded random programs (nested callback scripts, 24.8-day timers, hundreds of descriptors) they are executed by the real events_*.c on a fake kernel (poll and clock interposed) and every execution is validated by TLC against the abstract trace specification EventsTrace.tla, each guard of which is one clause of the statement.",
   note='Same machinery as C04 with an independent seed; the order, progress, timeout and status clauses are guards of EventsTrace.tla (CbEnter, Poll, RunRet).',
   technique='TLA+ model checking (TLC) + TLC-derived programs replayed into the real code + trace validation against the TLA+ spec',
   design='6/C05'),
 "C12": dict(
   text="Exhaustive TLC model checking of the array sizing policy with every realloc outcome (specs/ds/ElasticArray.tla: contents, capacity, factor-4 bound, failure leaves the array unchanged) and of the queue/map compaction rule (ElasticQueue.tla); programs generated by TLC simulation of those specifications plus seeded random programs (mixed record sizes, overflowing products, export, deletes in any order, 10^4 records, forked object-pool runs exiting through exit()) are executed by the real code and every trace is validated by TLC against the ideal array/queue/map/pool (ElasticTrace.tla); thorough adds the unbounded inductive invariant of the sizing policy in Apalache. Pool objects may be handed back by application exit handlers registered in the middle of the pool's use.",
   note='Exhaustive only inside the MC constants; storage clause observed by ASan on the executions the specification generates; allocation sizes observed through the allocation wrapper.',
   technique='TLA+ model checking (TLC) + trace validation of real executions against the TLA+ spec',
   design='6/C12'),
 "C14": dict(
   text='Fault enumeration driven by the specifications: for every base scenario (containers, heap, timer queue, object pool; event/I-O scenarios are added as their drivers land) the k-th library allocation fails for every k the scenario reaches, once and persistently; the run continues, releases everything and reports the live set; TLC validates every trace against the abstract specifications whose failure actions demand the documented failure value only when the allocator refused, UNCHANGED abstract state, success of cannot-fail operations, and no leak. ElasticArray.tla is model-checked exhaustively with every realloc outcome (FailUnchanged). Refused allocation indices are spread over the whole scenario (first, last and sampled middle ones), scenarios with 17 / 33 / 65 descriptors and interim responses with header lines get every index; two open known findings (F11, F12).',
   note='Failures are injected at malloc/calloc/realloc referenced from library objects (link-time wrap); k is capped per scenario (reported in evidence).',
   technique='TLA+ model checking (TLC) of *Fail actions + exhaustive-in-k fault injection with trace validation against the TLA+ spec',
   design='6/C14'),
 "C13": dict(
   text='Exhaustive TLC model checking of the heap algorithm (specs/ds/PtrHeap.tla: every history over 5-6 elements with duplicate keys, create-from-array from every array) and of the timer queue on top of it; then programs generated by TLC simulation of the same specification and seeded random programs (up to 3000 entries) are executed by the real ptrheap.c/timerqueue.c and every execution is validated by TLC against the abstract trace specification (least element, handle identity, release order, drain equals model). Also heaps made without the record-cookie callback, mid-size heaps with deletions by handle in the middle, and timer-queue times up to 2^31 seconds apart.',
   note="Bounded: exhaustive only for the stated constants; beyond them sampled. Trusted: TLC, gcc sanitizers, the driver's bookkeeping of what it inserted.",
   technique='TLA+ model checking (TLC) + trace validation of real executions against the TLA+ spec',
   design='6/C13'),
}
# what the last session added to each check (appended to the texts above)
ADDED = {
 "C01": "Every hash, HMAC and CRC context is moved to a fresh block between any two updates (the old block poisoned and released) and read through a finalised copy: the digest of each prefix is checked too.",
 "C02": "One stream object is re-keyed with keys of alternating lengths expanded at the address of the key just released (a recycling allocator mode of the harness).",
 "C05": "Interrupt requests also arrive from a signal handler while the loop is inside the first poll of a run (as poll returns, or interrupting its sleep with EINTR): nothing more is dispatched in that run and everything stays registered.",
 "C06": "NetConnect.tla distinguishes no / short / zero per-address timeouts; single reads and writes of 1 MiB and more (and the neighbours of the power of two) with every minimum.",
 "C07": "Single buffered writes of 64 KiB .. 4 MiB; every fourth program runs over the TLS transport (netbuf_ssl over network_ssl with a scripted engine whose plaintext side is the same scripted socket).",
 "C08": "Every fourth scenario runs over the TLS transport (https_request: netbuf_ssl and network_ssl under http.c, scripted engine); this is how defect F13 (use of the TLS context after a callback closed it) was found and is kept from returning.",
 "C09": "Every fourth scenario runs over the TLS transport (https_request: netbuf_ssl and network_ssl under http.c, scripted engine).",
 "C13": "Timer-queue programs place time zero anywhere in the time scale (times before it have a negative tv_sec).",
 "C14": "HTTP and buffered reader / writer scenarios over the TLS transport are fault-enumerated as well (defect F14: a request that could not be started stayed recorded in the TLS context); directed connection lists whose first addresses fail exercise the retry inside network_connect at every allocation.",
 "C16": "The string, base and trailing arguments of the macros are expressions with side effects (`*sp++`): each must be evaluated exactly once.",
 "C17": "The deserialised copy, the duplicate and a duplicate of the duplicate of every address are printed too and must print as the original.",
 "C18": "Tokens with bytes above 0x7f (0xff, 0x80, 0xfe as option characters, in packs, as arguments).",
 "C19": "An absent body is also passed with a left-over length argument.",
}
REASON_PENDING = "check under construction in this session (specification and harness not committed yet); see DESIGN.md section 6 for the planned decision procedure"

def main():
    checks = []
    for pid in ALL:
        if pid not in CHECKS:
            continue
        c = CHECKS[pid]
        checks.append({
            "property_id": pid,
            "quick_cmd": "bin/check %s --tier quick" % pid,
            "thorough_cmd": "bin/check %s --tier thorough" % pid,
            "evidence_file": "evidence/%s.json" % pid,
            "replay_cmd_template": "bin/check %s --replay {path}" % pid,
            "engine": "tlc+harness",
            "level_claimed": {"category": "model_checking", "text": c["text"] + (" " + ADDED[pid] if pid in ADDED else ""), "design_ref": "DESIGN.md section " + c["design"]},
            "level_note": c["note"],
            "technique": c["technique"],
        })
    m = {
        "version": 1,
        "setup_cmd": "make -C /verif setup",
        "hooks": {"guard": "TARSNAP_LIBCPERCIVA_VERIF",
                  "enable": "every harness build passes -DTARSNAP_LIBCPERCIVA_VERIF; no source hook is needed (state is observed through the public API, public context structs and link-time interposition with -Wl,--wrap)",
                  "baseline_off_cmd": "cd /repo && make all && make test",
                  "source_commits": [], "add_only": True},
        "engines": [{"name": "tlc+harness", "path": "bin/check",
                     "serves_properties": sorted(CHECKS),
                     "kind_free_text": "explicit TLA+ specifications checked by TLC (exhaustive MC), behaviours generated from them replayed into the real code, and traces of the real code validated against them (Json/IOUtils trace specs, Java overrides for hash/AES/bignum primitives)"}],
        "checks": checks,
        "not_applicable": [{"property_id": p, "reason": REASON_PENDING} for p in ALL if p not in CHECKS],
        "notes": "All checks: exit 0 held / 1 violation (VIOLATION line) / 2 tool failure. See DESIGN.md.",
    }
    with open(os.path.join(V, "MANIFEST.json"), "w") as f:
        json.dump(m, f, indent=1)
        f.write("\n")

if __name__ == "__main__":
    main()
