#!/usr/bin/env python3
"""mkmut.py <name> <repo-relative file> <old> <new> [count]: write mutants/<name>.patch replacing old by new in a copy of the file"""
import difflib, sys
name, rel, old, new = sys.argv[1:5]
src = open("/repo/" + rel).read()
assert old in src, "pattern not found"
dst = src.replace(old, new, int(sys.argv[5]) if len(sys.argv) > 5 else 1)
d = difflib.unified_diff(src.splitlines(True), dst.splitlines(True), "a/" + rel, "b/" + rel)
open("/verif/mutants/%s.patch" % name, "w").write("".join(d))
print("wrote mutants/%s.patch" % name)
