#!/usr/bin/env python3
"""regenerate the table of seeded changes in DESIGN.md (between the seedtable markers) from seeded/*/meta.json"""
import json, os, re
V = os.path.dirname(os.path.dirname(os.path.abspath(__file__)))
rows = ["| seeded change | detected by | how |", "|---|---|---|"]
for sid in sorted(os.listdir(os.path.join(V, "seeded"))):
    if not os.path.isdir(os.path.join(V, "seeded", sid)):
        continue
    m = json.load(open(os.path.join(V, "seeded", sid, "meta.json")))
    rows.append("| %s | %s | %s |" % (sid, m["caught_by"], m["how_caught"].replace("|", "/")))
p = os.path.join(V, "DESIGN.md")
s = open(p).read()
s = re.sub(r"<!-- seedtable:begin -->.*<!-- seedtable:end -->", lambda _: "<!-- seedtable:begin -->\n" + "\n".join(rows) + "\n<!-- seedtable:end -->", s, flags=re.S)
open(p, "w").write(s)
