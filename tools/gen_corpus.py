#!/usr/bin/env python3
"""Trap-directed generation for the event loop: for every implementation situation (tag) of EventsImpl.tla, TLC
model-checks the invariant "this situation is never reached" (breadth-first, history hidden by a VIEW) and prints a
shortest behaviour reaching it.  The behaviours are stored in specs/events/trap_corpus.json together with the hash of
the specification they were derived from; checks replay them into the real code (tools/checks/c04.py)."""
import concurrent.futures, hashlib, json, os, sys
sys.path.insert(0, os.path.dirname(os.path.abspath(__file__)))
import vlib

SD = os.path.join(vlib.SPECS, "events")
TAGS = ['cancel_clear_pending_rev', 'cancel_compact_move', 'cancel_compact_move_pending', 'cancel_compact_top', 'cancel_imm',
        'cancel_in_cb', 'cancel_shrinks_to_scan', 'cancel_slot_survives', 'cancel_timer', 'clear_pending_rev', 'compact_move',
        'compact_move_pending', 'compact_top', 'eexist', 'enoent', 'found_by_repoll', 'hup_both', 'hup_one', 'imm_first', 'imm_in_cb',
        'interrupt', 'nonzero_rc', 'reg_in_cb', 'reg_in_cb_on_unscanned_slot', 'reg_on_slot_with_pending_rev',
        'rereg_after_cancel_pending_unscanned', 'reset', 'reset_in_cb', 'scan_cut_short', 'slept_to_timer', 'slot_survives',
        'timer_fired', 'timer_in_cb', 'woken_by_fd']


def spec_sha():
    h = hashlib.sha256()
    for f in ("EventsImpl.tla", "EventsGen.tla", "EventsTrap.cfg.tmpl"):
        h.update(open(os.path.join(SD, f), "rb").read())
    return h.hexdigest()


def one(tag, timeout, outdir):
    cfg = os.path.join(outdir, "trap_%s.cfg" % tag)
    with open(cfg, "w") as f:
        f.write(open(os.path.join(SD, "EventsTrap.cfg.tmpl")).read().replace("@TRAP@", tag))
    r, cases = vlib.tlc_emit(SD, "EventsGen", cfg, workers=2, timeout=timeout, xmx="6g", tag="trap_" + tag)
    return tag, (cases[0] if cases else None), r.distinct, r.generated, round(r.wall, 1)


def generate(tags=TAGS, timeout=150, par=8, outdir=None):
    outdir = outdir or os.path.join(vlib.BUILD, "traps")
    os.makedirs(outdir, exist_ok=True)
    res = {}
    stats = {"states": 0, "transitions": 0}
    with concurrent.futures.ThreadPoolExecutor(max_workers=par) as ex:
        for tag, case, d, g, w in ex.map(lambda t: one(t, timeout, outdir), tags):
            res[tag] = case
            stats["states"] += d
            stats["transitions"] += g
            vlib.log("trap %-40s %s (%d states, %.0fs)" % (tag, "reached" if case else "NOT reached", d, w))
    return res, stats


if __name__ == "__main__":
    t = int(sys.argv[1]) if len(sys.argv) > 1 else 150
    res, stats = generate(timeout=t)
    with open(os.path.join(SD, "trap_corpus.json"), "w") as f:
        json.dump({"spec_sha": spec_sha(), "stats": stats, "traps": res}, f, indent=0, sort_keys=True)
    print("reached %d of %d" % (sum(1 for v in res.values() if v), len(res)))
