#!/usr/bin/env python3
"""seedsweep.py [-j N] [id ...] : run, for every seeded change (default: all of seeded/), the check named first in its
meta.json "caught_by" against a scratch copy of /repo with the change applied (tools/mutcheck.sh); prints one line per change
and exits 1 if any change is not detected."""
import sys, os, json, re, subprocess, concurrent.futures
V = os.path.dirname(os.path.dirname(os.path.abspath(__file__)))
args = sys.argv[1:]
n = 3
if args[:1] == ["-j"]:
    n = int(args[1]); args = args[2:]
ids = args or sorted(os.listdir(os.path.join(V, "seeded")))
os.makedirs(os.path.join(V, "build", "seedsweep"), exist_ok=True)


def one(sid):
    d = os.path.join(V, "seeded", sid)
    meta = json.load(open(os.path.join(d, "meta.json")))
    patch = os.path.join(d, "patch-rebased.diff") if os.path.exists(os.path.join(d, "patch-rebased.diff")) else os.path.join(d, "patch.diff")
    res = []
    for chk in [x.strip() for x in re.split(r"[,/ ]+", meta["caught_by"]) if re.fullmatch(r"[CX]\d\d", x.strip())][:int(os.environ.get("SWEEP_CHECKS", "1"))]:
        log = os.path.join(V, "build", "seedsweep", "%s.%s.log" % (sid, chk))
        with open(log, "w") as f:
            subprocess.run([os.path.join(V, "tools", "mutcheck.sh"), patch, chk, "quick"], stdout=f, stderr=subprocess.STDOUT,
                           env=dict(os.environ, TAILN="30"))
        txt = open(log).read()
        v = len(re.findall(r"^VIOLATION", txt, re.M))
        ok = re.search(r"^OK property", txt, re.M) is not None
        res.append((chk, v, "detected" if v else ("MISSED" if ok else "TOOL-FAILURE")))
    return sid, res


bad = 0
with concurrent.futures.ThreadPoolExecutor(max_workers=n) as ex:
    for sid, res in ex.map(one, ids):
        for chk, v, verdict in res:
            print("%-7s %-4s %-12s violations=%d" % (sid, chk, verdict, v), flush=True)
            bad += verdict != "detected"
sys.exit(1 if bad else 0)
