"""C02 — AES and AES-CTR: specs/crypto/AesCtrImpl.tla (MC of the counter/partial-block logic), AesCtr.tla, CryptoTrace.tla"""
import random
import vlib
from checks import cryptogen as g


def model_checks(c):
    c.add_mc("AesCtrImpl (scaled: block 2, counter byte wraps at 3; every partition of <= 16 bytes into calls, portable and accelerated path)",
             vlib.tlc(g.SD, "AesCtrImpl", "AesCtrImplMC.cfg", workers=4, timeout=600, coverage=True))
    c.add_mc("AesRefMC (FIPS 197 in plain TLA+, S-box = its definition on all 256 bytes, = JDK AES on the appendix C vectors and 202 pattern keys/blocks)",
             vlib.tlc(g.SD, "AesRefMC", workers=2, timeout=600))
    c.cov["exhaustive"] = True
    vlib.apalache_inductive(c, g.SD, "AesCtrGeom", (["--init=Init", "--inv=IndInv", "--length=0"], ["--init=IndInit", "--inv=IndInv", "--length=1"]),
                            "AES-CTR counter logic with the real constants (16-byte blocks, counter byte wrapping at 256): keystream bytes taken in block order and "
                            "the encoded counter consistent with the position, for every stream position and mix of portable / accelerated steps")


def main(c):
    rnd = random.Random(c.seed)
    exe = g.build(c, "accel")
    model_checks(c)
    lines = g.aesfresh_lines(rnd) + g.aes_lines(rnd, c.pick(400, 10000)) + g.ctr_lines(rnd, c.pick(1200, 30000), c.pick(6, 40))
    c.cov["calls"] = len(lines)
    g.run(c, exe, lines, "aes")
    c.cov["rule"] = ("AES-128/256 single blocks (zero, all-ones, random keys and blocks); AES-CTR streams of length 0..512 cut at and around 16-byte boundaries with "
                     "0-length calls, in place or not, nonces 0 / 1 / 2^64-1 / random, re-initialisation in the middle; long streams (4 KiB, 64 KiB, 1 MiB + change) "
                     "that carry the block counter across byte boundaries, cut as one call / tiny calls / sub-block pieces around the carry offsets / the "
                     "5, 11+256 blocks, 5 pattern; every call validated by TLC against AES_k(nonce_be64 || index_be64) (JDK AES primitive), long streams on "
                     "48-byte windows at the carry offsets and the end; an execution = 200 calls")
    c.cov["trusted_base"] = ["TLC", "JDK AES/ECB (keystream blocks; cross-checked against AesRef.tla, which decides the single-block calls)", "gcc ASan/UBSan"]
