"""C01 — digests, HMAC, PBKDF2, CRC32C: specs/crypto/HashStream.tla (MC), Hash.tla (definitions), CryptoTrace.tla, harness/drv_crypto.c"""
import random
import vlib
from checks import cryptogen as g


def main(c):
    rnd = random.Random(c.seed)
    exe = g.build(c, "accel")
    c.add_mc("HashStream (block 8, every update partition of every message of length <= 20: buffering and padding)",
             vlib.tlc(g.SD, "HashStream", "HashStreamMC.cfg", workers=4, timeout=600, coverage=True))
    c.add_mc("Sha256RefMC (FIPS 180-4 in plain TLA+ = JDK SHA-256 on every length 0..200 x 3 patterns and the FIPS examples)",
             vlib.tlc(g.SD, "Sha256RefMC", workers=2, timeout=600))
    c.cov["exhaustive"] = True
    lines = g.hash_lines(rnd, c.pick(600, 30000)) + g.hmac_lines(rnd, c.pick(300, 10000)) + g.pbkdf2_lines(rnd, c.pick(50, 2000)) + g.crc_lines(rnd, c.pick(300, 10000))
    # very long messages: the bit counter of a context carries into its high word at 2^29 bytes (MD5 and SHA-1 keep two 32-bit words)
    for alg in ("md5", "sha1", "sha256"):
        for n in c.pick([2 ** 29 + 12345], [2 ** 29 - 1, 2 ** 29, 2 ** 29 + 12345, 2 ** 30 + 7]):
            lines.append("hashbig %s %d %d" % (alg, n, rnd.choice([1048573, 1000003, 65536, 99991])))
    c.cov["calls"] = len(lines)
    g.run(c, exe, lines, "hash")
    c.cov["rule"] = ("messages of every length 0..130 and around 55/56/63/64/119/120-byte boundaries (plus 4 KiB and 70 kB), every algorithm, update partitions = one call, "
                     "byte-wise, and <= 3 cuts at boundary offsets (with zero-length updates), buffer alignments 0..15; HMAC key lengths 0..131 and 200; PBKDF2 over "
                     "(salt length incl. 59/60/61, c <= 20, dkLen in {1,31,32,33,64,65,100}); CRC32C alignments 0..15 x lengths 0..40; every call validated by TLC: "
                     "digest = the specified function (JDK primitive), streaming = one-shot, byte counts, HMAC / PBKDF2 / CRC per their TLA+ definitions; "
                     "an execution = 1500 calls; distinct = SHA-256 of program")
    c.cov["trusted_base"] = ["TLC", "JDK MessageDigest (SHA-1, MD5; SHA-256 only beyond 200 bytes, cross-checked against Sha256Ref.tla)", "gcc ASan/UBSan"]
