"""C12 — elastic array / queue, sequential map, object pool: specs/ds/Elastic*.tla, harness/drv_ds.c"""
import os, random
import vlib

SD = os.path.join(vlib.SPECS, "ds")
WRAPS = ["malloc", "calloc", "realloc", "free"]


def build(c):
    srcs = [os.path.join(vlib.HARNESS, f) for f in ("drv_ds.c", "allocwrap.c")] + vlib.repo_srcs(
        "datastruct/elasticarray.c", "datastruct/elasticqueue.c", "datastruct/seqptrmap.c")
    return vlib.build(c.dir, "drv_ds", srcs, wraps=WRAPS)


def hexs(bs):
    return "".join("%02x" % b for b in bs)


def ea_prog(ops, init=(0, 1), fail=None):
    L = ["prog ea"]
    if fail:
        L.append("fail %d %s" % fail)
    if (len(ops) + init[0]) % 2:
        L.append("typed")        # every other program uses the typed wrappers (ELASTICARRAY_DECL) for record sizes 1, 3, 4 and 12
    L.append("init %d %d" % init)
    for o in ops:
        k = o[0]
        if k == "append":
            L.append("append %d %s" % (o[1], hexs(o[2])))
        elif k in ("resize", "shrink"):
            L.append("%s %s %d" % (k, o[1], o[2]))
        elif k == "appendbig":
            L.append("appendbig %d %d" % (o[1], o[2]))
        elif k == "truncate":
            L.append("truncate")
        elif k in ("getsize", "exportdup", "export"):
            L.append("%s %d" % (k, o[1]))
        elif k == "get":
            L.append("get %d %d" % (o[1], o[2]))
    L.append("end")
    return "\n".join(L) + "\n"


def ea_from_tlc(h):
    ops = []
    for s in h:
        op = s["op"]
        if op == "append":
            ops.append(("append", s["a"], [17 * x for x in s["d"]]))
        elif op in ("resize", "shrink"):
            ops.append((op, str(s["a"]), s["b"]))
        elif op == "truncate":
            ops.append(("truncate",))
        elif op in ("getsize", "exportdup"):
            ops.append((op, s["a"]))
        elif op == "get":
            ops.append(("get", s["a"], s["b"]))
    return ops


def rand_ea(rnd, nops, maxrec, big=False):
    ops = []
    for _ in range(nops):
        r = rnd.choice([1, 1, 2, 3, 4, 7, 8, 12, 16])
        k = rnd.choice(["append"] * 4 + ["resize", "shrink", "shrink", "truncate", "getsize", "get", "exportdup", "appendbig", "bigresize", "bigshrink"])
        if k == "append":
            n = rnd.choice([0, 1, 1, 2, 3, rnd.randint(0, maxrec)])
            ops.append(("append", r, [rnd.randrange(256) for _ in range(n * r)]))
        elif k == "resize":
            ops.append(("resize", str(rnd.randint(0, maxrec)), r))
        elif k == "shrink":
            ops.append(("shrink", str(rnd.choice([0, 1, 2, rnd.randint(0, maxrec), 10 ** 6])), r))
        elif k == "appendbig":
            ops.append(("appendbig", rnd.randint(0, 1), r))
        elif k == "bigresize":
            ops.append(("resize", "big", r))
        elif k == "bigshrink":
            ops.append(("shrink", "big", r))
        elif k == "get":
            ops.append(("get", rnd.randint(0, maxrec), r))
        elif k == "truncate":
            ops.append(("truncate",))
        else:
            ops.append((k, r))
    if rnd.random() < 0.3:
        ops.append(("export", rnd.choice([1, 2, 3, 4, 12])))
    return ea_prog(ops, init=(rnd.choice([0, 0, 1, 5, rnd.randint(0, maxrec)]), rnd.choice([1, 2, 8])))


def eq_prog(ops, reclen, fail=None):
    L = ["prog eq"]
    if fail:
        L.append("fail %d %s" % fail)
    L.append("qinit %d" % reclen)
    for o in ops:
        if o[0] == "add":
            L.append("qadd " + hexs([(o[1] * 31 + j) % 256 for j in range(reclen)]))
        elif o[0] == "delete":
            L.append("qdelete")
        elif o[0] == "get":
            L.append("qget %d" % o[1])
        else:
            L.append("qgetlen")
    L.append("end")
    return "\n".join(L) + "\n"


def sm_prog(ops, fail=None):
    L = ["prog sm"]
    if fail:
        L.append("fail %d %s" % fail)
    for o in ops:
        if o[0] == "add":
            L.append("sadd %d" % o[1])
        elif o[0] == "delete":
            L.append("sdelete %d" % o[1])
        elif o[0] == "get":
            L.append("sget %d" % o[1])
        else:
            L.append("sgetmin")
    L.append("end")
    return "\n".join(L) + "\n"


def rand_q(rnd, nops, mode):
    ops, issued, live = [], 0, 0
    for _ in range(nops):
        k = rnd.choice(["add"] * 5 + ["delete"] * 4 + ["get", "get", "getmin"])
        if k == "add":
            ops.append(("add", rnd.randint(1, 4000)))
            issued += 1
        elif k == "delete":
            ops.append(("delete", rnd.choice([max(0, issued - rnd.randint(0, 12)), rnd.randint(-2, issued + 2)]) if mode == "sm" else 0))
        elif k == "get":
            if mode == "sm" and rnd.random() < 0.15:
                ops.append(("get", rnd.choice([2 ** 63 - 1, 2 ** 62, 2 ** 32, 2 ** 32 + issued, -2 ** 63, -2 ** 62, 2 ** 63 - 1 - rnd.randint(0, 9)])))
            elif mode == "eq" and rnd.random() < 0.25:
                # positions far beyond the end: with a non-zero front offset, position + offset wraps around
                ops.append(("get", rnd.choice([2 ** 64 - 1, 2 ** 64 - 1 - rnd.randint(0, 14), 2 ** 63, 2 ** 32, 2 ** 32 + rnd.randint(0, 5), 2 ** 64 - issued - 1])))
            else:
                ops.append(("get", rnd.randint(-1 if mode == "sm" else 0, issued + 1)))
        else:
            ops.append(("getmin", 0))
    return ops


def mp_prog(rnd, nops, nslots, fail=None):
    L = ["prog mp"]
    if fail:
        L.append("fail %d %s" % fail)
    if rnd.random() < 0.35:
        L.append("pool1 1")      # the smallest legal pool: a cache of one object
    for _ in range(nops):
        L.append("%s %d" % (rnd.choice(["pmalloc"] * 6 + ["pfree"] * 3 + ["patexit"]), rnd.randint(1, nslots)))      # patexit: handed back by an exit handler
    L.append("end")
    return "\n".join(L) + "\n"


def model_checks(c):
    c.add_mc("ElasticArray (bytes {1,2}, size <= 9, record sizes 1-3, realloc may fail)",
             vlib.tlc(SD, "ElasticArray", "ElasticArrayMC.cfg", workers=12, timeout=900, coverage=True))
    c.add_mc("ElasticQueue+SeqPtrMap (2 records, <= 7 numbers)",
             vlib.tlc(SD, "ElasticQueue", "ElasticQueueMC.cfg", workers=12, timeout=900, coverage=True))
    c.cov["exhaustive"] = True


def main(c):
    rnd = random.Random(c.seed)
    exe = build(c)
    model_checks(c)
    n = c.pick(300, 4000)
    progs = []
    r, cases = vlib.tlc_emit(SD, "ElasticArrayGen", args=["-simulate", "num=%d" % n, "-depth", "12", "-seed", str(c.seed)], timeout=600)
    if not cases:
        raise vlib.ToolFailure("ElasticArrayGen produced nothing\n" + r.out[-2000:])
    progs += [ea_prog(ea_from_tlc(h)) for h in cases]
    ngen = len(cases)
    for mode, cfg in (("eq", "ElasticQueueGenEq.cfg"), ("sm", "ElasticQueueGenSm.cfg")):
        r, cases = vlib.tlc_emit(SD, "ElasticQueueGen", cfg, args=["-simulate", "num=%d" % n, "-depth", "24", "-seed", str(c.seed)], timeout=600)
        if not cases:
            raise vlib.ToolFailure("ElasticQueueGen produced nothing\n" + r.out[-2000:])
        ngen += len(cases)
        for h in cases:
            ops = [(o[0], o[1]) for o in h]
            progs.append(eq_prog(ops, rnd.choice([1, 3, 8])) if mode == "eq" else sm_prog(ops))
    c.cov["tlc_generated_programs"] = ngen
    for _ in range(c.pick(800, 20000)):
        progs.append(rand_ea(rnd, rnd.randint(3, 40), rnd.choice([3, 10, 40, 300])))
        progs.append(eq_prog(rand_q(rnd, rnd.randint(3, 80), "eq"), rnd.choice([1, 2, 8, 24])))
        progs.append(sm_prog(rand_q(rnd, rnd.randint(3, 80), "sm")))
    # one delete that has to strip a long run of deleted numbers (the queue behind the map compacts and shrinks in the middle of it)
    for _ in range(c.pick(60, 1000)):
        n = rnd.choice([4, 8, 9, 16, 17, 33, 64, 65, 200])
        keep = rnd.choice([0, 0, 1, 3])
        mid = list(range(1, n - keep))
        rnd.shuffle(mid)
        ops = [("add", i + 1) for i in range(n)] + [("delete", i) for i in mid] + [("getmin", 0), ("delete", 0), ("getmin", 0)]
        ops += [("get", i) for i in (0, 1, n - keep - 1, n - keep, n - 1, n)] + [("add", 77), ("get", n), ("getmin", 0)]
        progs.append(sm_prog(ops))
    for _ in range(c.pick(150, 2000)):
        progs.append(mp_prog(rnd, rnd.randint(2, 120), rnd.choice([2, 5, 9, 40])))
    # a few big ones: 10^4 records
    for _ in range(c.pick(2, 12)):
        progs.append(rand_ea(rnd, 30, 10000))
        progs.append(eq_prog(rand_q(rnd, 20000, "eq"), 8))
        progs.append(sm_prog(rand_q(rnd, 20000, "sm")))
    vlib.conformance(c, exe, progs, SD, "ElasticTrace", "ElasticTrace.cfg", "ds", procs=8, shards=8)
    if not c.quick:
        apalache(c)
    c.cov["rule"] = ("programs = operation sequences on an elastic array (mixed record sizes, overflowing products, export), elastic queue, "
                     "sequential map (deletes in any order, unknown numbers) and the object pool (cache size 4, forked per program, exit through exit()); "
                     "sources: every behaviour printed by `tlc -simulate` on ElasticArrayGen / ElasticQueueGen, plus seeded random programs up to 10^4 records; "
                     "each trace is validated by TLC against ElasticTrace (ideal array/queue/map/pool); non-trivial = >= 3 library calls; distinct = SHA-256 of program text")
    c.cov["trusted_base"] = ["TLC", "gcc ASan/UBSan (storage clause)", "allocation wrapper (observed allocation sizes, live set)"]
    c.assumptions += ["uninitialised bytes created by resize are unconstrained", "record sizes <= 64 in queues"]


def apalache(c):
    """Unbounded: the sizing policy's inductive invariant (integer abstraction) with Apalache."""
    import subprocess, time
    t0 = time.time()
    ok = 0
    outdir = os.path.join(c.dir, "apalache")
    os.makedirs(outdir, exist_ok=True)
    for args in (["--init=Init", "--inv=IndInv", "--length=0"], ["--init=IndInit", "--inv=IndInv", "--length=1"]):
        r = vlib.sh(["timeout", "600", "apalache-mc", "check", "--out-dir=" + outdir] + args + ["EASizing.tla"], cwd=SD, timeout=700, env={"TMPDIR": outdir})
        if "Checker reports no error" in (r.stdout or "") or "The outcome is: NoError" in (r.stdout or ""):
            ok += 1
    c.cov["apalache_inductive_invariant"] = {"obligations": 2, "discharged": ok, "wall_s": round(time.time() - t0, 1),
                                             "statement": "size >= 0 /\\ alloc >= size /\\ (shrinkFailed \\/ alloc \\div 4 <= size) is inductive for resize/shrink/truncate, all sizes"}
