"""C18 — command-line parsing: specs/text/Getopt.tla (grammar), GetoptMC.tla (exhaustive enumeration of argv), GetoptTrace.tla,
harness/drv_getopt.c"""
import os, random
import vlib

SD = os.path.join(vlib.SPECS, "text")
TOKENS = ["-a", "-b", "-f", "-fx", "-abf", "-afb", "-z", "-az", "--foo", "--foo=v", "--foo=", "--foobar", "--foobar=v", "--fo", "--bar", "--b",
          "--b=--", "--long-opt=1", "--long", "-xa", "-ax", "--", "-", "", "op", "--x", "--=v", "--long-opt", "--lon", "--a", "--a=", "-x=1", "-=",
          "---", "--foo=a=b", "-ffoo", "-f-", "--foobar=", "--b=", "-bf", "-f=v", "-f=", "-bf=", "-b=", "-f==", "-bf=v", "-a-b", "-a-", "-a--fx", "-b-f", "-a--", "-ab-", "--foo=-", "-f--"]


def build(c):
    srcs = [os.path.join(vlib.HARNESS, "drv_getopt.c")] + vlib.repo_srcs("util/getopt.c")
    return vlib.build(c.dir, "drv_getopt", srcs)


# option characters and argument bytes above 0x7f (as plain char they are negative: 0xff is -1, the value of EOF-like sentinels)
HIGH = ["-\xff", "-a\xffb", "-\xffa", "-b\xff", "-f\xff", "-\xff\xff", "--foo=\xff", "--\xff", "\xff", "-\x80", "-a\x80", "-\xfe", "--b\xff"]


def tok(s):
    return "-" if s == "" else s.encode("latin-1").hex()


def line(t, argv, abandon=-1):
    return "%d %d %s" % (t, abandon, " ".join(tok(a) for a in argv))


def chunk_programs(lines, rnd, per=400):
    """group parse lines into executions of `per` parses each (all in one process, optreset between them)"""
    out = []
    for i in range(0, len(lines), per):
        body = lines[i:i + per]
        out.append("prog getopt\n" + "\n".join(body) + "\nend\n")
    return out


def main(c):
    rnd = random.Random(c.seed)
    exe = build(c)
    lines = []
    for t in (1, 2, 3):
        r, cases = vlib.tlc_emit(SD, "GetoptMC", "GetoptMC_%d_3.cfg" % t, workers=4, timeout=900)
        c.add_mc("GetoptMC table %d (every argv of length <= 3 over 33 tokens; one getopt() call per step)" % t, r)
        if not cases:
            raise vlib.ToolFailure("GetoptMC produced nothing\n" + r.out[-2000:])
        c.cov.setdefault("enumerated_vectors", {})["table%d" % t] = len(cases)
        for x in cases:
            lines.append(line(x["t"], ["".join(chr(ch) for ch in a) for a in x["argv"]]))
    c.cov["exhaustive"] = True
    rnd.shuffle(lines)          # so that each parse follows a different vector
    # longer vectors (to length 8), abandoned parses, and fresh-process parses
    extra = []
    for _ in range(c.pick(6000, 150000)):
        t = rnd.choice([1, 2, 3])
        argv = [rnd.choice(TOKENS) if rnd.random() < 0.93 else rnd.choice(HIGH) for _ in range(rnd.randint(0, 8))]
        ab = rnd.choice([-1, -1, -1, 0, 1, 2, 3])
        if rnd.random() < 0.03:
            extra.append("fresh")
        extra.append(line(t, argv, ab))
    # every pair (high-byte token, ordinary token) in both orders, for each table
    for t in (1, 2, 3):
        for h in HIGH:
            extra.append(line(t, [h]))
            for o in ("-a", "-b", "-f", "--foo", "op", "-ab"):
                extra.append(line(t, [h, o]))
                extra.append(line(t, [o, h]))
                extra.append(line(t, [o, h, o]))
    progs = chunk_programs(lines, rnd) + chunk_programs(extra, rnd)
    vlib.conformance(c, exe, progs, SD, "GetoptTrace", "GetoptTrace.cfg", "getopt", procs=12, shards=12, nontrivial=lambda ex: len(ex) > 2)
    c.cov["parses"] = len(lines) + sum(1 for x in extra if x != "fresh")
    c.cov["rule"] = ("every argument vector of length <= 3 over a 33-token alphabet (registered/unregistered shorts, packs with an argument-taking option in the middle "
                     "and at the end, long options that are prefixes of one another, '=' forms, '-', '--', '', operands) for three option tables is enumerated by TLC "
                     "and parsed by the real getopt after an optreset that follows a different vector; plus random vectors to length 8 over 54 tokens and 13 more with bytes above 0x7f (0xff, 0x80, 0xfe as option characters, in packs, as arguments), parses abandoned "
                     "after 0..3 options, and parses that are the first of a fresh process; every getopt() call is validated by TLC against the grammar; "
                     "an execution = 400 parses; non-trivial = at least one parse; distinct = SHA-256 of program")
    c.cov["trusted_base"] = ["TLC", "gcc ASan/UBSan (exact-size argv strings)"]
