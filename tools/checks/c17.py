"""C17 — codecs, byte orders, socket addresses, JSON key finder: specs/text/Codec.tla, CodecGen.tla (exhaustive small input
spaces by TLC), CodecTrace.tla, harness/drv_text.c (+ drv_text_codec.h)"""
import ipaddress, json, os, random
import vlib
from checks import c16

SD = os.path.join(vlib.SPECS, "text")


def hx(b):
    if isinstance(b, str):
        b = b.encode("latin1")
    return b.hex() if b else "-"


def addr_lines(rnd, n):
    L = []
    for _ in range(n):
        k = rnd.choice(["v4", "v4", "v6", "v6", "v6m", "unix", "v4bare"])
        port = rnd.choice([1, 80, 443, 65535, rnd.randint(1, 65535)])
        if k in ("v4", "v4bare"):
            a = ipaddress.IPv4Address(rnd.choice([0, 0x7f000001, 0xffffffff, rnd.getrandbits(32)]))
            s = ("[%s]:%d" if k == "v4" else "%s:%d") % (a, port)
            L.append("sr %s inet %s %d" % (hx(s), a.packed.hex(), port))
        elif k in ("v6", "v6m"):
            v = rnd.choice([0, 1, (1 << 128) - 1, rnd.getrandbits(128), rnd.getrandbits(32) << 96, rnd.getrandbits(64), (0xffff << 32) | rnd.getrandbits(32)])
            a = ipaddress.IPv6Address(v)
            form = rnd.choice([a.compressed, a.exploded, a.compressed.upper()])
            if k == "v6m" and a.ipv4_mapped is not None:
                form = "::ffff:%s" % a.ipv4_mapped
            s = "[%s]:%d" % (form, port)
            L.append("sr %s inet6 %s %d" % (hx(s), a.packed.hex(), port))
        else:
            ln = rnd.choice([1, 2, 10, 50, 106, 107])
            path = "/" + "".join(rnd.choice("abcXYZ09._-/ :[]") for _ in range(ln - 1))
            L.append("sr %s unix %s 0" % (hx(path), hx(path)))
    return L


ESC = {'"': '\\"', "\\": "\\\\", "/": "\\/", "\b": "\\b", "\f": "\\f", "\n": "\\n", "\r": "\\r", "\t": "\\t"}


def json_value(rnd, depth, ws):
    k = rnd.choice(["num", "str", "lit", "arr", "obj"] if depth < 3 else ["num", "str", "lit"])
    w = lambda: rnd.choice(ws)
    if k == "num":
        return rnd.choice(["0", "-1", "12.5e+3", "1E9", "3.14"])
    if k == "str":
        return '"' + "".join(rnd.choice(['a', 'b', ' ', ',', ':', '{', '}', '[', ']', '\\"', '\\\\', '\\u0041', '\\n']) for _ in range(rnd.randint(0, 6))) + '"'
    if k == "lit":
        return rnd.choice(["true", "false", "null"])
    if k == "arr":
        items = [json_value(rnd, depth + 1, ws) for _ in range(rnd.randint(0, 3))]
        return "[" + w() + ("," + w()).join(i + w() for i in items) + "]"
    members = ['"%s"%s:%s%s' % (rnd.choice(["x", "y", "k"]), w(), w(), json_value(rnd, depth + 1, ws)) for _ in range(rnd.randint(0, 3))]
    return "{" + w() + ("," + w()).join(m + w() for m in members) + "}"


def json_lines(rnd, n):
    L = []
    for _ in range(n):
        ws = rnd.choice([[""], ["", " "], ["", " ", "\t", "\n", "\r\n ", "  "]])
        w = lambda: rnd.choice(ws)
        doc = w() + "{" + w()
        members = []
        names = []
        nm = rnd.randint(0, 6)
        for i in range(nm):
            raw, dec, hasu = "", "", False
            if names and rnd.random() < 0.3:
                # a name that is a proper prefix of an earlier one, or an earlier one plus an escape (the earlier member must not
                # be taken for it, whatever follows the common part)
                base = rnd.choice(names)
                dec = base[:rnd.randint(0, max(0, len(base) - 1))] if rnd.random() < 0.7 else base + rnd.choice(['"', "\\", "\\\\", '\\"'])
                raw = "".join(ESC.get(ch, ch) if ch in ('"', "\\", "\b", "\f", "\n", "\r", "\t") else ch for ch in dec)
            for _ in range(0 if raw or dec else rnd.randint(0, 4)):
                ch = rnd.choice(list("abck_ ") + list(ESC.keys()) + ["U"])
                if ch == "U":
                    raw += "\\u00%02x" % rnd.randint(0x20, 0x7e)
                    hasu = True
                elif ch in ESC and rnd.random() < 0.8:
                    raw += ESC[ch]
                    dec += ch
                elif ch in ('"', "\\", "\b", "\f", "\n", "\r", "\t"):
                    raw += ESC[ch]
                    dec += ch
                else:
                    raw += ch
                    dec += ch
            doc += '"' + raw + '"' + w() + ":" + w()
            off = len(doc.encode("latin1"))
            doc += json_value(rnd, 0, ws) + w()
            members.append([hx(dec).replace("-", ""), hasu, off])
            names.append(dec)
            if i + 1 < nm:
                doc += "," + w()
        doc += "}" + w()
        prefixes = [n[:rnd.randint(0, len(n))] for n in names if n]
        for key in set([rnd.choice(names) if names else "a", "a", rnd.choice(["", "zz", "ab", "k"])] + names[-2:] + prefixes[:2]):
            if "\x00" in key:
                continue
            L.append("jf %s %s m=%s" % (hx(key), hx(doc), json.dumps(members, separators=(",", ":"))))
    # many values before the wanted member: more than a thousand empty containers, flat and inside a list of records (a skipper that
    # counts depth must come back to where it started)
    for empties, wrap in ((["[]", "{}", "[ ]", "{ }"], False), (["[]"], True)):
        doc, members = "{", []
        for i in range(1100 if not wrap else 40):
            name = "m%d" % i
            val = rnd.choice(empties) if not wrap else "[" + ",".join('{"tags":[],"attrs":{},"n":%d}' % j for j in range(30)) + "]"
            doc += '"%s":' % name
            members.append([hx(name), False, len(doc)])
            doc += val + ","
        doc += '"k":'
        members.append([hx("k"), False, len(doc)])
        doc += '{"x":[1,2]}}'
        for key in ("k", "m1099" if not wrap else "m39", "zz"):
            L.append("jf %s %s m=%s" % (hx(key), hx(doc), json.dumps(members, separators=(",", ":"))))
    # a value nested deeper than any fixed-size bookkeeping (64 / 65 / 66 / 128 / 300 levels of objects, of arrays, alternating, and an
    # object only at the outermost or only at the innermost level) before the wanted member
    for depth in (63, 64, 65, 66, 70, 128, 129, 300):
        for style in ("obj", "arr", "alt", "outer", "inner"):
            opn, cls = "", ""
            for d in range(depth):
                isobj = {"obj": True, "arr": False, "alt": d % 2 == 0, "outer": d == 0, "inner": d == depth - 1}[style]
                opn += '{"n":' if isobj else "["
                cls = ("}" if isobj else "]") + cls
            doc = '{"deep":'
            members = [[hx("deep"), False, len(doc)]]
            doc += opn + "1" + cls + ',"target":'
            members.append([hx("target"), False, len(doc)])
            doc += '7,"n":'
            members.append([hx("n"), False, len(doc)])
            doc += "8}"
            for key in ("target", "n", "deep", "zz"):
                L.append("jf %s %s m=%s" % (hx(key), hx(doc), json.dumps(members, separators=(",", ":"))))
    return L


def main(c):
    rnd = random.Random(c.seed)
    exe = c16.build(c)
    lines = []
    r, cases = vlib.tlc_emit(SD, "CodecGen", "CodecGen_bytes.cfg", workers=2, timeout=900)
    c.add_mc("CodecGen bytes (every byte string of length <= 4 over 7 byte values)", r)
    for x in cases:
        b = bytes(x)
        lines += ["b64e " + hx(b), "hexe " + hx(b)]
        import base64
        lines += ["b64d " + hx(base64.b64encode(b)), "hexd %s %d" % (hx(b.hex()), len(b)), "hexd %s %d" % (hx(b.hex().upper()), len(b))]
    r, cases = vlib.tlc_emit(SD, "CodecGen", "CodecGen_text.cfg", workers=2, timeout=900)
    c.add_mc("CodecGen text (every candidate encoding of length <= 4 over 14 symbols incl. '=', NUL, non-alphabet)", r)
    c.cov["exhaustive"] = True
    for x in cases:
        t = bytes(x)
        lines.append("b64d " + hx(t))
        if 0 not in t:
            lines.append("hexd %s %d" % (hx(t), len(t) // 2))
            lines.append("hexd %s %d" % (hx(t), (len(t) + 1) // 2))
    # longer byte strings: all lengths mod 3, all byte values
    for _ in range(c.pick(1500, 30000)):
        b = bytes(rnd.getrandbits(8) for _ in range(rnd.choice([1, 2, 3, 4, 5, 6, 7, 31, 32, 33, 100, 255, 256])))
        lines += ["b64e " + hx(b), "hexe " + hx(b), "b64d " + hx(base64.b64encode(b)), "hexd %s %d" % (hx(b.hex()), len(b))]
        enc = bytearray(base64.b64encode(b))
        if enc:
            k = rnd.randrange(len(enc))
            enc[k] = rnd.choice(b"=A-_ \n\x00z")       # padding / invalid character at every position
            lines.append("b64d " + hx(bytes(enc)))
            lines.append("b64d " + hx(bytes(enc[:rnd.randrange(len(enc) + 1)])))
    # every byte value at several positions of a valid encoding (decoders accept exactly the alphabet: no folding of high bytes)
    for b in (b"foobar", b"fo", bytes(range(250, 256)) + b"x"):
        enc0 = base64.b64encode(b)
        for pos in sorted({0, 1, len(enc0) // 2, len(enc0) - 3, len(enc0) - 1}):
            for v in range(256):
                enc = bytearray(enc0)
                enc[pos] = v
                lines.append("b64d " + hx(bytes(enc)))
        hx0 = b.hex().encode()
        for pos in (0, len(hx0) - 1):
            for v in range(256):
                t = bytearray(hx0)
                t[pos] = v
                lines.append("hexd %s %d" % (hx(bytes(t)), len(b)))
    # byte orders: every width, order, buffer offset; boundary values
    for bits in (16, 32, 64):
        for order in "bl":
            for off in range(16):
                for v in [0, 1, 0x80, 0xff, 0x0102030405060708, (1 << bits) - 1, 1 << (bits - 1), rnd.getrandbits(bits)]:
                    lines.append("en %d%s %d %0*x" % (bits, order, off, bits // 4, v & ((1 << bits) - 1)))
    lines += addr_lines(rnd, c.pick(1500, 30000))
    lines += json_lines(rnd, c.pick(2500, 50000))
    c.cov["calls"] = len(lines)
    per = 2500
    progs = ["prog text\n" + "\n".join(lines[i:i + per]) + "\nend\n" for i in range(0, len(lines), per)]
    vlib.conformance(c, exe, progs, SD, "CodecTrace", "CodecTrace.cfg", "codec", procs=12, shards=14, nontrivial=lambda ex: len(ex) > 1, tv_timeout=1700)
    c.cov["rule"] = ("every byte string of length <= 4 over 7 byte values and every candidate encoding of length <= 4 over 14 symbols (enumerated by TLC) through "
                     "b64encode/b64decode/hexify/unhexify, plus random byte strings of all lengths mod 3 with a corrupted / truncated encoding each; every width, "
                     "byte order and buffer offset 0..15 of the endian routines; numeric IPv4 / IPv6 (compressed, exploded, upper-case, mapped) and Unix-path "
                     "addresses with ports 1..65535 (resolve = denoted address, print/resolve, serialise/deserialise, duplicate); generated valid JSON objects "
                     "(escapes, \\u names, nested values with white space everywhere) with present / absent / prefix keys; every call validated by TLC against "
                     "Codec.tla and the address / JSON rules of CodecTrace.tla; an execution = 2500 calls; distinct = SHA-256 of program")
    c.cov["trusted_base"] = ["TLC", "Python ipaddress (address literal -> bytes) and the JSON generator's own member list (encoder side of the oracle)", "gcc ASan/UBSan"]
    c.assumptions += ["numeric addresses only (no host-name resolution)", "JSON nesting depth <= 4"]
