"""C07 — buffered reader / writer: specs/netbuf/NbReadImpl.tla, NbWriteImpl.tla (MC + generation), NbTrace.tla (abstract),
harness/drv_netbuf.c"""
import os, random
import vlib
from checks import c06

SD = os.path.join(vlib.SPECS, "netbuf")


def build(c):
    srcs = [os.path.join(vlib.HARNESS, f) for f in ("drv_netbuf.c", "allocwrap.c")] + vlib.repo_srcs(
        *(c06.EV_SRCS + ["network/network_read.c", "network/network_write.c", "netbuf/netbuf_read.c", "netbuf/netbuf_write.c", "netbuf/netbuf_ssl.c",
                         "network_ssl/network_ssl.c", "network_ssl/network_ssl_compat.c"]))
    return vlib.build(c.dir, "drv_netbuf", srcs, wraps=c06.WRAPS + TLS_WRAPS, libs=["-lssl", "-lcrypto"])


# the TLS transport: netbuf_ssl_read_init / netbuf_ssl_write_init over network_ssl, the engine's plaintext side mapped onto the scripted sockets
TLS_WRAPS = ["SSL_read_ex", "SSL_write_ex", "SSL_get_error", "SSL_shutdown", "SSL_set_fd"]


def tls(p):
    return p.replace("\nmain\n", "\nmain\n  tls\n", 1)


def frag(rnd, fd, q, total, eof=None, spaced=True):
    """scripted kernel answers delivering `total` bytes in random fragments"""
    out, t, left = [], 0, total
    while left > 0:
        k = rnd.choice("DDDDDDAI")
        if k == "D":
            n = min(left, rnd.choice([1, 1, 2, 3, 100, 1000, 4095, 4096, 4097, 9000, left, rnd.randint(1, left)]))
            out.append("%s %d D %d 0 %d" % (q, fd, n, t))
            left -= n
        else:
            out.append("%s %d %s 0 %d %d" % (q, fd, k, 11 if k == "A" else 0, t))
        if spaced and rnd.random() < 0.3:
            t += rnd.choice([1, 1000, 2500])
    if eof:
        out.append("%s %d %s 0 %d %d" % (q, fd, eof, 104 if eof == "X" else 0, t))
    return out


KS = [1, 2, 3, 10, 100, 1000, 4095, 4096, 4097, 5000, 8191, 8192, 8193, 12288, 16384, 20480]


def reader_program(rnd, with_cancel=True):
    total = rnd.choice([10, 300, 5000, 20000, 70000])
    L = ["prog nb"]
    scripts = []
    main = frag(rnd, 0, "rx", total, rnd.choice([None, "E", "E", "X"])) + ["rinit"]
    wid = 0
    # a chain of waits: each callback peeks, consumes part, and starts the next wait
    nw = rnd.randint(1, 12)
    ks = [rnd.choice(KS + [rnd.randint(1, 9000)]) for _ in range(nw)]
    for i, k in enumerate(ks):
        wid += 1
        ops = ["peek"]
        if rnd.random() < 0.9:
            ops.append("consume %d" % rnd.choice([0, 1, k, k // 2, k + rnd.randint(0, 50), rnd.randint(0, k)]))
        if rnd.random() < 0.3:
            ops.append("peek")
        if i + 1 < nw:
            ops.append("wait %d %d" % (wid + 1, ks[i + 1]))
        scripts.append((wid, ops))
    main.append("wait 1 %d" % ks[0])
    if with_cancel and rnd.random() < 0.5:
        # cancel at some instant and wait again (from outside the loop)
        for _ in range(rnd.randint(1, 3)):
            main += ["runk"] * rnd.randint(0, 4)
            main.append("wcancel")
            if rnd.random() < 0.5:
                main.append("peek")
            wid += 1
            k = rnd.choice(KS)
            scripts.append((wid, ["peek", "consume %d" % rnd.randint(0, k)]))
            main.append("wait %d %d" % (wid, k))
    for w, ops in scripts:
        L += ["script %d rc 0" % w] + ["  " + o for o in ops] + ["endscript"]
    L += ["main"] + ["  " + m for m in main] + ["  drain", "endmain", "end"]
    return "\n".join(L) + "\n"


SIZES = [0, 1, 2, 100, 4095, 4096, 4097, 5000, 12288]


def writer_program(rnd, zero=True):
    L = ["prog nb", "main"]
    main = ["winit"]
    total = 0
    ops = []
    for _ in range(rnd.randint(1, 14)):
        n = rnd.choice(SIZES if zero else SIZES[1:])
        if rnd.random() < 0.6:
            ops.append("wwrite %d" % n)
        else:
            ops.append("reserve %d" % n)
            m = rnd.choice([n, n, n // 2, 0]) if zero else rnd.choice([n, n, max(1, n // 2)])
            ops.append("wconsume %d" % m)
            n = m
        total += n
        if rnd.random() < 0.3:
            ops.append("runk")
    cap = rnd.choice([total + 10, total + 10, total + 10, max(1, total // 2)])
    main += frag(rnd, 1, "tx", cap, rnd.choice([None, None, "X"]))
    main += ops
    L += ["  " + m for m in main] + ["  drain", "endmain", "end"]
    return "\n".join(L) + "\n"


def big_writer_programs(rnd):
    """single buffered writes far beyond the coalescing buffer (1 MiB and more, powers of two and their neighbours), the kernel taking
    everything at once, in two halves, or in pieces: the whole of it must reach the transport, no failure reported"""
    out = []
    for n in (65536, 1 << 20, (1 << 20) + 1, 3145854, (1 << 22) + 17):
        for style in ("all", "halves", "pieces"):
            main = ["winit"]
            if style == "all":
                main.append("tx 1 D %d 0 0" % (n + 100))
            elif style == "halves":
                main += ["tx 1 D %d 0 0" % (n // 2), "tx 1 A 0 11 0", "tx 1 D %d 0 0" % (n - n // 2 + 100)]
            else:
                piece = rnd.choice([65536, 100000, 1 << 19])
                main += ["tx 1 D %d 0 0" % piece] * (n // piece + 2)
            main += ["wwrite 10", "wwrite %d" % n, "runk", "wwrite 7"]
            out.append("\n".join(["prog nb", "main"] + ["  " + m for m in main] + ["  drain", "endmain", "end"]) + "\n")
    return out


def reader_from_tlc(h, jitter, rnd):
    """behaviour of NbReadImpl (buffer 4, sizes in model units) -> program for the real code (buffer 4096): x1024"""
    L = ["prog nb", "main", "  rinit"]
    wid = 0
    for op, a in h:
        d = rnd.choice([-1, 0, 0, 1]) if jitter else 0
        if op == "wait":
            wid += 1
            L.append("  wait %d %d" % (wid, max(1, a * 1024 + d)))
        elif op == "recv":
            L += ["  rx 0 D %d 0 0" % max(1, a * 1024 + d), "  runk"]
        elif op == "eof":
            L += ["  rx 0 E 0 0 0", "  runk"]
        elif op == "run":
            L.append("  runk")
        elif op == "consume":
            L.append("  consume %d" % max(0, a * 1024 + d))
        elif op == "cancel":
            L.append("  wcancel")
        L.append("  peek")
    L += ["  drain", "endmain", "end"]
    return "\n".join(L) + "\n"


def writer_from_tlc(h, jitter, rnd):
    L = ["prog nb", "main", "  winit"]
    for op, a in h:
        d = rnd.choice([-1, 0, 0, 1]) if jitter else 0
        if op == "write":
            if rnd.random() < 0.5:
                L.append("  wwrite %d" % max(0, a * 1024 + d))
            else:
                L += ["  reserve %d" % max(0, a * 1024 + d), "  wconsume %d" % max(0, a * 1024 + d)]
        elif op == "accept":
            L += ["  tx 1 D %d 0 0" % max(1, a * 1024 + d), "  runk"]
        elif op == "fail":
            L += ["  tx 1 X 0 32 0", "  runk"]
    L += ["  tx 1 D 200000 0 0", "  drain", "endmain", "end"]
    return "\n".join(L) + "\n"


def main(c):
    rnd = random.Random(c.seed)
    exe = build(c)
    c.add_mc("NbReadImpl (buffer 4, stream <= %d, k <= %d, every fragmentation / wait / consume / cancel order)" % ((10, 9) if c.quick else (14, 12)),
             vlib.tlc(SD, "NbReadImpl", "NbReadMC.cfg" if c.quick else "NbReadMC_t.cfg", workers=12, timeout=1200, coverage=True))
    c.add_mc("NbWriteImpl (coalescing buffer 4, writes 0..6, total <= %d, every accept fragmentation, failure at every point)" % (11 if c.quick else 16),
             vlib.tlc(SD, "NbWriteImpl", "NbWriteMC.cfg" if c.quick else "NbWriteMC_t.cfg", workers=12, timeout=1200, coverage=True))
    c.cov["exhaustive"] = True
    vlib.apalache_inductive(c, SD, "NbReadGeom", (["--init=Init", "--inv=IndInv", "--length=0"], ["--init=IndInit", "--inv=IndInv", "--length=1"]),
                            "reader window arithmetic (Geometry, ReadFits, Accounting, Progress) inductive for every buffer size, wait length, segment and consume length")
    progs = []
    n = c.pick(500, 8000)
    r, cases = vlib.tlc_emit(SD, "NbReadImpl", "NbReadGen.cfg", args=["-simulate", "num=%d" % n, "-depth", "20", "-seed", str(c.seed)], timeout=600)
    if not cases:
        raise vlib.ToolFailure("NbReadImpl generation produced nothing\n" + r.out[-2000:])
    ng = len(cases)
    progs += [reader_from_tlc(h, i % 2, rnd) for i, h in enumerate(cases)]
    r, cases = vlib.tlc_emit(SD, "NbWriteImpl", "NbWriteGen.cfg", args=["-simulate", "num=%d" % n, "-depth", "20", "-seed", str(c.seed)], timeout=600)
    if not cases:
        raise vlib.ToolFailure("NbWriteImpl generation produced nothing\n" + r.out[-2000:])
    progs += [writer_from_tlc(h, i % 2, rnd) for i, h in enumerate(cases)]
    c.cov["tlc_generated_programs"] = ng + len(cases)
    for _ in range(c.pick(1200, 25000)):
        progs.append(reader_program(rnd))
        progs.append(writer_program(rnd))
    progs += big_writer_programs(rnd)
    # every fourth program over the TLS transport (same scripts: would-block becomes "want read" / "want write")
    progs = [tls(p) if i % 4 == 3 else p for i, p in enumerate(progs)]
    vlib.conformance(c, exe, progs, SD, "NbTrace", "NbTrace.cfg", "nb", procs=12, shards=12,
                     nontrivial=lambda ex: any(e.get("e") in ("recv", "send") for e in ex))
    c.cov["rule"] = ("programs = wait(k)/peek/consume(j)/cancel chains (k from 1 to 5x the 4096-byte buffer, waits started from callbacks and from outside) "
                     "and write/reserve/consume sequences (sizes 0..3x4096, and single writes of 64 KiB .. 4 MiB) crossed with scripted kernel fragmentations, EAGAIN/EINTR, EOF and error positions; "
                     "executed by the real netbuf/network/events code, every fourth program over netbuf_ssl / network_ssl with a scripted engine; every trace validated by TLC against NbTrace.tla; "
                     "non-trivial = at least one recv/send answered; distinct = SHA-256 of program")
    c.cov["trusted_base"] = ["TLC", "fake kernel + scripted sockets", "gcc ASan/UBSan"]
