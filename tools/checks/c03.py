"""C03 — every accelerated path = the portable path: the C01/C02 input classes executed by one build per executable CPU-feature
subset (SHA-NI+SSSE3 / SSE2 / SSE4.2 / AES-NI / none); every build validated against the same specifications; outputs compared across builds."""
import hashlib, json, os, random
import vlib
from checks import cryptogen as g, c02


def main(c):
    rnd = random.Random(c.seed)
    c.add_mc("HashStream (buffering shared by every SHA-256 path)", vlib.tlc(g.SD, "HashStream", "HashStreamMC.cfg", workers=4, timeout=600))
    c02.model_checks(c)
    # (HMAC and PBKDF2 are built on the SHA-256 transform, whose scratch space the accelerated and the portable paths use differently)
    lines = (g.aesfresh_lines(rnd) + [l for l in g.hmac_lines(rnd, c.pick(60, 1500)) if " sha256 " in l][:: c.pick(3, 1)] + g.pbkdf2_lines(rnd, c.pick(10, 300))[:: c.pick(2, 1)] + g.hash_lines(rnd, c.pick(200, 3000)) + g.crc_lines(rnd, c.pick(600, 6000)) + g.aes_lines(rnd, c.pick(200, 2000)) +
             g.ctr_lines(rnd, c.pick(500, 5000), c.pick(4, 12)))
    # only SHA-256 / CRC32C / AES / AES-CTR have accelerated paths
    lines = [l for l in lines if not l.startswith("hash sha1") and not l.startswith("hash md5")]
    random.Random(c.seed).shuffle(lines)
    c.cov["calls_per_build"] = len(lines)
    outs = {}
    per = 200
    # (which allocation a refused request hits depends on the build, so the first-use cases are validated per build only)
    xl = [l for l in lines if not l.startswith("aesfresh")]
    progs = ["prog crypto\n" + "\n".join(xl[i:i + per]) + "\nend\n" for i in range(0, len(xl), per)]
    for cfg in g.CONFIGS:
        exe = g.build(c, cfg)
        # run once more outside conformance to collect the outputs for the cross-build comparison
        execs, crashes = vlib.run_programs(exe, progs, os.path.join(c.dir, "x" + cfg), tag=cfg, procs=12, timeout=1200)
        if crashes:
            path = c.save_replay("c03-%s-crash.prog" % cfg, progs[crashes[0][0]])
            c.violation("build %s: driver died: %s" % (cfg, crashes[0][2][-300:].replace("\n", " | ")), path)
            continue
        outs[cfg] = [[(e.get("digest"), e.get("out"), json.dumps(e.get("windows"))) for e in ex] for ex in execs]
        g.run(c, exe, lines, "cfg_" + cfg, shuffle=False)
    base = outs.get("none")
    diff = 0
    for cfg, o in outs.items():
        if base is not None and o != base:
            diff += 1
            for pi, (a, b) in enumerate(zip(o, base)):
                if a != b:
                    c.violation("build %s and the portable build disagree on program %d" % (cfg, pi), c.save_replay("c03-%s-%d.prog" % (cfg, pi), progs[pi]))
                    break
    # the CRC32C code for SSE4.2 without 64-bit words (what a 32-bit x86 build selects) is a configuration of its own
    exe = g.build(c, "sse42w32")
    g.run(c, exe, [l for l in lines if l.startswith("crc ")], "cfg_sse42w32", shuffle=False)
    c.cov["configurations"] = list(outs) + ["sse42w32 (CRC32C only)"]
    c.cov["cross_config_equal"] = diff == 0
    c.cov["rule"] = ("the SHA-256 / CRC32C / AES / AES-CTR input classes of C01 and C02 (alignments 0..15, lengths around the 8-byte and 16-byte thresholds, partitions that "
                     "switch between accelerated and portable code inside one stream, long streams across counter carries) executed by five builds: all features, "
                     "none, SSE2 only, SSE4.2 only, AES-NI only; each build's trace validated by TLC against the same specifications and all outputs compared with "
                     "the portable build; an execution = 200 calls in one build")
    c.cov["trusted_base"] = ["TLC", "JDK primitives", "the host CPU executes SHA-NI, SSSE3, SSE2, SSE4.2, AES-NI"]
    c.assumptions += ["x86-64 host; ARM paths are not compiled"]
