from checks import c04


def main(c):
    c04.run(c, "C05")
