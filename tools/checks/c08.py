"""C08 / C09 — HTTP client: specs/http/HttpGen.tla (response grammar, emitted by TLC), HttpTrace.tla (abstract trace
specification with the Decode oracle), harness/drv_http.c."""
import hashlib, json, os, random
import vlib
from checks import c06

SD = os.path.join(vlib.SPECS, "http")
# the TLS transport: the engine's plaintext side is mapped onto the scripted socket by the driver
TLS_WRAPS = ["SSL_read_ex", "SSL_write_ex", "SSL_get_error", "SSL_shutdown", "SSL_set_fd"]


def tls(p):
    """the same scenario over https_request / netbuf_ssl / network_ssl"""
    return p.replace("\nmaxrlen ", "\ntls\nmaxrlen ", 1)


def build(c):
    srcs = [os.path.join(vlib.HARNESS, f) for f in ("drv_http.c", "allocwrap.c")] + vlib.repo_srcs(
        *(c06.EV_SRCS + ["network/network_read.c", "network/network_write.c", "network/network_connect.c",
                         "netbuf/netbuf_read.c", "netbuf/netbuf_write.c", "http/http.c", "http/https.c", "netbuf/netbuf_ssl.c",
                         "network_ssl/network_ssl.c", "network_ssl/network_ssl_compat.c",
                         "util/sock.c", "util/sock_util.c", "util/asprintf.c", "alg/sha256.c", "alg/sha256_shani.c", "alg/sha256_sse2.c",
                         "util/insecure_memzero.c", "cpusupport/cpusupport_x86_shani.c", "cpusupport/cpusupport_x86_sse2.c",
                         "cpusupport/cpusupport_x86_ssse3.c"]))
    return vlib.build(c.dir, "drv_http", srcs, wraps=c06.WRAPS + TLS_WRAPS, libs=["-lssl", "-lcrypto"])


def hx(b):
    return b.hex()


def body_bytes(n, seed):
    out = bytearray()
    x = (seed * 2654435761 + 12345) & 0xffffffff
    while len(out) < n:
        x = (x * 1103515245 + 12345) & 0xffffffff
        out += x.to_bytes(4, "little")
    return bytes(out[:n])


def chunk_sizes(plan, n, rnd):
    if n == 0:
        return []
    if plan == "one":
        return [n]
    if plan == "bytes":
        return [1] * min(n, 300) + ([n - 300] if n > 300 else [])
    if plan == "halves":
        return [n // 2, n - n // 2] if n > 1 else [n]
    if plan == "small":
        out, left = [], n
        while left > 0 and len(out) < 1500:
            k = min(left, rnd.choice([1, 2, 3, 15, 16, 17, 255, 256]))
            out.append(k)
            left -= k
        return out + ([left] if left else [])
    if plan == "bigfirst":
        k = min(n, 1048577)
        return [k] + ([n - k] if n > k else [])
    out, left = [], n
    while left > 0 and len(out) < 200:
        k = min(left, rnd.choice([1, 10, 4096, 4095, 4097, 65536, 1048576, rnd.randint(1, left)]))
        out.append(k)
        left -= k
    return out + ([left] if left else [])


def make_headers(nh, ows, vform, rnd):
    raw, exp = [], []
    for i in range(nh):
        name = rnd.choice(["X-A", "Server", "Date", "ETag", "X-Long-Header-Name", "a", "Content-Type"]) + (str(i) if nh > 6 else "")
        confusable = None
        if vform not in ("long",) and rnd.random() < 0.12:
            # names that merely begin or end like a framing header are ordinary headers, whatever they say
            name, confusable = rnd.choice([("Content-Length-Limit", "3"), ("Content-Lengths", "3, 4"), ("X-Content-Length", "1"), ("Content-Length2", "0"),
                                           ("Transfer-Encoding-Supported", "chunked, gzip"), ("Transfer-Encodings", "chunked"), ("X-Transfer-Encoding", "chunked"),
                                           ("Content-Lengt", "7"), ("Transfer-Encodin", "chunked")])
        if vform == "empty" and i % 2 == 0:
            val = ""
        elif vform == "colon":
            val = "a:b::c:" + str(i)
        elif vform == "long":
            val = "v" * (rnd.choice([100, 1000, 3000]) if nh <= 5 else 100)      # header block stays below the client's 64 KiB limit
        else:
            val = rnd.choice(["x", "text/plain; charset=utf-8", "Mon, 01 Jan 2001 00:00:00 GMT", "1",
                              "Jos\u00e9", "\u00fc", "na\u00efve caf\u00e9", "\u00ff\u0080", "a\x7f", "\x01x\x02"])      # obs-text and control bytes are part of a value
        if confusable is not None:
            val = confusable
        pre = {"none": "", "sp": " ", "tab": "\t", "both": " \t ", "trail": " "}[ows]
        post = {"none": "", "sp": "", "tab": "", "both": " \t", "trail": "  \t"}[ows]
        raw.append((name + ":" + pre + val + post).encode())
        exp.append((name, val))
    return raw, exp


def wellformed(s, rnd, seed, align=None):
    """structure (from HttpGen) -> (program text).  The expected decoding is carried in the plan."""
    method = s["method"]
    status = s["status"]
    n = s["bodysize"]
    framing = s["framing"]
    nobody = method == "HEAD" or status in (204, 304)
    if n > 70000 and rnd.random() < 0.7:
        n = rnd.choice([70000, 20000])           # keep most executions small; the big ones are still sampled
    body = body_bytes(n, seed)
    raw, exp = make_headers(s["nhdr"], s["ows"], s["vform"], rnd)
    if framing == "clen":
        cl = 0 if nobody and rnd.random() < 0.5 else n
        # Content-Length = 1*DIGIT: leading zeros are part of the grammar (and must not turn the number into octal)
        fh = (b"Content-Length: %0*d" % (rnd.choice([2, 3, 10, 19]) + len(str(cl)) - 1, cl)) if rnd.random() < 0.2 else (b"Content-Length: %d" % cl)
        fe = ("Content-Length", None)
    elif framing == "chunked":
        fh, fe = b"Transfer-Encoding: chunked", ("Transfer-Encoding", "chunked")
    else:
        fh, fe = None, None
    if fh is not None:
        k = rnd.randint(0, len(raw))
        raw.insert(k, fh)
        exp.insert(k, (fe[0], fh.split(b": ", 1)[1].decode()))
    payload = b""
    if not nobody:
        if framing == "chunked":
            off = 0
            for k in chunk_sizes(s["chunks"], n, rnd):
                sz = ("%X" if s["ext"] == "upper" else "%x") % k
                ext = {"none": "", "ext": ";foo", "extval": ";foo=bar;baz", "upper": ""}[s["ext"]]
                payload += (sz + ext).encode() + b"\r\n" + body[off:off + k] + b"\r\n"
                off += k
            payload += b"0\r\n\r\n"
        else:
            payload = body
    reason = {200: "OK", 204: "No Content", 304: "Not Modified", 404: "Not Found"}.get(status, "Whatever")
    final_head = ("HTTP/1.%d %d %s\r\n" % (rnd.choice([0, 1]), status, reason)).encode() + b"".join(h + b"\r\n" for h in raw) + b"\r\n"
    interim = b""
    for kind in s["interim"]:
        padlen = max(0, len(final_head) + rnd.choice([5, 40, 300])) if kind == "long" else 0
        interim += b"HTTP/1.1 100 Continue\r\n" + (b"X-Pad: " + b"p" * padlen + b"\r\n" if padlen else b"") + b"\r\n"
    stream = interim + final_head + payload
    if nobody:
        blen = 0
    else:
        blen = n
    lim = {"zero": 0, "below2": max(0, blen - 2), "below1": max(0, blen - 1), "exact": blen, "above1": blen + 1, "above2": blen + 2,
           "double": 2 * blen + 7, "huge": 2 ** 31 - 1}[s["limit"]]
    fin = "E" if (framing == "eof" and not nobody) else rnd.choice(["E", "none", "none"])
    plan = {"kind": "wellformed", "maxrlen": lim, "status": status, "headers": [[hx(a.encode()), hx(b.encode())] for a, b in exp],
            "bodylen": blen, "bodysha": hashlib.sha256(body if not nobody else b"").hexdigest(), "complete": True, "ends": True}
    if blen <= 2048 and not nobody:
        plan["body"] = hx(body)
    return program(plan, method, stream, lim, fin, s["seg"], rnd)


def seg_sizes(kind, total, rnd):
    if kind == "all":
        return [max(1, total)]
    if kind == "bytes":
        return [1] if total <= 30000 else [rnd.choice([5, 7])]
    if kind == "two":
        k = rnd.randint(1, max(1, total - 1))
        return [k, max(1, total - k)]
    if kind == "primes":
        return [2, 3, 5, 7, 11, 13, 1009]
    if kind == "edge":
        return [4096]
    return [rnd.choice([1, 2, 3, 50, 1000, 4095, 4096, 4097, 9999]) for _ in range(rnd.randint(1, 12))]


REQCH = "".join(chr(i) for i in range(33, 127))


def program(plan, method, stream, lim, fin, seg, rnd, cancel=None, reqhdrs=None, reqbody=b"", conn="O", fail=None, stall=False):
    L = ["prog http", "plan " + json.dumps(plan, separators=(",", ":")), "method " + method,
         "path " + rnd.choice(["/", "/a/b?c=d", "/" + "x" * 300, "/" + "".join(rnd.choice(REQCH) for _ in range(rnd.choice([1, 7, 63, 64, 65, 500, 1000])))])]
    if reqhdrs is None and rnd.random() < 0.3:
        # the request is sent as given: up to 40 headers, names and values of any printable bytes (values also empty, with inner
        # spaces and colons, several kB long), repeated names
        reqhdrs = []
        for _ in range(rnd.choice([1, 2, 5, 16, 17, 40])):
            name = rnd.choice(["Host", "X-A", "Content-Type", "Connection", "x", "".join(rnd.choice(REQCH.replace(":", "")) for _ in range(rnd.choice([1, 9, 30])))])
            val = "".join(rnd.choice(REQCH + "  :") for _ in range(rnd.choice([0, 1, 8, 60, 255, 256, 4000]))).strip()
            reqhdrs.append((name, val))
    for h, v in (reqhdrs if reqhdrs is not None else [("Host", "example.com"), ("X-Empty", ""), ("Accept", "*/*")][:rnd.randint(0, 3)]):
        L.append("hdr %s %s" % (h, v))
    if method in ("POST", "PUT") and rnd.random() < 0.8:
        reqbody = reqbody or body_bytes(rnd.choice([0, 1, 100, 5000, 20000]), 7)
    if reqbody:
        L.append("reqbody " + hx(reqbody))
    # "no limit" is given as 2^31 - 1 in the plan; the call itself also gets the largest values of the type (sums with them wrap)
    L.append("maxrlen %d" % (lim if lim != 2 ** 31 - 1 else rnd.choice([2 ** 31 - 1, 2 ** 64 - 1, 2 ** 64 - 2, 2 ** 64 - 3, 2 ** 63, 2 ** 32, 2 ** 64 - 1])))
    for i in range(0, len(stream), 30000):
        L.append("resp " + hx(stream[i:i + 30000]))
    sizes = seg if isinstance(seg, list) else seg_sizes(seg, len(stream), rnd)
    avg = max(1.0, sum(sizes) / float(len(sizes)))
    if len(stream) / avg > 20000:            # keep the number of scripted answers (and the trace) bounded
        f = int(len(stream) / avg / 20000) + 1
        sizes = [x * f for x in sizes]
    L.append("seg " + " ".join(str(x) for x in sizes))
    if rnd.random() < 0.3:
        L.append("noise %d" % rnd.choice([1, 2, 5]))
    L.append("fin " + fin)
    L.append("connect " + conn)
    L.append("txseg " + " ".join(str(x) for x in rnd.choice([[1 << 24], [100, 4096, 1 << 20], [4096], [1000, 30000]])))
    if stall:
        # the server does not read (all of) the request: a write stays in flight while the response / EOF / cancel arrives
        L.append("txcount %d" % rnd.choice([0, 1, 2, 3]))
        if rnd.random() < 0.5:
            L.append("early 1")
    # properties of the calling process that are none of the response's business: warnings sent to syslog; a callback that, having
    # released the body, returns an error of its own
    if rnd.random() < 0.2:
        L.append("syslog")
    if rnd.random() < 0.15:
        L.append("cbrc %d" % rnd.choice([-1, 1, 7]))
    if cancel is not None:
        L.append("cancel %d" % cancel)
    if fail:
        L.append("fail %d %s" % fail)
    L.append("end")
    return "\n".join(L) + "\n"


def simple_response(rnd, seed, chunked=None, n=None, nh=None):
    s = {"method": "GET", "status": 200, "framing": rnd.choice(["clen", "chunked", "eof"]) if chunked is None else ("chunked" if chunked else "clen"),
         "bodysize": rnd.choice([0, 5, 100, 5000]) if n is None else n, "limit": "huge", "chunks": rnd.choice(["one", "small", "mixed"]),
         "ext": rnd.choice(["none", "ext"]), "interim": rnd.choice([[], ["short"], ["long"]]), "nhdr": rnd.choice([0, 2, 5]) if nh is None else nh,
         "ows": "sp", "vform": "plain", "seg": "all"}
    return s


def hostile(rnd, seed):
    """structured mutations of valid responses (C08): only the memory-safety / one-callback / range clauses apply"""
    s = simple_response(rnd, seed)
    method = rnd.choice(["GET", "GET", "HEAD", "POST"])
    body = body_bytes(s["bodysize"], seed)
    n = len(body)
    head = b"HTTP/1.1 200 OK\r\nServer: x\r\n"
    kind = rnd.choice(["truncate", "badchunk", "hugechunk", "negchunk", "wschunk", "emptychunk_edge", "nocrlf", "nul", "bighdr", "flood",
                       "junk", "bitflip", "limit", "status", "clen", "emptyline_edges", "chunk_at_limit", "longchunkline", "interim_incomplete", "interim_incomplete"])
    lim = rnd.choice([0, 1, 10, 100, 5000, 2 ** 31 - 1])
    if kind in ("badchunk", "hugechunk", "negchunk", "wschunk", "nocrlf", "longchunkline", "chunk_at_limit", "emptychunk_edge", "emptyline_edges"):
        head += b"Transfer-Encoding: chunked\r\n"
        if kind == "chunk_at_limit":
            # chunked body ending exactly at / 1 / 2 bytes below the limit
            n = rnd.choice([1, 10, 100, 4096])
            body = body_bytes(n, seed)
            lim = n + rnd.choice([0, 0, 1, 1, 2, 3])
            stream = head + b"\r\n" + (b"%x\r\n" % n) + body + b"\r\n0\r\n\r\n"
        elif kind in ("emptychunk_edge", "emptyline_edges"):
            # an empty chunk-size line ending exactly at the end of the reader's 4096-byte buffer (or 8192, ...)
            edge = rnd.choice([4096, 4096, 8192])
            tail = b"5\r\nhello\r\n" + b"\r\n"
            fixed = len(head) + len(b"X-Pad: \r\n\r\n") + len(tail)
            pad = edge - fixed
            stream = head + b"X-Pad: " + b"p" * max(0, pad) + b"\r\n\r\n" + tail
            lim = 2 ** 31 - 1
            if kind == "emptyline_edges":
                stream = stream[:-2] + rnd.choice([b"\r\n", b" \r\n"[1:], b"\t\r", b"\r\n\r\n"])
        else:
            size = {"badchunk": b"zz", "hugechunk": rnd.choice([b"ffffffffffffffff", b"fffffffffffffffe", b"7fffffffffffffff", b"100000000000000000"]),
                    "negchunk": rnd.choice([b"-1", b"-5", b"-ffffffffffffffff"]), "wschunk": rnd.choice([b" 5", b"\t5", b"5 ", b" ", b""]),
                    "nocrlf": b"5", "longchunkline": b"5;" + b"e" * rnd.choice([250, 251, 252, 253, 254, 255, 256, 300, 5000])}[kind]
            sep = b"" if kind == "nocrlf" else b"\r\n"
            pre = b""
            if kind == "hugechunk" and rnd.random() < 0.6:
                # a huge size in a later chunk: together with what has been received it wraps around 2^64 (or only just does not)
                k = rnd.choice([1, 16, 100])
                pre = (b"%x\r\n" % k) + body_bytes(k, seed + 1) + b"\r\n"
                size = b"%x" % rnd.choice([2 ** 64 - k, 2 ** 64 - k - 1, 2 ** 64 - k + 5, 2 ** 64 - 3, 2 ** 64 - 11, 2 ** 63, 2 ** 64 - 256])
                lim = rnd.choice([k, k + 1, k + 10, 5000, 2 ** 31 - 1])
            stream = head + b"\r\n" + pre + size + sep + body[:5].ljust(5, b"x") * rnd.choice([1, 1, 40]) + b"\r\n0\r\n\r\n"
    elif kind == "interim_incomplete":
        # interim response(s), then the stream ends (or stalls, or overflows) before a complete final header block
        nxt = rnd.choice([b"", b"HTTP/1.1 200 OK\r\nServer: x", b"HTTP/1.1 200 OK\r\nServer: x\r\n\r", b"X-Big: " + b"b" * 70000, b"HTTP/1.1 999 Bad\r\n\r\n", b"\x00\r\n\r\n"])
        stream = b"HTTP/1.1 100 Continue\r\n" + rnd.choice([b"", b"X-Pad: " + b"p" * 100 + b"\r\n"]) + b"\r\n" + nxt
    elif kind == "truncate":
        full = head + (b"Content-Length: %d\r\n\r\n" % n) + body
        stream = full[:rnd.randint(0, len(full))]
    elif kind == "nul":
        full = bytearray(head + (b"Content-Length: %d\r\n\r\n" % n) + body)
        full[rnd.randrange(min(len(full), 60))] = 0
        stream = bytes(full)
    elif kind == "bighdr":
        stream = head + b"X-Big: " + b"b" * rnd.choice([65000, 65536, 65537, 70000, 140000]) + rnd.choice([b"\r\n\r\n", b""])
    elif kind == "flood":
        stream = b"HTTP/1.1 100 Continue\r\n\r\n" * rnd.choice([10, 200, 450]) + head + b"Content-Length: 0\r\n\r\n"
    elif kind == "junk":
        stream = body_bytes(rnd.choice([1, 10, 300, 5000]), seed + 1)
    elif kind == "bitflip":
        full = bytearray(head + (b"Transfer-Encoding: chunked\r\n\r\n5\r\nhello\r\n3;x\r\nabc\r\n0\r\n\r\n"))
        for _ in range(rnd.randint(1, 4)):
            full[rnd.randrange(len(full))] ^= 1 << rnd.randrange(8)
        stream = bytes(full)
    elif kind == "limit":
        lim = rnd.choice([max(0, n - 1), n, n + 1])
        stream = head + (b"Content-Length: %d\r\n\r\n" % n) + body
    elif kind == "status":
        st = rnd.choice([b"99", b"600", b"1000", b"-200", b"2147483648", b"abc", b"200abc", b""])
        stream = b"HTTP/" + rnd.choice([b"1.1", b"2.0", b"1", b"x.y", b"1.1"]) + b" " + st + b" X\r\nContent-Length: 0\r\n\r\n"
    else:  # clen
        cl = rnd.choice([b"-1", b"abc", b"18446744073709551616", b"18446744073709551615", b" 5", b"5 ", b"0x5", b"+5", b"",
                         b"9" * 4000, b"9" * 4080, b"1" * 20000, b"7" * 60000, b"x" * 4200])
        stream = head + b"Content-Length: " + cl + b"\r\n\r\n" + body
    fin = rnd.choice(["E", "E", "X", "none"])
    plan = {"kind": "hostile", "mutation": kind, "maxrlen": lim, "complete": False, "ends": fin != "none"}
    seg = rnd.choice(["all", "all", "bytes", "two", "primes", "edge", "random"])
    if kind in ("emptychunk_edge", "emptyline_edges"):
        seg = rnd.choice(["all", "edge", "edge"])
    stall = rnd.random() < 0.25
    return program(plan, method, stream, lim, fin, seg, rnd, cancel=rnd.choice([None, None, None, rnd.randint(0, 12)]),
                   conn=rnd.choice(["O", "O", "P:500", "F O", "R:300 O", "F", "F F", "R:300", "F R:200", "R:100 R:200"]), stall=stall,
                   reqbody=body_bytes(rnd.choice([1, 5000, 20000, 60000]), 9) if stall and method == "POST" else b"")


def nontrivial(ex):
    return any(e.get("e") == "recv" for e in ex)


def run(c, prop):
    rnd = random.Random(c.seed * 31 + (8 if prop == "C08" else 9))
    exe = build(c)
    n = c.pick(250, 6000)
    r, cases = vlib.tlc_emit(SD, "HttpGen", args=["-simulate", "num=%d" % n, "-depth", "13", "-seed", str(c.seed)], timeout=900)
    if not cases:
        raise vlib.ToolFailure("HttpGen produced nothing\n" + r.out[-2000:])
    c.cov["tlc_generated_structures"] = len(cases)
    c.add_mc("HttpAbs (request life cycle against every transport outcome; body <= 6, limits {0,1,3,6}, <= 2 interim responses)",
             vlib.tlc(SD, "HttpAbs", "HttpAbsMC.cfg", workers=8, timeout=600, coverage=True))
    c.cov["exhaustive"] = True
    nh = c.pick(1500, 20000) if prop == "C08" else c.pick(300, 5000)

    def programs():
        # every fourth scenario runs over the TLS transport (https_request: netbuf_ssl and network_ssl under http.c)
        for i, s in enumerate(cases):
            p = wellformed(s, rnd, i + c.seed)
            yield tls(p) if i % 4 == 3 else p
        for i in range(nh):
            p = hostile(rnd, i + c.seed)
            yield tls(p) if i % 4 == 3 else p
        # well-formed responses cancelled at every early instant
        for i in range(c.pick(60, 600)):
            p = wellformed(simple_response(rnd, i), rnd, i)
            p = p.replace("\nend\n", "\ncancel %d\nend\n" % rnd.randint(0, 8))
            yield tls(p) if i % 4 == 3 else p
    # in batches: a program holds its response as hex text (megabytes for the largest), so neither all programs nor all
    # recorded executions are kept in memory at once
    batch, k, size = [], 0, 0
    for p in programs():
        batch.append(p)
        size += len(p)
        if len(batch) >= 2500 or size > 400 * 1000 * 1000:
            vlib.conformance(c, exe, batch, SD, "HttpTrace", "HttpTrace.cfg", "http" if k == 0 else "http_%d" % k, procs=12, shards=12,
                             nontrivial=nontrivial, run_timeout=1200, tv_timeout=1500)
            batch, k, size = [], k + 1, 0
    if batch:
        vlib.conformance(c, exe, batch, SD, "HttpTrace", "HttpTrace.cfg", "http" if k == 0 else "http_%d" % k, procs=12, shards=12,
                         nontrivial=nontrivial, run_timeout=1200, tv_timeout=1500)
    c.cov["rule"] = ("responses: structures of well-formed HTTP/1.x responses generated by TLC from HttpGen.tla (1xx interim blocks shorter/longer than the "
                     "final header block, three framings, chunk plans up to above the 1 MiB wait cap, OWS forms, body sizes relative to the limit) concretised "
                     "to bytes, plus structured hostile mutations (bad/huge/negative/whitespace chunk sizes, missing CRLF, NUL bytes, >64 KiB headers, 1xx "
                     "floods, bodies at/below/above the limit, buffer-edge alignment of empty lines, truncation at random offsets, bit flips), every one under "
                     "several segmentations down to single bytes, with EAGAIN/EINTR noise, EOF/error/stall endings, connection plans and cancellation instants; "
                     "every fourth scenario over the TLS transport (https_request, netbuf_ssl, network_ssl; the engine's plaintext side mapped onto the same scripted socket); "
                     "executed by the real http.c stack in a forked child (ASan/UBSan/LSan) and validated by TLC against HttpTrace.tla; "
                     "non-trivial = the client read at least one answer; distinct = SHA-256 of the program")
    c.cov["trusted_base"] = ["TLC", "Python concretiser of HttpGen structures (encoder side of the oracle)", "fake kernel + scripted sockets",
                             "gcc ASan/UBSan/LSan", "hashlib SHA-256 for expected body digests"]
    c.assumptions += ["limits below 2^31", "at most 450 interim responses / 1500 chunks per response (recursion depth of the -O2 build)"]


def main(c):
    run(c, "C08")
