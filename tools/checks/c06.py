"""C06 — asynchronous read / write / connect / accept: specs/network/NetRW.tla, NetConnect.tla (exhaustive fault-sequence
enumeration by TLC, every case replayed), NetTrace.tla (abstract trace specification), harness/drv_net.c."""
import os, random
import vlib

SD = os.path.join(vlib.SPECS, "network")
WRAPS = ["poll", "clock_gettime", "malloc", "calloc", "realloc", "free", "recv", "send", "socket", "connect", "getsockopt", "setsockopt", "accept", "close"]
EV_SRCS = ["events/events.c", "events/events_immediate.c", "events/events_network.c", "events/events_network_selectstats.c",
           "events/events_timer.c", "datastruct/timerqueue.c", "datastruct/ptrheap.c", "datastruct/elasticarray.c",
           "util/monoclock.c", "util/warnp.c"]
NET_SRCS = ["network/network_read.c", "network/network_write.c", "network/network_connect.c", "network/network_accept.c",
            "util/sock.c", "util/sock_util.c", "util/asprintf.c"]


def build(c):
    srcs = [os.path.join(vlib.HARNESS, f) for f in ("drv_net.c", "allocwrap.c")] + vlib.repo_srcs(*(EV_SRCS + NET_SRCS))
    return vlib.build(c.dir, "drv_net", srcs, wraps=WRAPS)


K = {"DATA": "D", "EAGAIN": "A", "EINTR": "I", "EOF": "E", "ERR": "X"}


def rw_program(case, spaced, rnd):
    d = case["dir"]
    q = "rx" if d == "r" else "tx"
    L = ["prog net", "nfd 1", "main"]
    ans = case["answers"]
    cancel_at = next((i for i, a in enumerate(ans) if a[0] == "CANCEL"), None)
    pre = ans if cancel_at is None else ans[:cancel_at]
    for i, a in enumerate(pre):
        err = rnd.choice([104, 32, 110]) if a[0] == "ERR" else (11 if a[0] == "EAGAIN" else 0)
        L.append("  %s 0 %s %d %d %d" % (q, K[a[0]], a[1], err, i * 1000 if spaced else 0))
    L.append("  %s 1 0 %d %d" % ("read" if d == "r" else "write", case["buflen"], case["min"]))
    if cancel_at is not None:
        L += ["  runk"] * (cancel_at + 2)
        L.append("  cancel 1")
        L.append("  %s 0 D 4 0 0" % q)       # the kernel has more to offer: a cancelled request must not touch it
        L += ["  runk", "  runk"]
        # the descriptor is free for a new request
        L.append("  %s 2 0 %d %d" % ("read" if d == "r" else "write", 4, 1))
    L += ["  drain", "endmain", "end"]
    return "\n".join(L) + "\n"


PLAN = {"F": "F", "S": "S", "O": "O", "P": "P:300", "R": "R:300", "N": "N", "Pl": "P:5000", "Rl": "R:5000"}


def connect_program(case):
    L = ["prog net", "nfd 1", "main"]
    plan = " ".join(PLAN[k] for k in case["plan"])
    L.append("  connect 1 %d %s" % ({"none": -1, "short": 1000, "zero": 0}[case["timeo"]], plan))
    if case["cancel"]:
        L += ["  runk"] * (case["cancel"] - 1)
        L.append("  cancel 1")
        L += ["  runk"]
    L += ["  drain", "endmain", "end"]
    return "\n".join(L) + "\n"


def random_program(rnd):
    """several descriptors, concurrent reads and writes, back-to-back requests from callbacks, long EAGAIN/EINTR runs,
    large buffers, accept scripts, connection lists"""
    nfd = rnd.randint(1, 4)
    L = ["prog net", "nfd %d" % nfd]
    scripts, main = [], []
    rid = [0]

    def newreq():
        rid[0] += 1
        return rid[0]

    def answers(fd, q, total):
        t = 0
        left = total
        while left > 0:
            k = rnd.choice("DDDDDAAI")
            if k == "D":
                n = rnd.choice([1, 1, 2, 3, 7, 64, 1000, left, rnd.randint(1, left)])
                n = min(n, left)
                main.append("rx %d D %d 0 %d" % (fd, n, t) if q == "rx" else "tx %d D %d 0 %d" % (fd, n, t))
                left -= n
            else:
                main.append("%s %d %s 0 %d %d" % (q, fd, k, 11 if k == "A" else 0, t))
            if rnd.random() < 0.4:
                t += rnd.choice([1, 500, 1000, 2500])
        end = rnd.choice(["none", "none", "E", "X"]) if q == "rx" else rnd.choice(["none", "none", "X"])
        if end != "none":
            main.append("%s %d %s 0 %d %d" % (q, fd, end, rnd.choice([104, 32]) if end == "X" else 0, t))

    for fd in range(nfd):
        if rnd.random() < 0.8:
            answers(fd, "rx", rnd.choice([3, 10, 100, 5000, 70000]))
        if rnd.random() < 0.7:
            answers(fd, "tx", rnd.choice([3, 10, 100, 5000, 70000]))
    for fd in range(nfd):
        for kind in ("read", "write"):
            if rnd.random() < 0.75 and rid[0] < 50:
                r = newreq()
                bl = rnd.choice([1, 2, 5, 64, 4096, 65536])
                main.append("%s %d %d %d %d" % (kind, r, fd, bl, rnd.choice([0, 1, bl, rnd.randint(0, bl)])))
                # chain of back-to-back requests started from the completion callback
                cur = r
                for _ in range(rnd.choice([0, 0, 1, 2, 4])):
                    nxt = newreq()
                    bl = rnd.choice([1, 3, 64, 5000])
                    scripts.append((cur, ["%s %d %d %d %d" % (kind, nxt, fd, bl, rnd.choice([0, 1, bl]))], 0))
                    cur = nxt
    if rnd.random() < 0.3 and rid[0]:
        main.append("runk")
        main.append("cancel %d" % rnd.randint(1, rid[0]))
    for r, ops, rc in scripts:
        L += ["script %d rc %d" % (r, rc)] + ["  " + o for o in ops] + ["endscript"]
    L += ["main"] + ["  " + m for m in main] + ["  drain", "endmain", "end"]
    return "\n".join(L) + "\n"


def big_rw_programs(rnd):
    """one read / write of 1 MiB and more (and the neighbours of the power of two), minimum = everything / one byte less / 1, the kernel
    moving it in one piece, two pieces or 64 KiB pieces: the count reported lies between the minimum and the length, data byte-exact"""
    out = []
    for kind, q in (("read", "rx"), ("write", "tx")):
        for n in ((1 << 20), (1 << 20) + 1, 3145854):
            for mn in (n, n - 1, 1):
                for style in ("one", "two", "pieces"):
                    L = ["prog net", "nfd 1", "main"]
                    if style == "one":
                        L.append("  %s 0 D %d 0 0" % (q, n))
                    elif style == "two":
                        L += ["  %s 0 D %d 0 0" % (q, n // 2), "  %s 0 A 0 11 0" % q, "  %s 0 D %d 0 0" % (q, n - n // 2)]
                    else:
                        L += ["  %s 0 D 65536 0 0" % q] * (n // 65536 + 1)
                    L += ["  %s 1 0 %d %d" % (kind, n, mn), "  drain", "endmain", "end"]
                    out.append("\n".join(L) + "\n")
    return out


def regroup_programs(rnd):
    """inside one dispatch round a callback cancels a request on a descriptor lower in the poll array (the array is compacted) and
    starts a connection (the array grows again): the fresh descriptor must not inherit readiness - the connection ends only when the
    kernel says so"""
    out = []
    for first in ("read", "write"):
        for plan in ("P:300", "R:300", "P:300 O", "N O"):
            for timeo in (-1, 1000):
                for extra in (0, 1):
                    L = ["prog net", "nfd %d" % (3 + extra), "script 2 rc 0", "  cancel 1", "  connect 9 %d %s" % (timeo, plan), "endscript", "main",
                         "  rx 2 D 5 0 0", "  tx 2 D 5 0 0", "  read 1 0 8 1"]
                    if extra:
                        L.append("  read 5 3 8 1")
                    pair = ["  read 2 2 5 1", "  write 3 2 5 1"] if first == "read" else ["  write 2 2 5 1", "  read 3 2 5 1"]
                    L += pair + ["  drain", "endmain", "end"]
                    out.append("\n".join(L) + "\n")
    return out


def accept_program(rnd):
    L = ["prog net", "nfd 1", "main"]
    t = 0
    for _ in range(rnd.randint(0, 6)):
        k = rnd.choice(["A 0 11", "A 0 103", "I 0 0", "A 0 11", "D 0 0", "X 0 24"])   # EAGAIN, ECONNABORTED, EINTR, connection, EMFILE
        L.append("  ax 0 %s %d" % (k, t))
        t += rnd.choice([0, 0, 1000])
    L.append("  accept 1 0")
    if rnd.random() < 0.3:
        L += ["  runk", "  cancel 1", "  accept 2 0"]
    L += ["  drain", "endmain", "end"]
    return "\n".join(L) + "\n"


def run(c, exe=None):
    rnd = random.Random(c.seed)
    exe = exe or build(c)
    progs = []
    n = c.pick(4, 5)
    for d in ("r", "w"):
        r, cases = vlib.tlc_emit(SD, "NetRW", "NetRW_%s%d.cfg" % (d, n), workers=1, timeout=900)
        c.add_mc("NetRW %s (buflen <= 4, every (buflen, min), every answer sequence <= %d, every cancellation instant)" % (d, n), r)
        if not cases:
            raise vlib.ToolFailure("NetRW produced nothing\n" + r.out[-2000:])
        c.cov.setdefault("enumerated_cases", {})["NetRW_" + d] = len(cases)
        progs += [rw_program(x, False, rnd) for x in cases]
        progs += [rw_program(x, True, rnd) for x in (cases if not c.quick else rnd.sample(cases, len(cases) // 4))]
    r, cases = vlib.tlc_emit(SD, "NetConnect", "NetConnect3.cfg", workers=1, timeout=900)
    c.add_mc("NetConnect (every plan over 8 outcomes of <= 3 addresses, no / short / zero per-address timeout, every cancellation instant)", r)
    if not cases:
        raise vlib.ToolFailure("NetConnect produced nothing\n" + r.out[-2000:])
    c.cov["enumerated_cases"]["NetConnect"] = len(cases)
    progs += [connect_program(x) for x in cases]
    progs += big_rw_programs(rnd)
    progs += regroup_programs(rnd)
    c.cov["exhaustive"] = True
    for _ in range(c.pick(600, 12000)):
        progs.append(random_program(rnd))
    for _ in range(c.pick(300, 3000)):
        progs.append(accept_program(rnd))
    vlib.conformance(c, exe, progs, SD, "NetTrace", "NetTrace.cfg", "net", procs=12, shards=12,
                     nontrivial=lambda ex: any(e.get("e") in ("recv", "send", "connect_call", "accept_call", "socket") for e in ex))
    c.cov["rule"] = ("fault-sequence enumeration: TLC enumerates every kernel answer sequence (data 1..4, EAGAIN, EINTR, EOF, error; every cancellation instant) "
                     "for every (buflen <= 4, min) and every outcome plan of <= 3 addresses; ALL of them are replayed against the real network_*.c on the real event loop "
                     "with scripted sockets, plus seeded random long programs (64 KiB buffers, EAGAIN/EINTR runs, back-to-back requests from callbacks, concurrent "
                     "read+write, accept scripts); every trace validated by TLC against NetTrace.tla; non-trivial = at least one socket call answered; distinct = SHA-256 of program")
    c.cov["trusted_base"] = ["TLC", "fake kernel + scripted sockets (harness/fakekernel.h, fakenet.h)", "gcc ASan/UBSan"]
    c.assumptions += ["getsockopt(SO_ERROR) itself never fails", "addresses are numeric (no resolver)"]


def main(c):
    run(c)
