"""C10 — Diffie-Hellman: specs/crypto/DH.tla over the ModExp primitive; blinding scripted at link time"""
import random
import vlib
from checks import cryptogen as g

P14 = None


def p14():
    global P14
    if P14 is None:
        import re
        s = open(g.SD + "/DH.tla").read()
        P14 = int(re.search(r'P14 == "([0-9a-f]+)"', s).group(1), 16)
    return P14


def two_byte_variations(rnd, p, n):
    """p with two bytes of one 8-byte word changed in opposite directions (the more significant one decides)"""
    out = []
    pb = bytearray(p.to_bytes(256, "big"))
    for _ in range(n):
        w = rnd.randrange(0, 32)
        i, j = sorted(rnd.sample(range(8 * w, 8 * w + 8), 2))
        b = bytearray(pb)
        d = rnd.choice([1, -1])
        if 0 <= b[i] + d <= 255 and 0 <= b[j] - d <= 255:
            b[i] += d
            b[j] -= d
            out.append(int.from_bytes(b, "big"))
    return out


def main(c):
    rnd = random.Random(c.seed)
    exe = g.build(c, "accel")
    p = p14()
    c.add_mc("DHMC (small group of the same shape: agreement and blinding-independence for every private value, peer value and blinding)", vlib.tlc(g.SD, "DHMC", "DHMC.cfg", workers=2, timeout=300))
    c.cov["exhaustive"] = True
    privs = [0, 1, 2, (1 << 256) - 1, (1 << 255), 1 << 8, rnd.getrandbits(200), rnd.getrandbits(256), rnd.getrandbits(256) | 1]
    blinds = [0, (1 << 256) - 1, 1, rnd.getrandbits(256), rnd.getrandbits(128)]
    peers = [0, 1, 2, p - 1, p, p + 1, (1 << 2048) - 1, rnd.getrandbits(2048) % p, rnd.getrandbits(2040), rnd.getrandbits(1000), p - 2, 1 << 2047]
    # peer values whose result has leading zero bytes: y = 2^k gives small results for suitable exponents; search a few by brute force
    for x in privs[:4]:
        e = (1 << 258) + x
        for _ in range(c.pick(300, 3000)):
            y = rnd.getrandbits(2048) % p
            if pow(y, e, p) >> 2040 == 0:
                peers.append(y)
                break
    lines = []
    h = lambda v, n: "%0*x" % (n, v)
    for x in privs:
        for b in blinds:
            lines.append("dhpub %s %s" % (h(x, 64), h(b, 64)))
    for y in peers:
        for x in rnd.sample(privs, 4):
            for b in rnd.sample(blinds, 2):
                lines.append("dhkey %s %s %s" % (h(y, 512), h(x, 64), h(b, 64)))
        # the shared key written over the peer's value
        lines.append("dhkeyi %s %s %s" % (h(y, 512), h(rnd.choice(privs), 64), h(rnd.choice(blinds), 64)))
    for y in (peers + [p - 1 - (1 << k) for k in (0, 8, 2040)] + [p + (1 << k) for k in (0, 8, 1000)] + [p ^ (1 << k) for k in range(0, 2048, 97)]
              + [p - (1 << k) for k in range(0, 2048, c.pick(37, 5))] + [p + (1 << k) for k in range(0, 2047, c.pick(41, 5))]
              + two_byte_variations(rnd, p, c.pick(40, 400))
              + [p - rnd.getrandbits(k) for k in (9, 60, 70, 200, 1000, 1990, 2040)] + [p + rnd.getrandbits(k) for k in (9, 60, 70, 200, 1000, 1980)]):
        if 0 <= y < (1 << 2048):
            lines.append("dhsane " + h(y, 512))
    # agreement on the library's own outputs: key(pub(a), b) = key(pub(b), a)
    for _ in range(c.pick(6, 60)):
        a, b = rnd.getrandbits(256), rnd.getrandbits(256)
        A, B = pow(2, (1 << 258) + a, p), pow(2, (1 << 258) + b, p)
        lines += ["dhpub %s %s" % (h(a, 64), h(rnd.getrandbits(256), 64)), "dhkey %s %s %s" % (h(B, 512), h(a, 64), h(rnd.getrandbits(256), 64)),
                  "dhkey %s %s %s" % (h(A, 512), h(b, 64), h(rnd.getrandbits(256), 64))]
    # every allocation of the bignum library refused in turn (one exponentiation needs about 60 of them): the call either reports
    # failure or returns the specified value
    for _ in range(c.pick(1, 6)):
        x, y = rnd.getrandbits(256), rnd.getrandbits(2048) % p
        for k in range(1, 91):
            lines.append("dhpub %s %s %d" % (h(x, 64), h(rnd.getrandbits(256), 64), k))
            lines.append("dhkey %s %s %s %d" % (h(y, 512), h(x, 64), h(rnd.getrandbits(256), 64), k))
    # an unrelated failure left in the bignum library's error queue is no failure of the exponentiation
    for _ in range(c.pick(6, 60)):
        x, y = rnd.getrandbits(256), rnd.getrandbits(2048) % p
        lines += ["osslerr", "dhpub %s %s" % (h(x, 64), h(rnd.getrandbits(256), 64)), "osslerr", "osslerr", "dhkey %s %s %s" % (h(y, 512), h(x, 64), h(rnd.getrandbits(256), 64))]
    # crypto_verify_bytes (what a caller compares shared keys and MACs with): equal buffers, a difference in the first / last / a middle
    # byte, in one bit, in every byte; lengths 0, 1, 31, 32, 33, 256, 1000
    for n in (0, 1, 2, 31, 32, 33, 256, 1000):
        a = bytes(rnd.getrandbits(8) for _ in range(n))
        vs = [a]
        for pos in sorted(set([0, n - 1, n // 2]) if n else []):
            for flip in (1, 0x80, 0xff):
                b = bytearray(a); b[pos] ^= flip; vs.append(bytes(b))
        if n:
            vs.append(bytes(x ^ 0xff for x in a)); vs.append(bytes(n)); vs.append(b"\xff" * n)
        for b in vs:
            lines.append("verify %s %s" % (a.hex() or "-", bytes(b).hex() or "-"))
    c.cov["calls"] = len(lines)
    g.run(c, exe, lines, "dh", per=40, shuffle=False)
    c.cov["rule"] = ("private values 0, 1, 2, 2^256-1, values with leading zero bytes and random; peer values 0, 1, 2, p-1, p, p+1, 2^2048-1, short, random, and values whose "
                     "result has leading zero bytes; blinding values 0, 2^256-1, 1, random (scripted by replacing the entropy call at link time); single-bit variations of p "
                     "for the sanity check; each of the first 90 bignum allocations of a call refused in turn; every result validated by TLC against 2^(2^258+x) mod p / y^(2^258+x) mod p (BigInteger.modPow), 256-byte big-endian; "
                     "an execution = 40 calls")
    c.cov["trusted_base"] = ["TLC", "java.math.BigInteger.modPow", "the group-14 modulus in DH.tla, re-derived from the RFC 3526 formula at setup"]
