"""C11 — HMAC_DRBG over OS entropy: specs/crypto/DrbgMC.tla (schedule MC), Drbg.tla (SP 800-90A in TLA+ over Hash.tla), CryptoTrace.tla;
/dev/urandom scripted at the open/read level; RDRAND excluded from the build."""
import random
import vlib
from checks import cryptogen as g


def main(c):
    rnd = random.Random(c.seed)
    exe = g.build(c, "accel")
    c.add_mc("DrbgMC (reseed interval 3, chunk 4, requests 0..9, entropy failure at each of its first three requests)",
             vlib.tlc(g.SD, "DrbgMC", "DrbgMC.cfg", workers=4, timeout=600, coverage=True))
    c.cov["exhaustive"] = True
    lines = []
    sizes = [0, 1, 31, 32, 33, 100, 65535, 65536, 65537, 70000, 131072, 131073]
    ent = lambda n: ",".join(rnd.choice(["f", "f", "f", "s%d" % rnd.randint(1, 47), "s1"]) for _ in range(n))
    for _ in range(c.pick(25, 120)):
        seq = [rnd.choice(sizes) for _ in range(rnd.randint(1, 6))]
        lines.append("drbg %s %s" % (",".join(map(str, seq)), ent(12)))
    # long runs crossing several reseed intervals
    for _ in range(c.pick(3, 20)):
        seq = [rnd.choice([1, 32, 33, 64]) for _ in range(rnd.choice([257, 300, 520, 800]))]
        lines.append("drbg %s %s" % (",".join(map(str, seq)), ent(40)))
    # entropy failure at each of its calls: instantiation, any reseed (error, EOF, open failure), then further calls
    for k in range(0, 4):
        for kind in ("x", "e", "o", "i", "s20,i", "s20,x", "s47,e"):
            seq = [32] * 300 + [1, 70000, 32]
            e = ["f"] * 8
            e[k] = kind
            lines.append("drbg %s %s" % (",".join(map(str, seq)), ",".join(e)))
            lines.append("drbg %s %s" % (",".join(map(str, [5, 5, 5])), ",".join(e)))
    # generate calls are what the reseed interval counts: empty requests count for nothing, a request of k x 65536 bytes for k
    for _ in range(c.pick(2, 12)):
        seq = [rnd.choice([0, 0, 0, 32, 1]) for _ in range(rnd.choice([300, 520]))] + [32] * 130
        lines.append("drbg %s %s" % (",".join(map(str, seq)), ent(40)))
    for big in (131073, 196608, 65537):
        seq = [1] * rnd.choice([249, 250, 251]) + [big] + [1] * 9 + [65537, 0, 1, 1]
        lines.append("drbg %s %s" % (",".join(map(str, seq)), ent(12)))
    # a request of several pieces that begins before the 256th generate call and ends after it: the fresh entropy is due in the middle
    for pre, big in ((254, 196608), (255, 131073), (253, 327680 + 17)):
        seq = [1] * pre + [big] + [1] * 3
        lines.append("drbg %s %s" % (",".join(map(str, seq)), ent(12)))
    if not c.quick:
        # (each byte of output is recomputed in TLA+: the run is kept to about 1.5 MB)
        seq = [65537] * 20 + [1] * 212 + [32] * 6 + [131073] + [32] * 3
        lines.append("drbg %s %s" % (",".join(map(str, seq)), ent(12)))
    # process life cycle: descriptors closed and re-used between two reseeds; random bytes asked for by an exit handler registered
    # before the generator was first used
    for _ in range(c.pick(2, 12)):
        seq = [32] * rnd.choice([3, 100, 255]) + [-1] + [32] * 300
        lines.append("drbg %s %s" % (",".join(map(str, seq)), ent(12)))
        seq = [-2] + [rnd.choice([1, 32, 100]) for _ in range(rnd.choice([1, 5, 256, 300]))]
        lines.append("drbg %s %s" % (",".join(map(str, seq)), ent(12)))
    # short reads in the middle of a seed
    for _ in range(c.pick(5, 50)):
        lines.append("drbg %s %s" % (",".join(["32"] * 260), ",".join(rnd.choice(["s1", "s7", "s31", "s47", "f"]) for _ in range(30))))
    c.cov["calls"] = len(lines)
    g.run(c, exe, lines, "drbg", per=2, tv_timeout=2400)
    c.cov["rule"] = ("sequences of request sizes over {0, 1, 31, 32, 33, 100, 65535, 65536, 65537, 70000, 131072, 131073}; runs of 257..800 requests crossing several "
                     "reseed intervals; the OS entropy source scripted at the open/read level (full reads, short reads of 1..47 bytes, read error EIO / EINTR also after a short read, EOF, open failure); empty requests and requests of several 65536-byte pieces counted against the reseed interval; "
                     "with a failure at each of its first four requests followed by further calls; every read re-run by TLC in Drbg.tla (HMAC in TLA+ over the JDK "
                     "SHA-256 primitive): byte-exact output, entropy asked exactly when and as much as specified, failure exactly when the source failed; "
                     "an execution = 2 scenarios, each in a forked child")
    c.cov["trusted_base"] = ["TLC", "JDK SHA-256 primitive", "scripted /dev/urandom (link-time wrap of open/read)"]
    c.assumptions += ["RDRAND is not compiled in (it only adds extra entropy; the property is about the OS entropy path)"]
