from checks import c08


def main(c):
    c08.run(c, "C09")
