"""C14 — allocation failure: every allocation index of every base scenario, once and persistently.
Container part: drv_heap / drv_ds with the allocation wrapper, validated against the same abstract trace
specifications as C12/C13 (their *Fail actions: failure value only if the allocator refused, state UNCHANGED,
cannot-fail operations succeed, nothing leaked)."""
import os, random, re
import vlib
from checks import c04, c06, c07, c08, c12, c13, evgen

SD = os.path.join(vlib.SPECS, "ds")


def with_fail(prog, k, mode):
    lines = prog.split("\n")
    return "\n".join([lines[0], "fail %d %s" % (k, mode)] + lines[1:])


FAULT_RND = random.Random(14)


def enumerate_faults(c, exe, base, module, cfg, tag, cap, sd=None, insert=None, **kw):
    """run base scenarios clean, read the number N of library allocations, then every k in 1..N, both modes"""
    execs, crashes = vlib.run_programs(exe, base, os.path.join(c.dir, tag + "base"), tag=tag, procs=8)
    if crashes:
        raise vlib.ToolFailure("base scenario crashed without fault injection: %s" % (crashes[0],))
    progs = []
    total = 0
    for p, ex in zip(base, execs):
        n = 0
        for ev in ex or []:
            if "allocs" in ev:
                n = max(n, ev["allocs"])
        total += n
        # every allocation index if there are at most `cap`; otherwise the first and the last third of the budget and a sample of
        # the ones in between (so that allocations made late in a scenario are refused as well)
        if n <= cap:
            ks = list(range(1, n + 1))
        else:
            a = max(1, cap // 3)
            ks = sorted(set(list(range(1, a + 1)) + list(range(n - a + 1, n + 1)) + FAULT_RND.sample(range(a + 1, n - a + 1), min(cap - 2 * a, n - 2 * a))))
        for k in ks:
            progs.append((insert or with_fail)(p, k, "once"))
            progs.append((insert or with_fail)(p, k, "persist"))
    c.cov.setdefault("fault_points", {})[tag] = {"scenarios": len(base), "allocations": total, "faulted_runs": len(progs)}
    vlib.conformance(c, exe, base + progs, sd or SD, module, cfg, tag, procs=10, shards=10,
                     nontrivial=lambda ex: any(e.get("inj", 0) > 0 for e in ex), **kw)
    return len(progs)


def known_http(prog, ex, line):
    """F11 (open): fatal allocation failure inside network_connect's retry leaves the HTTP request unreleasable (2 blocks)"""
    if not vlib.known_findings("C14"):
        return None
    if line == -1 and ex and ex[-1].get("e") == "__died__":
        # manifestation (b): the request is cancelled after the loop reported the fatal error
        rep = ex[-1].get("stderr", "")
        if ("heap-use-after-free" in rep and "in network_connect_cancel" in rep and "in http_request_cancel" in rep and "in tryconnect" in rep
                and "\nfail " in prog):
            return "F11 HTTP request cancelled after a fatal allocation failure inside network_connect's tryconnect touches the freed connection cookie"
        # F12: the request itself was freed by http.c's die() after a refused allocation in one of its callbacks
        if ("heap-use-after-free" in rep and re.search(r"#0 \S+ in http_request_cancel \S+http\.c:\d+\s*\n\s*#1 \S+ in run_child ", rep)
                and re.search(r"in die \S+http\.c", rep) and "\nfail " in prog):
            return "F12 HTTP request cancelled after http.c's die() freed it (fatal allocation failure in a callback, no callback to the owner)"
        return None
    if not (0 < line <= len(ex)) or ex[line - 1].get("e") != "exit" or ex[line - 1].get("live") != 2:
        return None
    if any(e.get("e") == "http_cb" for e in ex):
        return None
    for i, e in enumerate(ex):
        if e.get("e") == "run_ret" and e.get("rc") != 0 and e.get("inj", 0) > 0 and i >= 2 and ex[i - 1].get("e") == "close" and ex[i - 2].get("e") in ("connect_call", "getsockopt"):
            return "F11 HTTP request leaked (2 allocations) after a fatal allocation failure inside network_connect's attempt on a later address"
    return None


def main(c):
    rnd = random.Random(c.seed)
    FAULT_RND.seed(c.seed * 1000 + 14)
    exe_ds = c12.build(c)
    exe_heap = c13.build(c)
    c12.model_checks(c)      # ElasticArray with FAILS = {TRUE, FALSE}: FailUnchanged, Capacity under every realloc outcome
    nb = c.pick(12, 120)
    cap = c.pick(40, 400)
    base_ds = []
    for _ in range(nb):
        base_ds.append(c12.rand_ea(rnd, rnd.randint(4, 25), rnd.choice([3, 10, 40, 200])))
        base_ds.append(c12.eq_prog(c12.rand_q(rnd, rnd.randint(6, 90), "eq"), rnd.choice([1, 8, 24])))
        base_ds.append(c12.sm_prog(c12.rand_q(rnd, rnd.randint(6, 90), "sm")))
        base_ds.append(c12.mp_prog(rnd, rnd.randint(4, 60), rnd.choice([3, 9, 20])))
    # directed: an object pool whose stack of cached objects has to be doubled twice and more (every slot released in a row), with
    # every allocation - the doublings included - refused in turn; the pool must survive a refused doubling
    for one, n in ((True, 7), (False, 20)):
        L = ["prog mp"] + (["pool1 1"] if one else [])
        for rep in range(2):
            L += ["pmalloc %d" % i for i in range(1, n + 1)] + ["pfree %d" % i for i in range(1, n + 1)]
        L += ["pmalloc 1", "pmalloc 2", "patexit 1", "end"]
        base_ds.append("\n".join(L) + "\n")
    # directed: drain a queue/map far enough that compaction shrinks the backing array (shrink-time realloc failure)
    for n in (16, 64, 130):
        base_ds.append(c12.eq_prog([("add", i + 1) for i in range(n)] + [("delete", 0)] * (n - 1) + [("add", 7), ("add", 8), ("get", 0), ("get", 1), ("get", 2)], 8))
        base_ds.append(c12.sm_prog([("add", i + 1) for i in range(n)] + [("delete", i) for i in range(n - 1)] + [("add", 7), ("get", n), ("get", n - 1), ("getmin", 0)]))
        base_ds.append(c12.ea_prog([("append", 4, list(range(4 * 30))) for _ in range(n // 16)] + [("shrink", str(n // 2), 4)] * 8 + [("append", 2, [1, 2, 3, 4]), ("exportdup", 1)]))
    enumerate_faults(c, exe_ds, base_ds, "ElasticTrace", "ElasticTrace.cfg", "ds", cap)
    base_h, base_t = [], []
    for _ in range(nb):
        base_h.append(c13.rand_heap(rnd, rnd.choice([6, 40, 100]), rnd.choice([3, 50]), rnd.randint(6, 120), rnd.random() < 0.4))
        base_t.append(c13.rand_tq(rnd, rnd.choice([6, 40, 100]), rnd.choice([3, 40]), rnd.randint(6, 120)))
    # directed: grow to 64 then drain below a quarter, then add again
    base_h.append(c13.heap_prog([("add", i + 1, (i * 7) % 50) for i in range(64)] + [("deletemin", 0, 0)] * 52 + [("add", 100, 1), ("getmin", 0, 0)]))
    base_t.append(c13.tq_prog([("tadd", i + 1, (i * 7) % 40) for i in range(64)] + [("tgetptr", 60, 0)] * 52 + [("tadd", 100, 1), ("tgetmin", 0, 0)]))
    enumerate_faults(c, exe_heap, base_h, "PtrHeapTrace", "PtrHeapTrace.cfg", "heap", cap)
    enumerate_faults(c, exe_heap, base_t, "TimerQueueTrace", "TimerQueueTrace.cfg", "tq", cap)
    # ---- event loop: registrations from outside and inside callbacks; a failed registration may be made again ----
    def ev_insert(p, k, mode):
        return p.replace("main\n", "main\n  fail %d %s\n" % (k, mode), 1)
    base_ev = []
    for _ in range(c.pick(25, 250)):
        P = evgen.random_program(rnd)
        P.main = [x for op in P.main for x in ([op, op] if op.startswith("reg_") else [op])]      # every registration is tried twice
        base_ev.append(P.text())
    exe_ev = c04.build(c)
    enumerate_faults(c, exe_ev, base_ev, "EventsTrace", "EventsTrace.cfg", "ev", c.pick(12, 60), sd=c04.SD, insert=ev_insert)
    # 17 / 33 / 65 descriptors registered at once: the poll array and the descriptor table grow (by doubling) in the middle of a
    # registration; after the refusal the same and further registrations are made, everything becomes ready and is dispatched
    base_evbig = []
    for nfd in c.pick((17, 33), (16, 17, 18, 33, 34, 65)):
        P = evgen.Prog(nfd + 3)
        for fd in range(nfd + 3):
            sl = P.slot([], 0)
            P.main += ["reg_sock %d %d %s" % (sl, fd, "RW"[fd % 2])] * 2
        for fd in range(nfd + 3):
            P.main.append("env %d 3" % fd)
        P.main += ["run"] * 6
        base_evbig.append(P.text())
    enumerate_faults(c, exe_ev, base_evbig, "EventsTrace", "EventsTraceBig.cfg", "evmany", 400, sd=c04.SD, insert=ev_insert)
    # ---- asynchronous I/O ----
    base_net = [c06.random_program(rnd) for _ in range(c.pick(12, 120))] + [c06.accept_program(rnd) for _ in range(c.pick(6, 60))]
    base_net += [c06.connect_program({"plan": rnd.choice([["O"], ["F", "O"], ["R", "P"], ["F", "F"], ["P", "N"]]), "timeo": rnd.choice(["none", "short", "short", "zero"]), "cancel": 0}) for _ in range(c.pick(8, 60))]
    enumerate_faults(c, c06.build(c), base_net, "NetTrace", "NetTrace.cfg", "net", c.pick(10, 40), sd=c06.SD, insert=ev_insert)
    # ---- buffered reader / writer ----
    base_nb = [c07.reader_program(rnd) for _ in range(c.pick(8, 80))] + [c07.writer_program(rnd, zero=True) for _ in range(c.pick(8, 80))]
    base_nb += [c07.tls(c07.reader_program(rnd)) for _ in range(c.pick(3, 30))] + [c07.tls(c07.writer_program(rnd, zero=True)) for _ in range(c.pick(3, 30))]
    enumerate_faults(c, c07.build(c), base_nb, "NbTrace", "NbTrace.cfg", "nb", c.pick(10, 40), sd=c07.SD, insert=ev_insert)
    # ---- HTTP requests ----
    def http_insert(p, k, mode):
        return p.replace("\nend\n", "\nfail %d %s\nend\n" % (k, mode))
    base_http = [c08.wellformed(c08.simple_response(rnd, i), rnd, i) for i in range(c.pick(6, 60))] + [c08.hostile(rnd, i) for i in range(c.pick(4, 40))]
    # interim responses that carry header lines, then a final response with headers (every allocation of these is refused in turn)
    for i, (fr, nb) in enumerate((("clen", 5), ("chunked", 100), ("eof", 5))):
        st = c08.simple_response(rnd, 100 + i, n=nb, nh=2)
        st["framing"], st["interim"] = fr, ["long", "long"] if i == 1 else ["long"]
        base_http.append(c08.wellformed(st, rnd, 100 + i))
    # the TLS entry point (https_request): started and cancelled at once, every allocation of the start-up refused in turn (the host
    # name is owned by the caller of http_request2 when that fails, by the request when it succeeds)
    for i in range(2):
        p = c08.wellformed(c08.simple_response(rnd, 200 + i, n=5, nh=1), rnd, 200 + i)
        base_http.append(p.replace("\nmaxrlen ", "\nhttps\nmaxrlen ", 1))
    # whole requests over the TLS transport (netbuf_ssl / network_ssl under http.c): every allocation refused in turn
    for i in range(c.pick(3, 12)):
        base_http.append(c08.tls(c08.wellformed(c08.simple_response(rnd, 300 + i, n=rnd.choice([0, 5, 300]), nh=rnd.choice([0, 2])), rnd, 300 + i)))
    base_http.append(c08.tls(c08.hostile(rnd, 400)))
    # connection lists whose first address fails (at once / asynchronously) before one that connects: the retry inside
    # network_connect with every allocation refused in turn (where the open finding F11 lives)
    ndir = 0
    for i, plan in enumerate(("F O", "R:300 O", "F F O")):
        p = c08.wellformed(c08.simple_response(rnd, 500 + i, n=5, nh=1), rnd, 500 + i)
        base_http.append(re.sub(r"\nconnect [^\n]*", "\nconnect " + plan, p, count=1))
        ndir += 1
    directed_http = set(base_http[-(5 + c.pick(4, 13) + ndir):])
    # the allocation count of an HTTP request is in its end event; scenarios with several MB of body are left out
    base_http = [p for p in base_http if len(p) < 200000]
    exe_http = c08.build(c)
    enumerate_faults(c, exe_http, [p for p in base_http if p not in directed_http], "HttpTrace", "HttpTrace.cfg", "http", c.pick(14, 60), sd=c08.SD, insert=http_insert,
                     run_timeout=1200, tv_timeout=1500, known=known_http)
    enumerate_faults(c, exe_http, [p for p in base_http if p in directed_http], "HttpTrace", "HttpTrace.cfg", "httpdir", 300, sd=c08.SD, insert=http_insert,
                     run_timeout=1200, tv_timeout=1500, known=known_http)
    c.cov["rule"] = ("fault enumeration: for every base scenario the k-th allocation made by library code fails, for every k the scenario reaches "
                     "(capped per scenario, see fault_points), once and persistently from k on; the scenario then continues (retries), releases "
                     "everything and reports the wrapper's live set; each trace is validated by TLC against the abstract specification "
                     "(failure value only with an injected refusal, UNCHANGED state, cannot-fail operations succeed, live = 0); "
                     "non-trivial = at least one refusal was actually injected; distinct = SHA-256 of program text")
    c.cov["trusted_base"] = ["TLC", "gcc ASan/UBSan/LSan", "allocation wrapper (-Wl,--wrap) separating library from harness allocations"]
    c.assumptions += ["allocation failures are injected at malloc/calloc/realloc called from library objects only"]
