"""Random and TLC-derived program construction for the event-loop driver (harness/drv_events.c)."""
import random


class Prog:
    def __init__(self, nfd):
        self.nfd = nfd
        self.scripts = {}     # slot -> (ops, rc)
        self.main = []
        self.next = 1

    def slot(self, ops=(), rc=0):
        s = self.next
        self.next += 1
        self.scripts[s] = (list(ops), rc)
        return s

    def text(self, fail=None):
        L = ["prog ev", "fds %d" % self.nfd]
        for s, (ops, rc) in sorted(self.scripts.items()):
            if ops or rc:
                L.append("script %d rc %d" % (s, rc))
                L += ["  " + o for o in ops]
                L.append("endscript")
        L.append("main")
        if fail:
            L.append("  fail %d %s" % fail)
        L += ["  " + o for o in self.main]
        L.append("endmain")
        L.append("end")
        return "\n".join(L) + "\n"


TIMEOUTS = [(0, 0), (0, 1), (0, 999), (0, 1000), (0, 1001), (0, 1500), (0, 2500), (0, 500000), (1, 0), (2, 500000),
            (3600, 0), (7200, 0), (86400, 0), (2147483, 0), (3000000, 0),
            # around INT_MAX milliseconds: the conversion to poll's int timeout must clamp, not wrap
            (2147483, 646999), (2147483, 647000), (2147483, 647001), (2147483, 648000), (2147483, 700000), (2147483, 999999),
            (2147484, 0), (2147484, 1), (4294967, 296000), (4294967, 297000)]


def gen_ops(rnd, P, depth, live, inside):
    """a list of op strings; `live` collects slots of imm/timer registrations that may be cancelled/reset"""
    ops = []
    n = rnd.choice([0, 1, 1, 2, 3]) if inside else rnd.randint(2, 9)
    for _ in range(n):
        k = rnd.choice(["sock"] * 5 + ["rereg"] * 2 + ["imm"] * 3 + ["timer"] * 3 + ["cancel_sock"] * 2 + ["cancel", "cancel", "reset", "env", "env", "tick", "sched", "interrupt" if rnd.random() < 0.15 else "env"])
        if k in ("sock", "imm", "timer"):
            sub, rc = [], 0
            if depth < 3 and rnd.random() < 0.55:
                sub = gen_ops(rnd, P, depth + 1, live, True)
            if rnd.random() < 0.06:
                rc = rnd.choice([1, -1, 7])
            if rnd.random() < 0.1:
                sub.append("done")
            s = P.slot(sub, rc)
            if k == "sock":
                ops.append("reg_sock %d %d %s" % (s, rnd.randrange(P.nfd), rnd.choice("RW")))
            elif k == "imm":
                ops.append("reg_imm %d %d" % (s, rnd.choice([0, 0, 1, 2, 5, 31, rnd.randrange(32)])))
                live.append(s)
            else:
                t = rnd.choice(TIMEOUTS)
                ops.append("reg_timer %d %d %d" % (s, t[0], t[1]))
                live.append(s)
        elif k == "rereg":
            # cancel a descriptor/direction and register it again at once (possibly the one being scanned)
            fd, d = rnd.randrange(P.nfd), rnd.choice("RW")
            s = P.slot(gen_ops(rnd, P, depth + 1, live, True) if depth < 2 and rnd.random() < 0.3 else [], 0)
            ops.append("cancel_sock %d %s" % (fd, d))
            ops.append("reg_sock %d %d %s" % (s, fd, d))
        elif k == "cancel_sock":
            ops.append("cancel_sock %d %s" % (rnd.randrange(P.nfd), rnd.choice("RW")))
        elif k == "cancel" and live:
            ops.append("cancel %d" % rnd.choice(live))
        elif k == "reset" and live:
            ops.append("reset %d" % rnd.choice(live))
        elif k == "env":
            ops.append("env %d %d" % (rnd.randrange(P.nfd), rnd.choice([0, 1, 2, 3, 3, 1, 2, 4, 8, 9, 12, 5])))
        elif k == "tick":
            t = rnd.choice([(0, 1), (0, 999), (0, 1000), (0, 1500), (0, 600000), (1, 0), (3, 0), (3600, 0), (90000, 0)])
            ops.append("tick %d %d" % t)
        elif k == "sched":
            ops.append("sched %d %d %d" % (rnd.choice([1, 500, 999, 1000, 1001, 1499, 1500, 2500, 400000, 1000000, 3600000000]), rnd.randrange(P.nfd), rnd.choice([0, 1, 2, 3, 8, 4])))
        elif k == "interrupt":
            ops.append("interrupt")
    return ops


def random_program(rnd):
    P = Prog(rnd.choice([1, 2, 2, 3, 4, 6]))
    live = []
    for _ in range(rnd.randint(1, 4)):
        P.main += gen_ops(rnd, P, 0, live, False)
        if rnd.random() < 0.1:
            P.main.append("sigintr %d" % rnd.choice([1, 2]))   # a signal handler asks the loop to stop while it is inside poll
        P.main.append(rnd.choice(["run", "run", "run", "spin"]) if rnd.random() < 0.9 else "run")
    P.main += ["run"] * rnd.randint(1, 3)
    return P


def clockfail_programs():
    """a timer registration during which the clock cannot be read: it fails, nothing is registered, and what is registered
    afterwards (twice and more: records come from a pool) is dispatched once each, to its own cookie"""
    out = []
    for before in (0, 1, 2):
        for after in (1, 2, 3, 5):
            for kind in ("timer", "imm", "sock", "mixed"):
                P = Prog(3)
                for _ in range(before):
                    P.main.append("reg_timer %d 0 500" % P.slot([], 0))
                bad = P.slot([], 0)
                P.main.append("reg_timer_cf %d 0 %d" % (bad, 100))
                for j in range(after):
                    k = kind if kind != "mixed" else ("timer", "imm", "sock")[j % 3]
                    s2 = P.slot([], 0)
                    if k == "timer":
                        P.main.append("reg_timer %d 0 %d" % (s2, 200 + j))
                    elif k == "imm":
                        P.main.append("reg_imm %d %d" % (s2, j % 3))
                    else:
                        P.main += ["reg_sock %d %d %s" % (s2, j % 3, "RW"[j % 2]), "env %d 3" % (j % 3)]
                P.main += ["reg_timer %d 0 50" % bad, "tick 0 1000", "run", "run", "run", "run"]
                out.append(P)
    return out


def stop_programs():
    """a callback that both asks for an interrupt and returns non-zero, under events_run and under events_spin, as immediate /
    socket / timer callback; the next call must start from a clean slate (something runnable at its entry is run)"""
    out = []
    for runop in ("run", "spin"):
        for kind in ("imm", "sock", "timer"):
            for rc in (1, -1, 7):
                for nxt in ("run", "spin"):
                    P = Prog(2)
                    a = P.slot(["interrupt"], rc)
                    b = P.slot(["done"], 0)
                    if kind == "imm":
                        P.main.append("reg_imm %d 0" % a)
                    elif kind == "sock":
                        P.main += ["reg_sock %d 1 W" % a, "env 1 2"]
                    else:
                        P.main += ["reg_timer %d 0 0" % a]
                    P.main += [runop, "reg_sock %d 0 R" % b, "env 0 1", nxt, "run", "run"]
                    out.append(P)
    return out


def signal_programs():
    """events_interrupt() called from a signal handler while the loop is inside the first poll of a run (as poll returns its answer,
    or interrupting its sleep): with a descriptor ready / becoming ready, a timer expired / expiring, an immediate queued, idle
    descriptors around; the following runs must find everything still registered"""
    out = []
    for mode in (1, 2):
        for runop in ("run", "spin"):
            for what in ("ready", "later", "timer0", "timer", "imm", "hup", "two", "nothing"):
                for idle in (0, 1):
                    P = Prog(3)
                    a, b, t, i = P.slot([], 0), P.slot([], 0), P.slot([], 0), P.slot(["done"], 0)
                    if idle:
                        P.main.append("reg_sock %d 2 R" % P.slot([], 0))
                    P.main.append("reg_sock %d 0 R" % a)
                    if what == "ready":
                        P.main.append("env 0 1")
                    elif what == "later":
                        P.main += ["sched 1500 0 1", "reg_timer %d 5 0" % t]
                    elif what == "timer0":
                        P.main += ["reg_timer %d 0 0" % t]
                    elif what == "timer":
                        P.main += ["reg_timer %d 0 2500" % t]
                    elif what == "imm":
                        P.main += ["reg_imm %d 3" % i]
                    elif what == "hup":
                        P.main += ["env 0 8"]
                    elif what == "two":
                        P.main += ["reg_sock %d 1 W" % b, "env 0 1", "env 1 2", "reg_timer %d 0 0" % t]
                    else:
                        P.main += ["reg_timer %d 0 1000" % t]
                    P.main += ["sigintr %d" % mode, runop, "done" if runop == "spin" else "tick 0 1", "run", "tick 1 0", "run", "run"]
                    out.append(P)
    return out


def big_program(rnd, nfd, nreg):
    """many descriptors / registrations: forces growpollfd / growsocketlist reallocation and pool growth"""
    P = Prog(nfd)
    live = []
    for i in range(nreg):
        k = rnd.choice(["sock", "sock", "imm", "timer"])
        s = P.slot(gen_ops(rnd, P, 2, live, True) if rnd.random() < 0.2 else [], 0)
        if k == "sock":
            P.main.append("reg_sock %d %d %s" % (s, rnd.randrange(nfd), rnd.choice("RW")))
        elif k == "imm":
            P.main.append("reg_imm %d %d" % (s, rnd.randrange(32)))
        else:
            P.main.append("reg_timer %d %d %d" % (s, rnd.choice([0, 0, 1, 5]), rnd.randrange(1000000)))
        if rnd.random() < 0.3:
            P.main.append("env %d %d" % (rnd.randrange(nfd), rnd.choice([0, 1, 2, 3, 8])))
        if rnd.random() < 0.05:
            P.main.append("run")
    for _ in range(6):
        P.main.append("tick 2 0")
        P.main.append("run")
    return P


def clamp_programs():
    """a single timer whose remaining time is around INT_MAX milliseconds when the loop goes to sleep (with and without a
    shorter timer that has been cancelled, and after small clock advances)"""
    out = []
    for (sec, us) in [t for t in TIMEOUTS if t[0] >= 2147483]:
        for tick in (0, 1, 500, 352000, 999999):
            P = Prog(1)
            s1 = P.slot([], 0)
            P.main.append("reg_timer %d %d %d" % (s1, sec, us))
            if tick:
                P.main.append("tick 0 %d" % tick)
            if tick == 500:
                s2 = P.slot([], 0)
                P.main += ["reg_timer %d 0 5000" % s2, "cancel %d" % s2]
            P.main += ["run", "run", "run"]
            out.append(P)
    return out


def compaction_program(rnd):
    """the poll array is compacted and grows again inside one scan: the descriptor in the last slot (both directions, both ready;
    or one direction) runs a callback that cancels registrations of descriptors in lower slots (some with a hang-up or error pending,
    not yet scanned) and registers descriptors that were never polled and are NOT ready - whatever is left in a retired slot must
    not make those run"""
    nfd = rnd.randint(3, 5)                    # (the trace specification's configuration has 8 descriptors)
    fresh = [nfd, nfd + 1, nfd + 2]
    P = Prog(nfd + 3)
    order = list(range(nfd))
    rnd.shuffle(order)
    top = order[-1]
    regs = {}                                  # fd -> list of directions registered
    for fd in order[:-1]:
        regs[fd] = rnd.choice([["R"], ["W"], ["R"], ["R", "W"]])
    regs[top] = rnd.choice([["R", "W"], ["R", "W"], ["W", "R"], ["R"]])
    # what the callbacks of the top descriptor do
    def script():
        ops = []
        for fd in rnd.sample(order[:-1], rnd.randint(1, min(3, nfd - 1))):
            for d in regs[fd]:
                ops.append("cancel_sock %d %s" % (fd, d))
        for nf in rnd.sample(fresh, rnd.randint(1, 3)):
            s2 = P.slot([], 0)
            ops.append("reg_sock %d %d %s" % (s2, nf, rnd.choice("RW")))
        if rnd.random() < 0.3:
            fd = rnd.choice(order[:-1])
            s3 = P.slot([], 0)
            ops += ["cancel_sock %d %s" % (fd, regs[fd][0]), "reg_sock %d %d %s" % (s3, fd, regs[fd][0])]
        return ops
    for fd in order:
        for d in regs[fd]:
            sl = P.slot(script() if fd == top and rnd.random() < 0.8 else [], 0)
            P.main.append("reg_sock %d %d %s" % (sl, fd, d))
    for fd in order:
        P.main.append("env %d %d" % (fd, 3 if fd == top else rnd.choice([3, 1, 2, 8, 9, 4, 0, 3])))
    for nf in fresh:
        P.main.append("env %d 0" % nf)
    P.main += ["run", "run", "run"]
    return P


def timer_program(rnd):
    """many pending timers (the heap under the timer queue several levels deep), deadlines with ties, cancels and resets
    of arbitrary ones from outside and from inside timer callbacks: deadline order under deletion from the middle"""
    P = Prog(rnd.choice([1, 2]))
    n = rnd.randint(12, 70)
    slots = []
    for i in range(n):
        sub = []
        if slots and rnd.random() < 0.25:
            sub.append("cancel %d" % rnd.choice(slots))
        if slots and rnd.random() < 0.1:
            sub.append("reset %d" % rnd.choice(slots))
        s = P.slot(sub, 0)
        slots.append(s)
        us = rnd.choice([rnd.randrange(0, 20000), rnd.randrange(0, 2000000), rnd.choice([1000, 2000, 5000])])
        P.main.append("reg_timer %d %d %d" % (s, us // 1000000, us % 1000000))
        if rnd.random() < 0.15:
            P.main.append("tick 0 %d" % rnd.randrange(1, 3000))
    for _ in range(rnd.randint(1, n // 2)):
        P.main.append("%s %d" % (rnd.choice(["cancel", "cancel", "cancel", "reset"]), rnd.choice(slots)))
        if rnd.random() < 0.1:
            P.main.append("run")
    for _ in range(n):
        if rnd.random() < 0.3:
            P.main.append("tick 0 %d" % rnd.randrange(1, 400000))
        if rnd.random() < 0.2:
            P.main.append("%s %d" % (rnd.choice(["cancel", "reset"]), rnd.choice(slots)))
        P.main.append("run")
    return P


# ---------------------------------------------------------------------------
# programs from behaviours of specs/events/EventsImpl.tla (GEN = TRUE)
MASK = {"IN": 1, "OUT": 2, "HUP": 8, "ERR": 4}


def from_tlc(case, nfd=3):
    P = Prog(nfd)
    extra = [200]
    main = []
    scripts = {}
    rcs = {}

    def emit(ctx, line):
        if ctx == 0:
            main.append(line)
        else:
            scripts.setdefault(ctx, []).append(line)

    for h in case["h"]:
        op, ctx = h["op"], h["ctx"]
        if op == "reg_sock":
            emit(ctx, "reg_sock %d %d %s" % (h["id"], h["fd"], h["dir"]))
        elif op == "cancel_then_reg_eexist":
            extra[0] += 1
            emit(ctx, "reg_sock %d %d %s" % (extra[0], h["fd"], h["dir"]))
        elif op == "cancel_sock":
            emit(ctx, "cancel_sock %d %s" % (h["fd"], h["dir"]))
        elif op == "reg_imm":
            emit(ctx, "reg_imm %d %d" % (h["id"], h["fd"]))
        elif op == "reg_timer":
            emit(ctx, "reg_timer %d 0 %d" % (h["id"], h["fd"] * 1000))
        elif op == "cancel":
            emit(ctx, "cancel %d" % h["id"])
        elif op == "reset":
            emit(ctx, "reset %d" % h["id"])
        elif op == "interrupt":
            emit(ctx, "interrupt")
        elif op == "env":
            emit(ctx, "env %d %d" % (h["fd"], sum(MASK[x] for x in h.get("flags", []))))
        elif op == "envall":
            lines = ["env %s %d" % (f, sum(MASK[x] for x in fl)) for f, fl in sorted(h["kr"].items())]
            if ctx == 0:
                k = max([i for i, l in enumerate(main) if l == "run"] or [len(main)])
                main[k:k] = lines
            else:
                scripts.setdefault(ctx, []).extend(lines)
        elif op == "tick":
            emit(ctx, "tick 0 1000")
        elif op == "run":
            main.append("run")
        elif op == "wake":
            # scheduled readiness change during the sleeping poll of the most recent run
            k = max(i for i, l in enumerate(main) if l == "run")
            main.insert(k, "sched %d %d %d" % (h["id"] * 1000, h["fd"], sum(MASK[x] for x in h.get("flags", []))))
        elif op == "cbret":
            rcs[ctx] = h["fd"]
    for s in set(scripts) | set(rcs):
        P.scripts[s] = (scripts.get(s, []), rcs.get(s, 0))
    P.main = main + ["run", "run"]
    return P


def select_by_tags(cases, per_pair=3, rnd=None):
    """coverage-guided selection: keep a behaviour if it exhibits a pair of implementation situations seen < per_pair times"""
    seen = {}
    out = []
    order = list(range(len(cases)))
    if rnd:
        rnd.shuffle(order)
    for i in order:
        t = sorted(cases[i]["t"])
        pairs = [(a, b) for x, a in enumerate(t) for b in t[x:]]
        if any(seen.get(p, 0) < per_pair for p in pairs):
            out.append(cases[i])
            for p in pairs:
                seen[p] = seen.get(p, 0) + 1
    return out, seen
