"""X01 (beyond the listed properties) — util/ipc_sync.c, the library's only multi-process protocol: specs/proc/IpcSync.tla (every
interleaving of 2 and 3 processes incl. a process dying at any step; the design without the preparatory close must fail NoHang),
IpcSyncTrace.tla over executions of the real code in two forked processes (harness/drv_ipc.c)."""
import itertools, os, random
import vlib

SD = os.path.join(vlib.SPECS, "proc")
OPS = ["wait", "wait_prep", "signal", "signal_prep", "done", "die"]


def main(c):
    rnd = random.Random(c.seed)
    exe = vlib.build(c.dir, "drv_ipc", [os.path.join(vlib.HARNESS, "drv_ipc.c")] + vlib.repo_srcs("util/ipc_sync.c", "util/noeintr.c", "util/warnp.c"))
    c.add_mc("IpcSync, 2 processes (every interleaving, death at any step; Causal, WaitsOK, NoHang, NoLeak)",
             vlib.tlc(SD, "IpcSync", "IpcSyncMC.cfg", workers=4, timeout=600, coverage=True))
    c.add_mc("IpcSync, 3 processes", vlib.tlc(SD, "IpcSync", "IpcSyncMC3.cfg", workers=8, timeout=600))
    r = vlib.tlc(SD, "IpcSync", "IpcSyncNoPrep.cfg", workers=2, timeout=600)
    if "NoHang" not in r.violated:
        raise vlib.ToolFailure("the protocol without the preparatory close was not found to hang: the model cannot see what it is for\n" + r.out[-2000:])
    c.add_mc("IpcSync liveness (a read that can return does return): a waiter left alone is always released", vlib.tlc(SD, "IpcSync", "IpcSyncLive.cfg", workers=4, timeout=600))
    r2 = vlib.tlc(SD, "IpcSync", "IpcSyncLiveNoPrep.cfg", workers=2, timeout=600)
    if r2.rc != 13:
        raise vlib.ToolFailure("liveness of the protocol without the preparatory close was not refuted\n" + r2.out[-2000:])
    c.cov["model_mutation_detected"] = "PREP = FALSE violates NoHang (a waiter holding its own write end never sees end-of-file)"
    c.cov["exhaustive"] = True
    apalache(c)
    cmds = ["%s %s" % (p, o) for p in "AB" for o in OPS]
    progs = []
    for n in range(1, c.pick(4, 5)):
        for seq in itertools.product(cmds, repeat=n):
            progs.append("prog ipc\n" + "\n".join(seq) + "\nend\n")
    for _ in range(c.pick(2000, 40000)):
        progs.append("prog ipc\n" + "\n".join(rnd.choice(cmds[:4] + cmds[6:10] + cmds) for _ in range(rnd.randint(4, 10))) + "\nend\n")
    c.cov["programs"] = len(progs)
    vlib.conformance(c, exe, progs, SD, "IpcSyncTrace", "IpcSyncTrace.cfg", "ipc", procs=8, shards=8, nontrivial=lambda ex: len(ex) > 3)
    c.cov["rule"] = ("every command sequence of length <= 3 (quick) / 4 (thorough) over {A, B} x {wait, wait_prep, signal, signal_prep, done, die} and random ones of "
                     "length 4..10, executed by the real ipc_sync.c in two forked workers sharing one pipe (the coordinator releases its own copy); a worker asleep in "
                     "read(2) is recognised in /proc/<pid>/syscall; every execution validated by TLC against IpcSyncTrace.tla (results of wait/signal incl. end-of-file, "
                     "EPIPE and calls on a closed end; a blocked waiter must be one that nothing can release yet; the model's invariants on the observed states)")
    c.cov["trusted_base"] = ["TLC", "Linux pipe semantics as modelled (bytes, open ends per process)", "/proc/<pid>/syscall for the blocked state"]


def apalache(c):
    """Unbounded in the number of bytes and signals: IndInv is inductive and implies NoHang (3 processes), with Apalache."""
    vlib.apalache_inductive(c, SD, "IpcSyncInd", (["--init=Init", "--inv=IndInv", "--length=0"], ["--init=IndInv", "--inv=IndInv", "--length=1"],
                                                  ["--init=IndInv", "--inv=NoHang", "--length=0"]),
                            "Init => IndInv; IndInv /\\ Next => IndInv'; IndInv => NoHang (any number of bytes / signals, 3 processes)")
