"""C15 — parsers never leave their input: hostile generators (TLC-enumerated strings over reduced alphabets, every truncation of
valid documents, structured mutations) through harness/drv_text.c and drv_getopt.c on exact-size buffers under ASan/UBSan; TLC
validates the documented value ranges (CodecTrace, ParsenumTrace, GetoptTrace) and, where C16-C18 define the answer, the answer."""
import base64, os, random
import vlib
from checks import c16, c17, c18

SD = os.path.join(vlib.SPECS, "text")


def hx(b):
    if isinstance(b, str):
        b = b.encode("latin1")
    return b.hex() if b else "-"


VALID_JSON = ['{"a":1,"b":[1, 2,{"c":"x\\"y"}],"k":{"a":1, "b":2},"u\\u0041":null,"e\\\\":true , "z" : "\\u12"}',
              '{"k":{"a":1,"b":{"c":[[],{}]}},"b":3}', ' { "x" : "a\\\\" , "y":-1.5e+3,"b":false}', '{"":"","b":""}']
KEYS = ["b", "a", "k", "z", "", "u", "zz"]


def main(c):
    rnd = random.Random(c.seed)
    exe = c16.build(c)
    codec, nums = [], []
    # 1. TLC-enumerated hostile strings over reduced alphabets
    r, cases = vlib.tlc_emit(SD, "CodecGen", c.pick("CodecGen_json.cfg", "CodecGen_json_t.cfg"), workers=2, timeout=1200)
    c.add_mc("CodecGen json (every string of length <= %d over 13 JSON structure characters)" % c.pick(4, 5), r)
    for x in cases:
        codec.append("jf %s %s" % (hx(rnd.choice(["a", "u", "1", ""])), hx(bytes(x))))
    r, cases = vlib.tlc_emit(SD, "CodecGen", c.pick("CodecGen_addr.cfg", "CodecGen_addr_t.cfg"), workers=2, timeout=1200)
    c.add_mc("CodecGen addr (every string of length <= %d over 8 address characters)" % c.pick(5, 6), r)
    for x in cases:
        t = bytes(x)
        if t.startswith(b"[") or t.startswith(b"/"):      # bracketed / Unix forms only: no host-name resolution
            codec.append("sr " + hx(t))
    r, cases = vlib.tlc_emit(SD, "CodecGen", "CodecGen_text.cfg", workers=2, timeout=900)
    c.add_mc("CodecGen text (every candidate encoding of length <= 4 over 14 symbols)", r)
    for x in cases:
        t = bytes(x)
        codec.append("b64d " + hx(t))
        if 0 not in t:
            codec.append("hexd %s %d" % (hx(t), rnd.randint(0, 3)))
            nums.append("hp " + hx(t))
            nums.append("pn %s e6i %d %d -100 100 %s" % (rnd.choice(["i8", "u8", "imax", "size"]), rnd.choice([0, 10, 16, 36]), rnd.randint(0, 1), hx(t)))
    c.cov["exhaustive"] = True
    # 2. every prefix (truncation) of valid documents, with every key
    for doc in VALID_JSON:
        b = doc.encode()
        for i in range(len(b) + 1):
            for k in KEYS:
                codec.append("jf %s %s" % (hx(k), hx(b[:i])))
    # 3. structured mutations
    for _ in range(c.pick(3000, 60000)):
        k = rnd.choice(["nest", "escape", "jmut", "b64", "addr", "path", "sdm", "digits", "kf", "pf", "longhex"])
        if k == "nest":
            d = rnd.randint(1, 64)
            o = rnd.choice(["[", "{\"a\":", "{\"a\":["])
            codec.append("jf %s %s" % (hx("b"), hx('{"a":' + o * d + rnd.choice(["", "1", "]" * d, "}" * (d // 2)]) + rnd.choice(["", ',"b":1}', "}"]))))
        elif k == "escape" and rnd.random() < 0.4:
            # a member name that begins with the whole key and goes on with a raw NUL byte (or the key's own terminator position hit by
            # other bytes): the key string must not be read past its end
            key = rnd.choice(["a", "id", "foo", "k"])
            name = key + rnd.choice(["\x00", "\x00secret", "\x00\x00", "\\u0000", "\x00\""])
            doc = rnd.choice(['{"%s":1,"%s":2}', '{"x":0,"%s":{"%s":3}}', '{"%s":"v"}%s']) % (name, key)
            codec.append("jf %s %s" % (hx(key), hx(doc)))
        elif k == "escape":
            codec.append("jf %s %s" % (hx(rnd.choice(["a", "b"])), hx('{"a":"x' + rnd.choice(["\\", "\\u", "\\u1", "\\u12", "\\u123", "\\\"", "\\\\"]) + rnd.choice(["", '"', '","b":']))))
        elif k == "jmut":
            b = bytearray(rnd.choice(VALID_JSON).encode())
            for _ in range(rnd.randint(1, 3)):
                b[rnd.randrange(len(b))] = rnd.choice(b'{}[]",:\\ \x00u')
            codec.append("jf %s %s" % (hx(rnd.choice(KEYS)), hx(bytes(b[:rnd.randint(0, len(b))]))))
        elif k == "b64":
            enc = bytearray(base64.b64encode(bytes(rnd.getrandbits(8) for _ in range(rnd.randint(0, 40)))))
            for _ in range(rnd.randint(0, 3)):
                if enc:
                    enc[rnd.randrange(len(enc))] = rnd.choice([rnd.choice(b"=\x00\xff-_ "), rnd.randrange(128, 256), rnd.randrange(256)])
            codec.append("b64d " + hx(bytes(enc[:rnd.randint(0, len(enc))])))
        elif k == "addr":
            codec.append("sr " + hx(rnd.choice(["[", "[]", "[]:", "[]:1", "[:]:1", "[1.2.3.4]", "[1.2.3.4]:", "[1.2.3.4]:0", "[1.2.3.4]:65536", "[1.2.3.4]:99999999999999999999",
                                                 "[1.2.3.4]:0x50", "[1.2.3.4]: 80", "[1.2.3]:80", "[1.2.3.4.5]:80", "[::1]:80x", "[:::1]:80", "[1::2::3]:80", "[12345::]:80",
                                                 "[::1]80", "[::1", "[[::1]]:80", "[::ffff:1.2.3.4]:80", "[::1%lo]:80", "[" + "1" * 300 + "]:80", "[::1]:" + "9" * 300])))
        elif k == "path":
            n = rnd.choice([1, 2, 100, 106, 107, 108, 109, 200, 5000])
            codec.append("sr " + hx("/" + "p" * (n - 1)))
        elif k == "sdm":
            a = rnd.choice(["[1.2.3.4]:80", "[::1]:443", "/tmp/sock", "/" + "q" * 100])
            codec.append("sdm %s %d %d %d" % (hx(a), rnd.randint(0, 40), rnd.choice([0, 1, 2, 10, 28, 110, 255]), rnd.choice([-1, -1, rnd.randint(0, 30)])))
            # cut anywhere, with the length field adjusted to the cut (a short, unterminated Unix path; half an IPv6 address)
            codec.append("sdm %s -2 0 %d" % (hx(a), rnd.choice([12, 13, 14, 15, 16, 20, 27, 28, 40, 100, 121, 122])))
        elif k == "digits":
            s = rnd.choice([" ", "", "-", "+", "\t-"]) + rnd.choice(["", "0x", "0"]) + rnd.choice("0123456789abcdefz") * rnd.choice([1, 20, 64, 300, 5000])
            nums.append("pn %s e6i %d %d -5 5 %s" % (rnd.choice(["i32", "u64", "umax", "i64"]), rnd.choice([0, 2, 10, 16, 36]), rnd.randint(0, 1), hx(s)))
            nums.append("hp " + hx(s))
        elif k in ("kf", "pf"):
            parts = [rnd.choice(["ACCESS_KEY_ID=AKIA", "ACCESS_KEY_SECRET=sEcReT", "ACCESS_KEY_ID", "=", "FOO=bar", "", "x" * rnd.choice([10, 2047, 2048, 2049, 5000]),
                                 "ACCESS_KEY_SECRET=" + "s" * rnd.choice([1, 40, 3000]), "\x00", "ACCESS_KEY_ID=a\x00b"]) for _ in range(rnd.randint(0, 4))]
            content = rnd.choice(["\n", "\r\n"]).join(parts) + rnd.choice(["", "\n", "\r\n", "\n\n"])
            codec.append("%s %s" % (k, hx(content)))
        else:
            s = rnd.choice("0123456789abcdefABCDEFgG \x01") * rnd.randint(0, 9) + rnd.choice(["", "0", "zz"])
            codec.append("hexd %s %d" % (hx(s), rnd.randint(0, 6)))
    # key files and passphrase files of (nearly) the documented shape: both orders, CR LF, no final EOL, values and lines around the
    # 1023-byte piece and the 2047-byte limit, duplicates, unknown names, '=' in values (KeyFile.tla decides the result)
    for _ in range(c.pick(400, 8000)):
        idv = "".join(rnd.choice("AKIA0123456789=:/ ") for _ in range(rnd.choice([0, 1, 20, 20, 1000, 1004, 1005, 1006, 1010, 1030])))
        sev = "".join(rnd.choice("abcXYZ0189+/= ") for _ in range(rnd.choice([0, 1, 40, 40, 996, 1000, 1001, 1002, 1004, 1100])))
        ls = rnd.choice([["ACCESS_KEY_ID=" + idv, "ACCESS_KEY_SECRET=" + sev], ["ACCESS_KEY_SECRET=" + sev, "ACCESS_KEY_ID=" + idv],
                         ["ACCESS_KEY_ID=" + idv, "ACCESS_KEY_SECRET=" + sev, "ACCESS_KEY_ID=" + idv], ["ACCESS_KEY_ID=" + idv], ["ACCESS_KEY_SECRET=" + sev],
                         ["ACCESS_KEY_ID=" + idv, "", "ACCESS_KEY_SECRET=" + sev], ["ACCESS_KEY_ID=" + idv, "ACCESS_KEY_SECRET=" + sev, "OTHER=1"],
                         ["access_key_id=" + idv, "ACCESS_KEY_SECRET=" + sev], ["ACCESS_KEY_ID" + idv, "ACCESS_KEY_SECRET=" + sev],
                         ["ACCESS_KEY_ID=" + idv, "ACCESS_KEY_SECRET=" + sev + "\r" + "tail"]])
        eol = rnd.choice(["\n", "\n", "\r\n", "\r"])
        codec.append("kf " + hx(eol.join(ls) + rnd.choice([eol, eol, "", "junk"])))
        pw = "".join(rnd.choice("pass word\t!") for _ in range(rnd.choice([0, 1, 10, 30, 2045, 2046, 2047, 2048, 2049, 3000])))
        tail = rnd.choice(["", "\n", "\r\n", "\n\n", "\nx", "\n\r\n"])
        codec.append("pf " + hx(pw + tail))
        if rnd.random() < 0.25:
            codec.append("pff " + hx(pw + tail))          # the same through a named pipe
    c.cov["calls"] = len(codec) + len(nums)
    per = 2500
    for name, lines, mod in (("codec", codec, "CodecTrace"), ("nums", nums, "ParsenumTrace")):
        progs = ["prog text\n" + "\n".join(lines[i:i + per]) + "\nend\n" for i in range(0, len(lines), per)]
        vlib.conformance(c, exe, progs, SD, mod, mod + ".cfg", name, procs=12, shards=12, nontrivial=lambda ex: len(ex) > 1, tv_timeout=1700)
    # 4. hostile argument vectors for the command-line parser
    gexe = c18.build(c)
    toks = ["-", "--", "---", "-=", "--=", "=", "-a=", "--foo=", "--foo==", "-\xff", "--\x01", "-" + "a" * 200, "--" + "f" * 300, "--foo=" + "v" * 500, "", " ", "-f", "--b"]
    toks += list(c18.TOKENS) + list(c18.HIGH)      # (packs such as -bxq: a parse abandoned inside a pack must not leave a pointer into the freed vector)
    glines = [c18.line(rnd.choice([1, 2, 3]), [rnd.choice(toks) for _ in range(rnd.randint(0, 10))], rnd.choice([-1, -1, 0, 1, 2, 3])) for _ in range(c.pick(3000, 40000))]
    vlib.conformance(c, gexe, c18.chunk_programs(glines, rnd), SD, "GetoptTrace", "GetoptTrace.cfg", "argv", procs=8, shards=8, nontrivial=lambda ex: len(ex) > 1)
    c.cov["rule"] = ("hostile inputs: every string of length <= 4/5 over 13 JSON structure characters, every bracketed / Unix-path string of length <= 5/6 over 8 address "
                     "characters and every candidate encoding of length <= 4 over 14 symbols (enumerated by TLC); every prefix of 4 valid JSON documents x 7 keys; "
                     "structured mutations (nesting to depth 64, strings ending in an escape, corrupted/truncated base-64, malformed bracketed addresses, Unix paths "
                     "around the 108-byte limit, corrupted/truncated serialised addresses, digit runs to 5000 characters, key and passphrase files with over-long, "
                     "unterminated and NUL-containing lines, hostile argument vectors); every input in an exact-size heap allocation under ASan/UBSan; TLC validates "
                     "the documented ranges (pointer inside [buf, end], outlen <= inlen/4*3, ...) and the C16-C18 answers; an execution = 2500 calls")
    c.cov["trusted_base"] = ["gcc ASan/UBSan (the memory-safety verdict itself)", "TLC (value ranges and answers)"]
    c.assumptions += ["no host-name forms (bracketed numeric and Unix-path addresses only)", "JSON nesting depth <= 64 (the skipper recurses once per level)"]
