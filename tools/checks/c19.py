"""C19 — AWS Signature Version 4: specs/crypto/SigV4.tla (over Hash.tla's HMAC), CryptoTrace.tla; time() wrapped"""
import random
import vlib
from checks import cryptogen as g

UNRES = "ABCDEFGHIJKLMNOPQRSTUVWXYZabcdefghijklmnopqrstuvwxyz0123456789-._~"
PRINT = "".join(chr(i) for i in range(33, 127))


def hs(s):
    return s.encode().hex() if s else "-"


def main(c):
    rnd = random.Random(c.seed)
    exe = g.build(c, "accel")
    c.add_mc("HashStream (the SHA-256 buffering every signature goes through)", vlib.tlc(g.SD, "HashStream", "HashStreamMC.cfg", workers=4, timeout=600))
    c.cov["exhaustive"] = True
    lines = []
    times = [0, 1, 86399, 86400, 951782399, 951782400, 1582934400, 1709251199, 2147483647, 2147483648, 4102444800, 253402300799,
             # days whose ISO week-based year differs from the calendar year; last seconds of a day
             1798804800, 1799020799, 1735560000, 1735689599, 1609459200, 946728000, 1262520000, 1798761599, 1577664000, 1956571200]
    rs = lambda alpha, n: "".join(rnd.choice(alpha) for _ in range(n))
    ln = lambda: rnd.choice([0, 1, 2, 3, 4, 9, 20, 40, 60, 61, 64, 124, 128, 200])
    prev = None
    for _ in range(c.pick(500, 20000)):
        if prev is not None and rnd.random() < 0.35:
            # a signature is a function of its own arguments only: the same request again with exactly one argument changed
            # (another secret in the same scope, the next day, another region, ...), straight after the previous one
            var, t, keyid, secret, region, a, b, cc, body, exp = prev
            k = rnd.choice(["secret", "secret", "keyid", "region", "t", "t1", "body", "same"])
            if k == "secret":
                secret = rs(PRINT, rnd.choice([len(secret), len(secret), ln()]))
            elif k == "keyid":
                keyid = rs(UNRES, ln())
            elif k == "region":
                region = rs(UNRES, rnd.choice([1, 3, 9]))
            elif k == "t":
                t = t + rnd.choice([1, 60, 86400, -86400]) if t > 86400 else t + 1
                t = min(t, 253402300799)                                    # (years have four digits)
            elif k == "t1":
                t = (t // 86400) * 86400 + rnd.randrange(86400)          # another instant of the same day
            elif k == "body":
                body = rnd.choice(["none", "none:7", "-", g.hx(g.rbytes(rnd, rnd.choice([1, 64])))])
        else:
            var = rnd.choice(["s3h", "s3q", "svc", "ddb"])
            t = rnd.choice(times + [rnd.randint(0, 4102444800)])
            keyid, secret, region = rs(UNRES, ln()), rs(PRINT, ln()), rs(UNRES, rnd.choice([0, 1, 3, 4, 9, 14, 200]))
            body = rnd.choice(["none", "none:%d" % rnd.choice([1, 5, 64, 4096, 1 << 30]), "-", g.hx(g.rbytes(rnd, rnd.choice([1, 55, 64, 1000, 4000])))])
            if var in ("s3h", "s3q"):
                # (the module signs method, bucket and path as given: any printable byte, "%XX" sequences and doubled slashes included)
                wide = rnd.random() < 0.3
                a = rnd.choice(["GET", "PUT", "HEAD", "DELETE", "POST", rs(UNRES, 3), rs(PRINT, 4) if wide else "get"])
                b = rs(UNRES, ln()) if not wide else rs(PRINT, ln())
                cc = "/" + (rs(UNRES + "/", ln()) if not wide else rs(PRINT + "//%%", ln()))
            elif var == "svc":
                # (service names that other entry points of the module treat specially must be ordinary here)
                a, b, cc = rnd.choice(["ec2", "sns", "email", "dynamodb", "s3", "dynamodb", "DynamoDB", "streams.dynamodb", rs(UNRES, rnd.choice([1, 2, 3, 10]))]), "", ""
            else:
                # DynamoDB operation names, incl. the ones that look like other arguments of the module
                a, b, cc = rnd.choice([rs(UNRES, ln()), "PutItem", "GetItem", "dynamodb", "s3", "x-amz-target"]), "", ""
            exp = rnd.choice([0, 1, 60, 604800, 2147483647, -1, -2147483647])
        prev = (var, t, keyid, secret, region, a, b, cc, body, exp)
        if rnd.random() < 0.08:
            lines.append("tz " + rnd.choice(["PST8PDT", "JST-9", "UTC+12", "UTC-14", "NZST-12NZDT,M9.5.0,M4.1.0/3", "-", "UTC"]))
        lines.append("sig %s %d %s %s %s %s %s %s %s %d" % (var, t, hs(keyid), hs(secret), hs(region), hs(a), hs(b), hs(cc), body if var != "s3q" else "none", exp))
    c.cov["calls"] = len(lines)
    g.run(c, exe, lines, "sig", per=60, shuffle=False)      # (the order matters: consecutive requests share all but one argument)
    c.cov["rule"] = ("requests for the four variants (S3 headers, S3 query string, generic service, DynamoDB) with key ids / regions / buckets / services / paths / operation names "
                     "over the URI-unreserved alphabet of length 0..200, secrets over printable ASCII (incl. lengths 60/61/124 around the HMAC block), bodies absent / empty / "
                     "1..4000 bytes, a third of the requests repeating the previous one with exactly one argument changed (statelessness across calls), expiry values incl. INT_MAX and negative, process time zones west and east of UTC, wrapped time() at epoch, day and leap-day boundaries, 2038 and beyond; each result validated by "
                     "TLC against SigV4.tla (canonical request, string to sign, key derivation; content hash = SHA-256(body); scope date = date part of the timestamp); "
                     "an execution = 60 requests")
    c.cov["trusted_base"] = ["TLC", "JDK SHA-256 primitive", "civil-date arithmetic in SigV4.tla"]
