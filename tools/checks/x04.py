"""X04 (beyond the listed properties) — network_ssl/network_ssl.c, the TLS counterpart of C06: specs/network/NetSsl.tla (one read and one
write request multiplexed over an engine that may ask for readability or writability at every call; Matched, NotForgotten,
NeedsOnlyPending, Once, Counts, ClosedQuiet on every behaviour of three requests) and NetSslTrace.tla over executions of the real
module with the real event loop and a scripted engine (harness/drv_ssl.c)."""
import os, random
import vlib

SD = os.path.join(vlib.SPECS, "network")
EV_SRCS = ["events/events.c", "events/events_immediate.c", "events/events_network.c", "events/events_network_selectstats.c",
           "events/events_timer.c", "datastruct/timerqueue.c", "datastruct/ptrheap.c", "datastruct/elasticarray.c",
           "util/monoclock.c", "util/warnp.c", "network_ssl/network_ssl.c", "network_ssl/network_ssl_compat.c"]
WRAPS = ["poll", "clock_gettime", "SSL_read_ex", "SSL_write_ex", "SSL_get_error", "SSL_shutdown",
         "events_immediate_register", "events_immediate_cancel", "events_network_register", "events_network_cancel"]


def answers(rnd, n, isread):
    out = []
    for _ in range(n):
        k = rnd.random()
        if k < 0.45:
            out.append("D%d" % rnd.choice([1, 1, 2, 3, 5, 16, 100, 5000]))
        elif k < 0.65:
            out.append("R")
        elif k < 0.85:
            out.append("W")
        elif k < 0.9:
            out.append("Z" if isread else "SE")
        elif k < 0.94:
            out.append("S0")
        elif k < 0.97:
            out.append("SE")
        else:
            out.append("X")
    return out


def program(rnd):
    L = ["prog ssl", "rq " + " ".join(answers(rnd, rnd.randint(0, 14), True)), "wq " + " ".join(answers(rnd, rnd.randint(0, 14), False))]
    nid = [0]
    scripts = []

    def req(kind, depth):
        nid[0] += 1
        i = nid[0]
        ln = rnd.choice([1, 2, 3, 8, 64, 300, 5000])
        mn = rnd.choice([0, 1, ln, ln, rnd.randint(0, ln)])
        ops = []
        if depth < 3 and rnd.random() < 0.5:
            for _ in range(rnd.choice([1, 1, 2])):
                k = rnd.random()
                if k < 0.4:
                    ops.append(req("read", depth + 1))
                elif k < 0.8:
                    ops.append(req("write", depth + 1))
                elif k < 0.9:
                    ops.append("rcancel")
                else:
                    ops.append("wcancel")
        if rnd.random() < 0.12:
            ops.append("close")          # the owner is done with the connection (ignored by the driver while a request is pending)
        if ops:
            scripts.append((i, ops))
        return "%s %d %d %d" % (kind, i, ln, mn)

    main = ["open"]
    for _ in range(rnd.randint(1, 10)):
        k = rnd.random()
        if k < 0.3:
            main.append(req("read", 0))
        elif k < 0.6:
            main.append(req("write", 0))
        elif k < 0.7:
            main.append(rnd.choice(["rcancel", "wcancel"]))
        elif k < 0.85:
            main.append("env %d" % rnd.choice([0, 1, 2, 3]))
        main.append("runk")
        if rnd.random() < 0.3:
            main.append("runk")
    main += ["env 3", "runk", "runk", "runk"]
    for i, ops in scripts:
        L += ["script %d rc 0" % i] + ["  " + o for o in ops] + ["endscript"]
    L += ["main"] + ["  " + m for m in main] + ["endmain", "end"]
    return "\n".join(L) + "\n"


def main(c):
    rnd = random.Random(c.seed)
    exe = vlib.build(c.dir, "drv_ssl", [os.path.join(vlib.HARNESS, "drv_ssl.c")] + vlib.repo_srcs(*EV_SRCS), wraps=WRAPS, libs=["-lssl", "-lcrypto"])
    c.add_mc("NetSsl: every behaviour of 3 requests of length <= 2 (any minimum), every engine answer at every call, cancellations and follow-up requests "
             "from inside callbacks, close: Matched, NotForgotten, NeedsOnlyPending, Once, Counts, ClosedQuiet",
             vlib.tlc(SD, "NetSsl", "NetSslMC.cfg", workers=8, timeout=900, coverage=True))
    r = vlib.tlc(SD, "NetSsl", "NetSslMC_mut.cfg", workers=4, timeout=600)
    if "Inv" not in r.violated:
        raise vlib.ToolFailure("the design in which a request made inside a callback does not ask for a poke was not found to forget a request\n" + r.out[-2000:])
    c.cov["model_mutation_detected"] = "FORGET = TRUE violates NotForgotten"
    c.cov["exhaustive"] = True
    progs = [program(rnd) for _ in range(c.pick(3000, 60000))]
    c.cov["programs"] = len(progs)
    vlib.conformance(c, exe, progs, SD, "NetSslTrace", "NetSslTrace.cfg", "ssl", procs=8, shards=8, nontrivial=lambda ex: any(e.get("e") == "sslcall" for e in ex))
    c.cov["rule"] = ("random programs: 1..10 steps of read / write requests (lengths 1..5000, any minimum), cancellations, readiness changes and loop runs; callbacks that start "
                     "follow-up requests, cancel the other direction or close the context (nested to depth 3); engine answers drawn per call from done-n / want-read / want-write / clean end / "
                     "socket end / socket error / protocol error; executed by the real network_ssl.c and events_*.c on the fake kernel; every poke, engine call (position and "
                     "length offered, data written), registration, immediate registration, callback (count, data) and poll request validated by TLC against NetSslTrace.tla; "
                     "non-trivial = at least one engine call")
    c.cov["trusted_base"] = ["TLC", "the scripted engine standing in for OpenSSL's SSL_read_ex / SSL_write_ex / SSL_get_error", "fake kernel", "callback results other than 0 are outside the model (they abort the poke)"]
