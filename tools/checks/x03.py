"""X03 (beyond the listed properties) — util/readpass.c: specs/util/Readpass.tla (one action per call the function makes; every
environment: echo off only under the module's signal handlers, terminal and dispositions restored on every path, caught signals
re-issued once, in order, after restoration; the result is the agreed line) and ReadpassTrace.tla over executions of the real code in
a scripted environment (harness/drv_readpass.c)."""
import itertools, os, random
import vlib

SD = os.path.join(vlib.SPECS, "util")
WRAPS = ["fopen", "isatty", "tcgetattr", "tcsetattr", "raise", "fgets", "sigaction", "fclose"]
SIGS = ["ALRM", "HUP", "INT", "PIPE", "QUIT", "TERM", "TSTP", "TTIN", "TTOU"]


def hx(b):
    return b.hex() if b else "-"


def call(dev, conf, stdin_tty, ttyopen, tty_tty, tcget, tcset, data, rds=()):
    L = ["rp %d %d %d %d %d %d %d" % (dev, conf, stdin_tty, ttyopen, tty_tty, tcget, tcset), "stdin " + hx(data), "tty " + hx(data)]
    for (n, sigs, kind) in rds:
        L.append("rd %d %s %s" % (n, ",".join(sigs) if sigs else "-", kind))
    return L + ["go"]


def prog(*a, **kw):
    return "prog rp\n" + "\n".join(call(*a, **kw)) + "\nend\n"


INPUTS = [b"", b"pw\n", b"pw", b"pw\npw\n", b"pw\npw", b"pw\r\npw\r\n", b"pw\npx\npw\npw\n", b"pw\npx\n", b"pw\npx\nq\nq\nlater\n", b"a\rb\na\rb\n", b"\n\n",
          b"pw\n\n", b"x" * 2046 + b"\n" + b"x" * 2046 + b"\n", b"x" * 2047 + b"\n", b"x" * 2047 + b"\n" + b"x" * 2047 + b"\n", b"x" * 5000 + b"\n",
          b"p\xff\x80w\n" * 2, b"pw\npw \n"]


def main(c):
    rnd = random.Random(c.seed)
    exe = vlib.build(c.dir, "drv_readpass", [os.path.join(vlib.HARNESS, "drv_readpass.c")] + vlib.repo_srcs("util/readpass.c", "util/warnp.c", "util/insecure_memzero.c"), wraps=WRAPS)
    c.add_mc("Readpass: every environment (devtty 0..3, /dev/tty or not, terminal or not, terminal calls failing, <= 4 reads over 3 lines / EOF / error, two signal kinds at any moment): NoBlindTerminal, Restored, Reissued, ReissueLate, Result",
             vlib.tlc(SD, "ReadpassMC", "ReadpassMC.cfg", workers=4, timeout=600, coverage=True))
    c.cov["exhaustive"] = True
    progs = []
    envs = list(itertools.product((0, 1, 2, 3), (0, 1), (0, 1), (0, 1), (0, 1), (0, 1), (0, 1)))
    for (dev, conf, st, to, tt, tg, ts) in envs:
        for data in (INPUTS if c.tier == "thorough" else rnd.sample(INPUTS, 5) + [b"pw\npw\n"]):
            progs.append(prog(dev, conf, st, to, tt, tg, ts, data))
    # signals during the first, second, third read (one, several, all nine, the same twice); reads that fail
    for _ in range(c.pick(1500, 30000)):
        dev, conf = rnd.choice([0, 0, 1, 1, 2]), rnd.randint(0, 1)
        rds = []
        for n in range(1, 5):
            r = rnd.random()
            if r < 0.35:
                k = rnd.choice([1, 1, 2, 3, 9])
                rds.append((n, [rnd.choice(SIGS) for _ in range(k)] if k < 9 else list(SIGS), "e" if rnd.random() < 0.15 else "r"))
            elif r < 0.42:
                rds.append((n, [], "e"))
        progs.append(prog(dev, conf, rnd.randint(0, 1), rnd.choice([0, 1, 1]), rnd.choice([0, 1, 1]), rnd.choice([0, 1, 1, 1]), rnd.choice([0, 1, 1, 1]),
                          rnd.choice(INPUTS), rds))
    # two and three calls by the same process: what the first one caught must not be re-issued by the next
    for _ in range(c.pick(600, 10000)):
        L = []
        for j in range(rnd.choice([2, 2, 3])):
            rds = [(n, [rnd.choice(SIGS + ["TTOU", "TTOU"]) for _ in range(rnd.choice([1, 2]))], "r") for n in (1, 2) if rnd.random() < (0.8 if j == 0 else 0.2)]
            L += call(rnd.choice([0, 1]), rnd.randint(0, 1), rnd.randint(0, 1), 1, rnd.randint(0, 1), 1, 1, rnd.choice([b"pw\npw\n", b"pw\n", b"", b"a\nb\na\na\n"]), rds)
        progs.append("prog rp\n" + "\n".join(L) + "\nend\n")
    c.cov["programs"] = len(progs)
    vlib.conformance(c, exe, progs, SD, "ReadpassTrace", "ReadpassTrace.cfg", "readpass", procs=8, shards=8, nontrivial=lambda ex: len(ex) > 3)
    c.cov["rule"] = ("every combination of devtty 0..3, confirmation or not, stdin a terminal or not, /dev/tty openable or not and a terminal or not, tcgetattr / first tcsetattr "
                     "failing or not, crossed with 6 (quick) / all 18 (thorough) inputs (empty, missing line end, CR LF, CR inside, mismatching entries, lines of 2046 / 2047 / 5000 "
                     "bytes, bytes above 0x7f) and random programs with 1..9 signals arriving during any of the first four reads and reads that fail; each program in a fresh "
                     "forked process, programs of two and three calls in one process; every call the function makes (fopen of /dev/tty, the 9 sigaction installs and restores, isatty, tcgetattr, tcsetattr with its flags, fgets, "
                     "raise, fclose), every piece of text it writes, every signal that reaches the caller's handlers and the state left behind validated by TLC against ReadpassTrace.tla")
    c.cov["trusted_base"] = ["TLC", "the recorders that stand in for the terminal and signal calls", "the C library's fgets on regular files"]
