"""C16 — numeric text parsing and sizes: specs/text/Parsenum.tla (+ BigNat), ParsenumFloat.tla, Humansize.tla,
ParsenumGen.tla (structured string space, enumerated by TLC), ParsenumTrace.tla, harness/drv_text.c"""
import os, random
import vlib

SD = os.path.join(vlib.SPECS, "text")
TYPES = {"u8": (0, 8), "u16": (0, 16), "u32": (0, 32), "u64": (0, 64), "size": (0, 64), "umax": (0, 64), "uint": (0, 32),
         "i8": (1, 8), "i16": (1, 16), "i32": (1, 32), "i64": (1, 64), "imax": (1, 64), "int": (1, 32)}
DIG = "0123456789abcdefghijklmnopqrstuvwxyz"


def build(c, name="drv_text"):
    srcs = [os.path.join(vlib.HARNESS, "drv_text.c")] + vlib.repo_srcs(
        "util/humansize.c", "util/asprintf.c", "util/warnp.c", "util/b64encode.c", "util/hexify.c", "util/json.c", "util/sock.c",
        "util/sock_util.c", "aws/aws_readkeys.c", "util/readpass_file.c", "util/insecure_memzero.c")
    return vlib.build(c.dir, name, srcs)


def tobase(n, b):
    if n == 0:
        return "0"
    s = ""
    while n:
        s = DIG[n % b] + s
        n //= b
    return s


def hx(s):
    return s.encode("latin1").hex() if s else "-"


def limits(t):
    signed, bits = TYPES[t]
    return (-(1 << (bits - 1)), (1 << (bits - 1)) - 1) if signed else (0, (1 << bits) - 1)


def concretise(p, rnd):
    t = p["type"]
    signed, bits = TYPES[t]
    tlo, thi = limits(t)
    base = p["base"]
    # requested bounds (kept inside the type for signed targets: assumption of the statement)
    sh = p["bounds"]
    if sh == "type":
        lo, hi = tlo, thi
    elif sh == "narrow":
        lo, hi = (5, 100) if not signed else (-50, 100)
    elif sh == "straddle":
        lo, hi = (-200, 200) if not signed else (max(tlo, -100), min(thi, 100))
    elif sh == "negative":
        lo, hi = (-200, -100) if not signed else (max(tlo, -100), -1)
    else:
        lo, hi = (100, 5)
    b = base if base else rnd.choice([8, 10, 16])
    pre = {"none": "", "zero": "0", "0x": "0x", "0X": "0X"}[p["prefix"]]
    if base == 0:
        b = 16 if pre in ("0x", "0X") else 8 if pre == "0" else 10
    elif pre in ("0x", "0X") and base != 16:
        b = base
    neg = p["sign"] == "minus"
    mag = {"zero": 0, "one": 1, "small": 7 if b > 7 else 1, "tmax-1": thi - 1, "tmax": thi, "tmax+1": thi + 1, "tmin": -tlo, "tmin-1": -tlo + 1,
           "u64max": (1 << 64) - 1, "u64max+1": 1 << 64, "i64max+1": 1 << 63, "huge": 10 ** 30 + 7,
           "lo-1": abs(lo - 1), "lo": abs(lo), "hi": abs(hi), "hi+1": abs(hi + 1), "empty": None}[p["digits"]]
    digits = "" if mag is None else tobase(mag, b)
    s = {"none": "", "sp": " ", "mixed": "\t\n \r", "vt": "\v", "ff": "\f"}[p["ws"]] + {"none": "", "plus": "+", "minus": "-"}[p["sign"]] + pre + digits + \
        {"none": "", "sp": " ", "letter": "z" if b < 36 else "!", "comma": ", 34"}[p["junk"]]
    lines = []
    # "disabled if trailing is non-zero": any non-zero value, not only 1 (chosen by the content, so the same point gives the same line)
    tr = [1, 2, -1, 4, 256, 1][(len(s) + lo + hi) % 6] if p["trailing"] else 0
    if signed:
        lines.append("pn %s e6i %d %d %d %d %s" % (t, base, tr, lo, hi, hx(s)))
        if base == 0 and not tr:
            lines.append("pn %s 4i 0 0 %d %d %s" % (t, lo, hi, hx(s)))
    else:
        lines.append("pn %s e6i %d %d %d %d %s" % (t, base, tr, lo, min(hi, (1 << 63) - 1), hx(s)))     # intmax_t bound variables
        if lo >= 0 and hi >= 0:
            lines.append("pn %s e6u %d %d %d %d %s" % (t, base, tr, lo, hi, hx(s)))
        if sh == "type":
            lines.append("pn %s e4 %d %d 0 0 %s" % (t, base, tr, hx(s)))
            if base == 0 and not tr:
                lines.append("pn %s 2 0 0 0 0 %s" % (t, hx(s)))
    return lines


FLOATS = ["0", "-0", "1", "-1", "0.5", "123.456", "1e2", "-1e2", "1e-2", "1E+2", ".5", "5.", "0x7f", "-0x7f", "0X1.8p1", "0x.8", "0x1p-3", "inf", "-inf",
          "InFiNitY", "-infinity", "nan", "nAn", "1e10", "1e-10", "3.402823e10", "16777217", "0.1", "0.3333333", "9007199254740993", "1.0000001",
          "7f", "abc", "", " 11", "11 ", "11\t ", "1 1", "1e", "1e+", "0x", "0xg", ".", "-", "+.e1", "1.5e3x", "12,34", "4.9406564e-10", "8388609.5"]


def float_lines(rnd, n):
    L = []
    for _ in range(n):
        s = rnd.choice(FLOATS)
        if rnd.random() < 0.3:
            s = rnd.choice(["", " ", "\t"]) + rnd.choice(["", "-", "+"]) + "%d.%de%d" % (rnd.randint(0, 9999), rnd.randint(0, 999), rnd.randint(-10, 10))
        t = rnd.choice(["float", "double"])
        lo, hi = rnd.choice([("-inf", "inf"), ("0", "1000"), ("-1000", "0"), ("0", "0"), ("0", "inf"), ("-inf", "0"), ("5", "100")])
        form = rnd.choice(["2", "4d", "e4", "e6d"])
        L.append("pn %s %s 0 %d %s %s %s" % (t, form, rnd.randint(0, 1), lo, hi, hx(s)))
    return L


def size_lines(rnd, n):
    L = []
    vals = [0, 1, 9, 10, 99, 100, 999, 1000, 1001, 1099, 1100, 9999, 10000, 99999, 100000, 999999, (1 << 64) - 1, 1 << 63]
    for k in range(1, 7):
        for d in (-1, 0, 1, 99, 100, 10 ** (3 * k - 4) if k > 1 else 5):
            for m in (1, 9, 10, 99, 100, 999):
                v = m * 1000 ** k + d
                if 0 <= v < (1 << 64):
                    vals.append(v)
    for v in vals:
        L.append("hs %d" % v)
    for _ in range(n):
        L.append("hs %d" % rnd.choice([rnd.getrandbits(64), rnd.getrandbits(rnd.randint(1, 64)), 10 ** rnd.randint(0, 19) + rnd.randint(-1, 1000)]))
    toks = ["", "0", "1", "9", "10", "999", "1234", "18446744073709551615", "18446744073709551616", "18446744073709551", "18447", "184467440737095516150",
            " ", "  ", "k", "M", "G", "T", "P", "E", "B", "K", "b", "kB", " kB", "k B", "x", "-1", "+1", "1.5", "00017"]
    for a in toks:
        for b2 in toks:
            L.append("hp " + hx(a + b2))
    for _ in range(n):
        L.append("hp " + hx("".join(rnd.choice(toks) for _ in range(rnd.randint(1, 4)))))
    return L


def main(c):
    rnd = random.Random(c.seed)
    exe = build(c)
    r, cases = vlib.tlc_emit(SD, "ParsenumGen", c.pick("ParsenumGen_q.cfg", "ParsenumGen_t.cfg"), workers=4, timeout=1500)
    c.add_mc("ParsenumGen (structured numeral space: types x bases x trailing x ws x sign x prefix x digit class x junk x bounds shape)", r)
    if not cases:
        raise vlib.ToolFailure("ParsenumGen produced nothing\n" + r.out[-2000:])
    c.cov["exhaustive"] = True
    c.cov["enumerated_structures"] = len(cases)
    lines = []
    for p in cases:
        lines += concretise(p, rnd)
    lines += float_lines(rnd, c.pick(3000, 40000))
    lines += size_lines(rnd, c.pick(2000, 40000))
    c.cov["calls"] = len(lines)
    per = 2500
    progs = ["prog text\n" + "\n".join(lines[i:i + per]) + "\nend\n" for i in range(0, len(lines), per)]
    vlib.conformance(c, exe, progs, SD, "ParsenumTrace", "ParsenumTrace.cfg", "pn", procs=12, shards=14, nontrivial=lambda ex: len(ex) > 1, tv_timeout=1700)
    c.cov["rule"] = ("every point of the structured numeral space enumerated by TLC (white space x sign x prefix x digit class at the type limits and at the requested "
                     "bounds +/- 1 x junk x trailing flag x base x bounds shape, per target type) is turned into concrete digits and parsed by every applicable macro "
                     "form (PARSENUM 2/4 args, PARSENUM_EX 4/6 args, intmax_t and uintmax_t bounds); plus float/double numerals (decimal, hexadecimal, inf, nan, "
                     "malformed), sizes at every power of 1000 +/- 1 and random, and the token-pair language of humansize_parse; every call validated by TLC against "
                     "the value / EINVAL / ERANGE the specification defines (exact big-number arithmetic); an execution = 2500 calls; distinct = SHA-256 of program")
    c.cov["trusted_base"] = ["TLC", "java.math.BigInteger behind the Dec* primitives (floats, sizes); BigNat in TLA+ for integers", "gcc ASan/UBSan"]
    c.assumptions += ["bounds given for signed targets lie inside the target type", "floating-point numerals in the normal range (no subnormals, no overflow), C locale"]
