"""X02 (beyond the listed properties) — util/warnp.[ch], the diagnostics channel of the whole library: specs/util/Warnp.tla (every
history over a small alphabet: routing stderr/syslog, name = last path segment, truncation, errno preservation, closelog exactly on
the on->off transition) and WarnpTrace.tla over executions of the real code (harness/drv_warnp.c: forked child per program, stderr
captured, syslog/closelog recorded, the exit handler observed)."""
import os, random
import vlib

SD = os.path.join(vlib.SPECS, "util")
PATHS = [b"", b"a", b"/", b"a/b", b"//c/", b"/usr/bin/prog", b"./x", b"dir/", b"a b/c d", b"\xff/\x80z", b"%s/%d", b"prog%n"]
ERRNOS = [0, 1, 2, 9, 11, 12, 32, 110, 133, 4095, 99999]


def hx(b):
    return b.hex() if b else "-"


def gen(rnd, big):
    lines = []
    for _ in range(rnd.randint(1, 14)):
        k = rnd.random()
        if k < 0.15:
            lines.append("name " + hx(rnd.choice(PATHS) if rnd.random() < 0.7 else bytes(rnd.choice(b"ab/%") for _ in range(rnd.randint(0, 9)))))
        elif k < 0.2:
            lines.append("init " + (rnd.choice(["NULL", hx(rnd.choice(PATHS))])))
        elif k < 0.35:
            lines.append("syslog %d" % rnd.choice([0, 0, 1, 1, 2, -1, 256]))
        elif k < 0.45:
            lines.append("prio %d" % rnd.choice([0, 3, 4, 5, 6, 7, 4 | (3 << 3), 1 << 20]))
        else:
            kind = rnd.choice(["warn", "warnx", "warnp", "warn0"])
            fmt = rnd.choice([0, 1, 1, 2, 3]) if kind in ("warn", "warnx") else rnd.choice([1, 1, 2, 3])
            r = rnd.random()
            if big and r < 0.25:
                n = rnd.choice([4090, 4093, 4094, 4095, 4096, 4097, 5000, 8190, 9000])
            elif r < 0.35:
                n = 0
            else:
                n = rnd.randint(1, 40)
            msg = bytes(rnd.choice(b"abcXYZ %:/\\\"\t\x01\x7f\xc3\xa9") for _ in range(n))
            lines.append("%s %d %d %s %d" % (kind, rnd.choice(ERRNOS), fmt, hx(msg), rnd.choice([0, 7, -1, 2147483647, -2147483647 - 1])))
    return "prog w\n" + "\n".join(lines) + "\nend\n"


def main(c):
    rnd = random.Random(c.seed)
    exe = vlib.build(c.dir, "drv_warnp", [os.path.join(vlib.HARNESS, f) for f in ("drv_warnp.c", "allocwrap.c")] + vlib.repo_srcs("util/warnp.c"),
                     wraps=["malloc", "calloc", "realloc", "free", "strdup", "syslog", "__syslog_chk", "vsyslog", "closelog"])
    c.add_mc("Warnp: every history over 5 paths, 3 messages (limit 3), 2 errno values, switch 0/1/2, 2 priorities (Inv, ErrnoRule, CloseRule)",
             vlib.tlc(SD, "WarnpMC", "WarnpMC.cfg", workers=4, timeout=600, coverage=True))
    c.cov["exhaustive"] = True
    progs = []
    # every ordered pair / triple of the interesting calls, so that each call is seen after each configuration
    base = ["name " + hx(b"/x/y"), "name " + hx(b"z/"), "init NULL", "syslog 1", "syslog 0", "syslog 2", "prio 3",
            "warn 2 1 %s 0" % hx(b"m"), "warn 0 0 - 0", "warnx 5 0 - 0", "warnx 2 2 %s 7" % hx(b"q"), "warnp 2 1 %s 0" % hx(b"p"), "warnp 0 3 %s 5" % hx(b"p"), "warn0 9 1 %s 0" % hx(b"z")]
    for a in base:
        progs.append("prog w\n%s\nend\n" % a)
        for b in base:
            progs.append("prog w\n%s\n%s\nend\n" % (a, b))
            if c.tier == "thorough":
                for d in base:
                    progs.append("prog w\n%s\n%s\n%s\nend\n" % (a, b, d))
    for i in range(c.pick(1500, 30000)):
        progs.append(gen(rnd, i % 3 == 0))
    c.cov["programs"] = len(progs)
    vlib.conformance(c, exe, progs, SD, "WarnpTrace", "WarnpTrace.cfg", "warnp", procs=8, shards=8, nontrivial=lambda ex: len(ex) > 3)
    c.cov["rule"] = ("every sequence of length <= 2 (quick) / 3 (thorough) over 14 representative calls and random programs of 1..14 calls (program names with and without "
                     "slashes, non-ASCII and '%' bytes; messages of 0..40 bytes and around the 4095-byte syslog limit; three formats and the NULL format; errno values incl. "
                     "unknown ones; switch values 0, 1, 2, -1, 256; priorities incl. facility bits), each in a fresh forked process; every emitted byte (stderr line or syslog "
                     "priority and text), errno after the call, every closelog call, the exit handler's closelog and the release of the name validated by TLC against WarnpTrace.tla")
    c.cov["trusted_base"] = ["TLC", "the C library's strerror and printf (the driver formats the expected message with its own snprintf)", "the recorder replacing syslog(3)/closelog(3)"]
