"""Input classes and the shared runner of the cryptographic checks (C01, C02, C03, C10, C11, C19, C20)."""
import os, random
import vlib

SD = os.path.join(vlib.SPECS, "crypto")
WRAPS = ["malloc", "calloc", "realloc", "free", "strdup", "crypto_entropy_read", "open", "read", "time", "fclose"]
SRCS = ["alg/sha256.c", "alg/sha256_shani.c", "alg/sha256_sse2.c", "alg/sha256_arm.c", "alg/sha1.c", "alg/md5.c", "alg/crc32c.c", "alg/crc32c_sse42.c",
        "alg/crc32c_arm.c", "crypto/crypto_aes.c", "crypto/crypto_aes_aesni.c", "crypto/crypto_aes_arm.c", "crypto/crypto_aesctr.c",
        "crypto/crypto_aesctr_aesni.c", "crypto/crypto_aesctr_arm.c", "crypto/crypto_dh.c", "crypto/crypto_dh_group14.c", "crypto/crypto_entropy.c",
        "crypto/crypto_entropy_rdrand.c", "crypto/crypto_verify_bytes.c", "util/entropy.c", "util/insecure_memzero.c", "util/warnp.c", "util/hexify.c", "util/asprintf.c",
        "aws/aws_sign.c", "aws/aws_readkeys.c",
        "cpusupport/cpusupport_x86_aesni.c", "cpusupport/cpusupport_x86_rdrand.c", "cpusupport/cpusupport_x86_shani.c", "cpusupport/cpusupport_x86_sse2.c",
        "cpusupport/cpusupport_x86_sse42.c", "cpusupport/cpusupport_x86_ssse3.c", "cpusupport/cpusupport_arm_aes.c", "cpusupport/cpusupport_arm_crc32_64.c",
        "cpusupport/cpusupport_arm_sha256.c"]
# CPU-feature configurations (C03): every subset the host can execute that selects a different code path
CONFIGS = ["accel", "none", "sse2", "sse42", "aesni"]


def build(c, cfg="accel"):
    srcs = [os.path.join(vlib.HARNESS, f) for f in ("drv_crypto.c", "allocwrap.c")] + vlib.repo_srcs(*SRCS)
    return vlib.build(c.dir, "drv_crypto_" + cfg, srcs, cpu=cfg, wraps=WRAPS, libs=["-lcrypto"])


def hx(b):
    return bytes(b).hex() if len(b) else "-"


def rbytes(rnd, n):
    return bytes(rnd.getrandbits(8) for _ in range(n))


def cuts_for(rnd, n, bounds):
    """update partitions: single call, byte-wise (short), and <= 3 cuts at boundary offsets"""
    out = [[n]]
    if n <= 40:
        out.append([1] * n)
    pts = sorted(set(b for b in bounds if 0 < b < n))
    for _ in range(3):
        k = rnd.randint(1, 3)
        cs = sorted(rnd.sample(pts, min(k, len(pts)))) if pts else []
        prev, parts = 0, []
        for x in cs:
            parts.append(x - prev)
            prev = x
        parts.append(n - prev)
        if rnd.random() < 0.3:
            parts.insert(rnd.randrange(len(parts) + 1), 0)
        out.append(parts)
    return out


HB = [1, 7, 8, 9, 55, 56, 57, 63, 64, 65, 119, 120, 121, 127, 128, 129, 183, 184, 191, 192, 193]


def hash_lines(rnd, n_extra):
    L = []
    lens = list(range(0, 131)) + [183, 184, 185, 191, 192, 193, 247, 248, 249, 255, 256, 257, 1000, 4096, 70000]
    for n in lens:
        m = rbytes(rnd, n)
        for alg in ("sha256", "sha1", "md5"):
            for cs in cuts_for(rnd, n, HB)[: (5 if n < 300 else 2)]:
                L.append("hash %s %s %d %s" % (alg, ",".join(map(str, cs)) or "-", rnd.randrange(16), hx(m)))
    for _ in range(n_extra):
        n = rnd.choice([rnd.randint(0, 300), rnd.choice(HB) + 64 * rnd.randint(0, 3)])
        m = rbytes(rnd, n)
        cs = rnd.choice(cuts_for(rnd, n, HB + [rnd.randint(0, max(1, n)) for _ in range(3)]))
        L.append("hash %s %s %d %s" % (rnd.choice(["sha256", "sha1", "md5"]), ",".join(map(str, cs)) or "-", rnd.randrange(16), hx(m)))
    return L


def hmac_lines(rnd, n_extra):
    L = []
    for klen in list(range(0, 132)) + [200]:
        for alg in ("sha256", "sha1", "md5"):
            n = rnd.choice([0, 1, 55, 56, 64, 100])
            m = rbytes(rnd, n)
            cs = rnd.choice(cuts_for(rnd, n, HB))
            L.append("hmac %s %s %s %s" % (alg, hx(rbytes(rnd, klen)), ",".join(map(str, cs)) or "-", hx(m)))
    for _ in range(n_extra):
        n = rnd.choice(HB + [0, 300])
        m = rbytes(rnd, n)
        cs = rnd.choice(cuts_for(rnd, n, HB))
        L.append("hmac %s %s %s %s" % (rnd.choice(["sha256", "sha1", "md5"]), hx(rbytes(rnd, rnd.choice([0, 1, 32, 63, 64, 65, 128, 131]))), ",".join(map(str, cs)) or "-", hx(m)))
    return L


def pbkdf2_lines(rnd, n_extra):
    L = []
    for dk in (1, 31, 32, 33, 64, 65, 100):
        for c in ((1, 2, 3, 20) if dk == 33 else (1, 2)):
            for sl in ((0, 8, 55, 59, 60, 61, 64, 100) if c <= 2 else (8, 60)):
                L.append("pbkdf2 %s %s %d %d" % (hx(rbytes(rnd, rnd.choice([0, 8, 64, 65, 100]))), hx(rbytes(rnd, sl)), c, dk))
    # more than 255 / 511 output blocks: the block index no longer fits one byte of INT(i)
    for dk, c in ((8160, 1), (8161, 1), (8192, 2), (16352 + 33, 1)):
        L.append("pbkdf2 %s %s %d %d" % (hx(rbytes(rnd, 9)), hx(rbytes(rnd, 7)), c, dk))
    for _ in range(n_extra):
        L.append("pbkdf2 %s %s %d %d" % (hx(rbytes(rnd, rnd.randint(0, 130))), hx(rbytes(rnd, rnd.randint(0, 130))), rnd.randint(1, 20), rnd.randint(1, 100)))
    return L


def crc_lines(rnd, n_extra):
    L = []
    for align in range(16):
        for n in (list(range(0, 26)) + [31, 32, 33, 63, 64, 65] if align % 4 == 0 else [0, 1, 7, 8, 9, 15, 16, 17, 23, 24, 25]):
            m = rbytes(rnd, n)
            cs = rnd.choice(cuts_for(rnd, n, [1, 3, 7, 8, 9, 15, 16, 17, 24]))
            L.append("crc %s %d %s" % (",".join(map(str, cs)) or "-", align, hx(m)))
    # long single updates (vectorised and multi-lane code starts at some size: 128 bytes, 4 KiB lanes, ...), at odd alignments
    for n in (1024, 4096 + 9, 12288, 12288 + 77, 3 * 4096 + 4095, 40000):
        for align in (0, 3, 8, 13):
            L.append("crc %d %d %s" % (n, align, hx(rbytes(rnd, n))))
            L.append("crc %s %d %s" % (",".join(map(str, [n // 3, n - n // 3])), align, hx(rbytes(rnd, n))))
    for _ in range(n_extra):
        n = rnd.randint(0, 150)
        cs = rnd.choice(cuts_for(rnd, n, [rnd.randint(0, max(1, n)) for _ in range(4)]))
        L.append("crc %s %d %s" % (",".join(map(str, cs)) or "-", rnd.randrange(16), hx(rbytes(rnd, n))))
    return L


def aes_lines(rnd, n):
    L = []
    for _ in range(n):
        kl = rnd.choice([16, 32])
        k = rnd.choice([bytes(kl), bytes([0xff]) * kl, rbytes(rnd, kl)])
        b = rnd.choice([bytes(16), bytes([0xff]) * 16, rbytes(rnd, 16)])
        L.append("aes %s %s" % (hx(k), hx(b)))
    return L


def aesfresh_lines(rnd, kmax=6):
    """first AES use of a process with the k-th allocation refused (k = 0: none): the one-time choice between the hardware and
    the software implementation must stay consistent with the keys already expanded"""
    L = []
    for k in range(0, kmax + 1):
        for kl in (16, 32):
            L.append("aesfresh %d %s %s %s" % (k, hx(rbytes(rnd, kl)), hx(rbytes(rnd, rnd.choice([16, 32]))), hx(rbytes(rnd, 16))))
    return L


CB = [1, 15, 16, 17, 31, 32, 33, 47, 48, 255, 256, 257]


def ctr_lines(rnd, n, big):
    L = []
    for _ in range(n):
        kl = rnd.choice([16, 32])
        nonce = rnd.choice([0, 1, (1 << 64) - 1, rnd.getrandbits(64)])
        ln = rnd.choice([0, 1, 15, 16, 17, 33, 100, 300, 512])
        parts = rnd.choice(cuts_for(rnd, ln, CB + [rnd.randint(0, max(1, ln)) for _ in range(3)]))
        calls = [str(p) for p in parts]
        if rnd.random() < 0.2:
            calls.insert(rnd.randrange(len(calls) + 1), "R%d" % rnd.getrandbits(64))
        if rnd.random() < 0.25 and len(calls) > 1:
            # the key replaced by another one (either length) living at the same address, the stream object kept
            calls.insert(rnd.randrange(1, len(calls)), "K%s:%d" % (hx(rbytes(rnd, rnd.choice([16, 32]))), rnd.getrandbits(64)))
        if rnd.random() < 0.15:
            # re-initialised and then released unused (or after an empty call): the object still has to be wiped
            calls += ["R%d" % rnd.getrandbits(64)] + (["0"] if rnd.random() < 0.5 else [])
        L.append("ctr %s %d %s %d %s" % (hx(rbytes(rnd, kl)), nonce, ",".join(calls), rnd.randint(0, 1), hx(rbytes(rnd, ln))))
    # one stream object over a succession of keys of alternating lengths, each expanded where the previous one was released;
    # whole-block and sub-block calls under each key
    for first in (16, 32):
        for ln in (200, 560):
            kls = [first, 48 - first, first, first, 48 - first]
            calls, left = [], ln
            for j, kl in enumerate(kls[1:]):
                take = rnd.choice([5, 16, 33, 64])
                calls += [str(take), str(rnd.choice([3, 16, 17])), "K%s:%d" % (hx(rbytes(rnd, kl)), rnd.getrandbits(64))]
            calls.append(str(ln))
            L.append("ctr %s %d %s %d %s" % (hx(rbytes(rnd, first)), rnd.getrandbits(64), ",".join(calls), rnd.randint(0, 1), hx(rbytes(rnd, ln))))
    # caller buffers at every offset from a 16-byte boundary: a short call (partial block), then a long one whose output pointer is
    # aligned / misaligned (vector loads and stores, non-temporal stores)
    for hdr in (1, 5, 8, 15, 16, 0):
        for ln in (300, 16384 + 32, 40000):
            for _ in range(2):
                ao = rnd.choice([(16 - hdr) % 16, rnd.randrange(16)])
                L.append("ctr %s %d %s %d pattern:%d %d %d" % (hx(rbytes(rnd, rnd.choice([16, 32]))), rnd.getrandbits(64), ",".join(str(x) for x in (hdr, ln) if x or x == hdr),
                                                             rnd.randint(0, 1), hdr + ln, rnd.randrange(16), ao))
    # long streams carrying the block counter across byte boundaries: 256 and 65536 blocks
    # a run of whole blocks that ends exactly where the counter carries (4 KiB, 64 KiB, 1 MiB), then a few bytes: in the same call and
    # in the next one
    for edge in (4096, 65536, 1048576):
        for tail in (5, 15):
            for calls in ([edge + tail], [edge, tail], [16, edge - 16, tail]):
                L.append("ctr %s %d %s %d pattern:%d" % (hx(rbytes(rnd, rnd.choice([16, 32]))), rnd.getrandbits(64), ",".join(map(str, calls)), rnd.randint(0, 1), edge + tail))
    for ln, reps in ((4096 + 48, big), (65536 + 80, big), (1048576 + 64, max(1, big // 2))):
        for rep in range(max(reps, 5)):
            style = ["one", "small", "mixed", "sub", "edge"][rep % 5]         # every style at least once per stream length
            if style == "one":
                calls = [ln]
            elif style == "small":
                # (trace validation of one call costs ~30 ms: keep the number of calls of a long stream below ~250)
                step = rnd.choice([17, 31, 100]) if ln < 10000 else rnd.choice([1000, 4097]) if ln < 100000 else rnd.choice([5000, 65537])
                calls = [step] * (ln // step) + [ln % step]
            elif style == "sub":
                # sub-block pieces around the carry offsets, whole blocks elsewhere
                calls, pos = [], 0
                for edge in (4096, 65536, 1048576):
                    if edge + 40 < ln:
                        a = edge - rnd.choice([16, 26, 40])
                        calls += [a - pos] + [rnd.choice([3, 5, 11, 15])] * 8
                        pos = a + sum(calls[-8:])
                calls.append(ln - pos)
            elif style == "edge":
                calls = [5, 11 + 256 * 16, 5, ln - 21 - 256 * 16]
            else:
                calls, left = [], ln
                while left > 0:
                    k = min(left, rnd.choice([1, 7, 16, 17, 100, 4096, 65536, 70001]))
                    calls.append(k)
                    left -= k
                    if len(calls) > 200:
                        calls.append(left)
                        left = 0
            cs = [str(x) for x in calls if x >= 0]
            if rnd.random() < 0.15:
                cs.insert(rnd.randrange(len(cs) + 1), "R%d" % rnd.getrandbits(64))
            L.append("ctr %s %d %s %d pattern:%d" % (hx(rbytes(rnd, rnd.choice([16, 32]))), rnd.getrandbits(64), ",".join(cs), rnd.randint(0, 1), ln))
    return L


def run(c, exe, lines, tag, per=200, tv_timeout=1700, shuffle=True):
    if shuffle:
        lines = list(lines)
        random.Random(c.seed).shuffle(lines)      # balance the cost of the validation shards
    progs = ["prog crypto\n" + "\n".join(lines[i:i + per]) + "\nend\n" for i in range(0, len(lines), per)]
    return vlib.conformance(c, exe, progs, SD, "CryptoTrace", "CryptoTrace.cfg", tag, procs=12, shards=14, nontrivial=lambda ex: len(ex) > 0,
                            tv_timeout=tv_timeout, run_timeout=1200, heavy=True)
