"""C20 — key material is wiped: finalised hash / HMAC contexts are zero (zero field of hash/hmac events), nothing holding an AES key,
a DH private or blinding value or a secret key is returned to the allocator (free-time scanner in malloc's and OpenSSL's free)."""
import random
import vlib
from checks import cryptogen as g


def main(c):
    rnd = random.Random(c.seed)
    c.add_mc("AesCtrImpl / HashStream life cycles (init, update*, final; init, stream*, free)", vlib.tlc(g.SD, "HashStream", "HashStreamMC.cfg", workers=4, timeout=600))
    c.cov["exhaustive"] = True
    lines = g.hash_lines(rnd, c.pick(100, 4000))[:: c.pick(6, 1)] + g.hmac_lines(rnd, c.pick(100, 3000))[:: c.pick(3, 1)]
    lines += g.aes_lines(rnd, c.pick(300, 5000)) + g.ctr_lines(rnd, c.pick(400, 8000), c.pick(2, 10))
    h = lambda v, n: "%0*x" % (n, v)
    for _ in range(c.pick(40, 600)):
        x, b = rnd.getrandbits(256), rnd.getrandbits(256)
        lines.append("dhpub %s %s" % (h(x, 64), h(b, 64)))
        lines.append("dhkey %s %s %s" % (h(rnd.getrandbits(2040), 512), h(x, 64), h(b, 64)))
    # the error paths too: each bignum allocation refused in turn, secrets still never reach the allocator
    x, b = rnd.getrandbits(256), rnd.getrandbits(256)
    for k in range(1, 91):
        lines.append("dhpub %s %s %d" % (h(x, 64), h(b, 64), k))
        lines.append("dhkey %s %s %s %d" % (h(rnd.getrandbits(2040), 512), h(x, 64), h(b, 64), k))
    # key files failing after the secret line was read (and successful ones)
    for _ in range(c.pick(300, 5000)):
        secret = "".join(rnd.choice("abcdefghijklmnopqrstuvwxyzABCDEFGHIJKLMNOPQRSTUVWXYZ0123456789+/") for _ in range(rnd.choice([9, 12, 15, 17, 23, 40, 41, 47, 64])))
        parts = rnd.choice([["ACCESS_KEY_SECRET=" + secret], ["ACCESS_KEY_SECRET=" + secret, "ACCESS_KEY_ID"], ["ACCESS_KEY_SECRET=" + secret, "FOO=bar"],
                            ["ACCESS_KEY_SECRET=" + secret, "ACCESS_KEY_SECRET=" + secret[::-1]], ["ACCESS_KEY_ID=AKIA", "ACCESS_KEY_SECRET=" + secret, "junk"],
                            ["ACCESS_KEY_ID=AKIA", "ACCESS_KEY_SECRET=" + secret], ["ACCESS_KEY_SECRET=" + secret, "ACCESS_KEY_ID=AKIA", "ACCESS_KEY_ID=again"],
                            # a much longer line after the secret (a line buffer that grows is released with the secret line in it)
                            ["ACCESS_KEY_SECRET=" + secret, "ACCESS_KEY_ID=" + "A" * rnd.choice([130, 300, 900]), "junk"],
                            ["ACCESS_KEY_SECRET=" + secret, "FOO=" + "x" * rnd.choice([200, 1000])],
                            ["ACCESS_KEY_ID=AKIA", "ACCESS_KEY_SECRET=" + secret, "ACCESS_KEY_SECRET=" + secret[::-1] + "Z"]])
        content = "\n".join(parts) + rnd.choice(["\n", "", "\r\n"])
        lines.append("keyfile " + content.encode().hex())
    c.cov["calls_per_build"] = len(lines)
    for cfg in ("accel", "none"):        # AES-NI key structure and the software AES_KEY
        exe = g.build(c, cfg)
        g.run(c, exe, lines, "wipe_" + cfg)
    c.cov["rule"] = ("call sequences init/update*/final for the three digests and HMACs (context all zero afterwards), key expand/free and AES-CTR init/stream*/free with "
                     "random keys, DH generate/compute with random private and blinding values, key files that fail after the secret line was read (and successful ones); "
                     "secrets registered as byte patterns (big-endian and limb order) and searched for in every block released through free() and through OpenSSL's "
                     "allocator at the moment of release; in the all-features build and the software build; validated by TLC (zero = TRUE, tainted = 0); "
                     "an execution = 200 calls in one build")
    c.cov["trusted_base"] = ["free-time scanner (harness/drv_crypto.c): 8-byte windows with >= 6 distinct byte values", "TLC"]
    c.assumptions += ["only secrets with distinctive byte patterns can be searched for", "stack copies are out of scope (the statement is about finalised contexts and freed memory)"]
