#!/usr/bin/env python3
"""Binding self-tests run by `make setup`: for each trace specification a tiny hand-made trace must be
accepted and a corrupted copy of it must be rejected (the specification really constrains the trace)."""
import json, os, sys, tempfile
sys.path.insert(0, os.path.dirname(os.path.abspath(__file__)))
import vlib
TESTS = []
def T(area, module, cfg, good, corrupt):
    TESTS.append((area, module, cfg, good, corrupt))
R = {"e": "reset"}
T("ds", "PtrHeapTrace", "PtrHeapTrace.cfg",
  [R, {"e": "h_add", "el": 1, "key": 3, "rc": 0, "notes": [[1, 0]]}, {"e": "h_add", "el": 2, "key": 1, "rc": 0, "notes": [[2, 1], [1, 1], [2, 0]]},
   {"e": "h_getmin", "el": 2}, {"e": "h_deletemin", "el": 2, "notes": [[1, 0]]}, {"e": "h_getmin", "el": 1}],
  lambda t: t[:3] + [{"e": "h_getmin", "el": 1}] + t[4:])
T("ds", "TimerQueueTrace", "TimerQueueTrace.cfg",
  [R, {"e": "t_add", "id": 1, "sh": 0, "s": 1, "u": 5, "ok": True}, {"e": "t_add", "id": 2, "sh": 0, "s": 1, "u": 4, "ok": True},
   {"e": "t_getptr", "sh": 0, "s": 1, "u": 4, "id": 2}, {"e": "t_getptr", "sh": 0, "s": 1, "u": 4, "id": 0}],
  lambda t: t[:3] + [{"e": "t_getptr", "sh": 0, "s": 1, "u": 4, "id": 1}])

def fixtures():
    """recorded executions of the real code (tools/mkfixtures.py) with a corruption recipe each"""
    fd = os.path.join(vlib.VERIF, "selftest")
    idx = json.load(open(os.path.join(fd, "index.json")))
    for name, meta in sorted(idx.items()):
        good = vlib.read_ndjson(os.path.join(fd, name + ".ndjson"))
        rec = meta["corrupt"]

        def corrupt(t, rec=rec):
            t = [dict(e) for e in t]
            for i, e in enumerate(t):
                if e.get("e") == rec[1]:
                    if rec[0] == "drop":
                        return t[:i] + t[i + 1:]
                    e[rec[2]] = rec[3]
                    return t
            raise RuntimeError("corruption target %s not in fixture %s" % (rec[1], name))
        T(meta["area"], meta["module"], meta["cfg"], good, corrupt)


def dh_modulus():
    """the group-14 modulus written in DH.tla equals the RFC 3526 formula (mpmath in the tooling venv)"""
    import re, subprocess
    h = re.search(r'P14 == "([0-9a-f]+)"', open(os.path.join(vlib.SPECS, "crypto", "DH.tla")).read()).group(1)
    code = ("from mpmath import mp, floor, pi\nmp.prec = 4000\n"
            "print('%x' % (2**2048 - 2**1984 - 1 + 2**64 * (int(floor(mp.mpf(2)**1918 * pi)) + 124476)))")
    r = subprocess.run(["python3-vt", "-c", code], capture_output=True, text=True, timeout=120)
    if r.returncode != 0:
        print("selftest: mpmath not available, modulus not re-derived (%s)" % r.stderr.strip()[-200:])
        return 0
    if r.stdout.strip() != h:
        print("SELFTEST FAILED: DH.tla modulus differs from the RFC 3526 formula")
        return 1
    return 0


def ref_constants():
    """the constants written out in Sha256Ref.tla / AesRef.tla equal their definitions (FIPS 180-4 4.2.2, 5.3.3; FIPS 197 5.1.1)"""
    import re

    def iroot(n, k):
        lo, hi = 0, 1
        while hi ** k <= n:
            hi *= 2
        while lo < hi - 1:
            m = (lo + hi) // 2
            lo, hi = (m, hi) if m ** k <= n else (lo, m)
        return lo
    ps = []
    k = 2
    while len(ps) < 64:
        if all(k % q for q in ps):
            ps.append(k)
        k += 1
    t = open(os.path.join(vlib.SPECS, "crypto", "Sha256Ref.tla")).read()
    pairs = lambda body: [(int(a) << 16) | int(b) for a, b in re.findall(r"<<(\d+), (\d+)>>", body)]
    K = pairs(t[t.index("K == <<"):t.index("H0 ==")])
    H = pairs(t[t.index("H0 =="):t.index("\\* section 5.1.1")])
    bad = 0
    if K != [iroot(q << 96, 3) & 0xffffffff for q in ps] or H != [iroot(q << 64, 2) & 0xffffffff for q in ps[:8]]:
        print("SELFTEST FAILED: Sha256Ref.tla constants differ from the cube / square roots of the primes")
        bad += 1

    def xt(b):
        return ((2 * b) - 256) ^ 27 if 2 * b >= 256 else 2 * b

    def gm(a, b):
        r = 0
        while b:
            if b & 1:
                r ^= a
            a = xt(a)
            b >>= 1
        return r
    rotl = lambda b, n: ((b << n) & 255) | (b >> (8 - n))
    inv = [0] + [next(y for y in range(1, 256) if gm(x, y) == 1) for x in range(1, 256)]
    sb = [b ^ rotl(b, 1) ^ rotl(b, 2) ^ rotl(b, 3) ^ rotl(b, 4) ^ 99 for b in inv]
    t = open(os.path.join(vlib.SPECS, "crypto", "AesRef.tla")).read()
    tab = [int(x) for x in re.findall(r"\d+", t[t.index("SBoxT == <<"):t.index("SBox == [")])]
    if tab != sb:
        print("SELFTEST FAILED: AesRef.tla S-box table differs from inverse + affine map")
        bad += 1
    return bad


def main():
    bad = dh_modulus() + ref_constants()
    fixtures()
    d = os.path.join(vlib.BUILD, "selftest")
    os.makedirs(d, exist_ok=True)
    import concurrent.futures
    jobs = []
    for (area, module, cfg, good, corrupt) in TESTS:
        sd = os.path.join(vlib.SPECS, area)
        for name, tr, want in (("good", good, True), ("corrupt", corrupt(list(good)), False)):
            jobs.append((sd, module, cfg, name, tr, want, len(jobs)))

    def one(j):
        sd, module, cfg, name, tr, want, k = j
        p = os.path.join(d, "%s.%d.%s.ndjson" % (module, k, name))
        with open(p, "w") as f:
            for ev in tr:
                f.write(json.dumps(ev) + "\n")
        ok, line, res = vlib.validate_file(sd, module, cfg, p, timeout=300)
        return (module, name, ok, want, res.out[-1500:])
    with concurrent.futures.ThreadPoolExecutor(max_workers=8) as ex:
        for module, name, ok, want, out in ex.map(one, jobs):
            if ok != want:
                bad += 1
                print("SELFTEST FAILED: %s %s trace: accepted=%s expected=%s\n%s" % (module, name, ok, want, out))
    print("selftest: %d trace checks, %d failures" % (len(jobs), bad))
    return 1 if bad else 0


def main_old():
    bad = 0
    d = os.path.join(vlib.BUILD, "selftest")
    os.makedirs(d, exist_ok=True)
    for (area, module, cfg, good, corrupt) in TESTS:
        sd = os.path.join(vlib.SPECS, area)
        for name, tr, want in (("good", good, True), ("corrupt", corrupt(list(good)), False)):
            p = os.path.join(d, "%s.%s.ndjson" % (module, name))
            with open(p, "w") as f:
                for ev in tr:
                    f.write(json.dumps(ev) + "\n")
            ok, line, res = vlib.validate_file(sd, module, cfg, p, timeout=300)
            if ok != want:
                bad += 1
                print("SELFTEST FAILED: %s %s trace: accepted=%s expected=%s\n%s" % (module, name, ok, want, res.out[-1500:]))
    print("selftest: %d trace specs, %d failures" % (len(TESTS), bad))
    return 1 if bad else 0

if __name__ == "__main__":
    sys.exit(main())
