#!/usr/bin/env python3
"""Binding self-tests run by `make setup`: for each trace specification a tiny hand-made trace must be
accepted and a corrupted copy of it must be rejected (the specification really constrains the trace)."""
import json, os, sys, tempfile
sys.path.insert(0, os.path.dirname(os.path.abspath(__file__)))
import vlib
TESTS = []
def T(area, module, cfg, good, corrupt):
    TESTS.append((area, module, cfg, good, corrupt))
R = {"e": "reset"}
T("ds", "PtrHeapTrace", "PtrHeapTrace.cfg",
  [R, {"e": "h_add", "el": 1, "key": 3, "rc": 0, "notes": [[1, 0]]}, {"e": "h_add", "el": 2, "key": 1, "rc": 0, "notes": [[2, 1], [1, 1], [2, 0]]},
   {"e": "h_getmin", "el": 2}, {"e": "h_deletemin", "el": 2, "notes": [[1, 0]]}, {"e": "h_getmin", "el": 1}],
  lambda t: t[:3] + [{"e": "h_getmin", "el": 1}] + t[4:])
T("ds", "TimerQueueTrace", "TimerQueueTrace.cfg",
  [R, {"e": "t_add", "id": 1, "s": 1, "u": 5, "ok": True}, {"e": "t_add", "id": 2, "s": 1, "u": 4, "ok": True},
   {"e": "t_getptr", "s": 1, "u": 4, "id": 2}, {"e": "t_getptr", "s": 1, "u": 4, "id": 0}],
  lambda t: t[:3] + [{"e": "t_getptr", "s": 1, "u": 4, "id": 1}])

def main():
    bad = 0
    d = os.path.join(vlib.BUILD, "selftest")
    os.makedirs(d, exist_ok=True)
    for (area, module, cfg, good, corrupt) in TESTS:
        sd = os.path.join(vlib.SPECS, area)
        for name, tr, want in (("good", good, True), ("corrupt", corrupt(list(good)), False)):
            p = os.path.join(d, "%s.%s.ndjson" % (module, name))
            with open(p, "w") as f:
                for ev in tr:
                    f.write(json.dumps(ev) + "\n")
            ok, line, res = vlib.validate_file(sd, module, cfg, p, timeout=300)
            if ok != want:
                bad += 1
                print("SELFTEST FAILED: %s %s trace: accepted=%s expected=%s\n%s" % (module, name, ok, want, res.out[-1500:]))
    print("selftest: %d trace specs, %d failures" % (len(TESTS), bad))
    return 1 if bad else 0

if __name__ == "__main__":
    sys.exit(main())
