#!/usr/bin/env python3
"""Parse every specification with SANY (fails the setup on a syntax/semantic error)."""
import glob, os, subprocess, sys
V = os.path.dirname(os.path.dirname(os.path.abspath(__file__)))
bad = 0
TMP = os.path.join(V, "build", "sanytmp")
os.makedirs(TMP, exist_ok=True)
env = dict(os.environ, JAVA_TOOL_OPTIONS="-DTLA-Library=" + os.path.join(V, "specs", "common") + " -Djava.io.tmpdir=" + TMP)
files = sorted(glob.glob(os.path.join(V, "specs", "*", "*.tla")))
from concurrent.futures import ThreadPoolExecutor
def one(f):
    r = subprocess.run(["java", "-cp", "/opt/veriftools/tla/tla2tools.jar:/opt/veriftools/tla/CommunityModules-deps.jar", "tla2sany.SANY", os.path.basename(f)],
                       cwd=os.path.dirname(f), env=env, capture_output=True, text=True, timeout=300)
    ok = r.returncode == 0 and "Semantic errors" not in r.stdout and "Parse Error" not in r.stdout and "Fatal errors" not in r.stdout
    return f, ok, r.stdout[-1500:]
with ThreadPoolExecutor(8) as ex:
    for f, ok, out in ex.map(one, files):
        if not ok:
            bad += 1
            print("SANY FAILED:", f, "\n", out)
import shutil
shutil.rmtree(TMP, ignore_errors=True)
print("sany: %d modules, %d failed" % (len(files), bad))
sys.exit(1 if bad else 0)
