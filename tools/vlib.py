#!/usr/bin/env python3
"""Shared machinery of the /verif checks: harness builds from the repository's
working tree, TLC runs (model checking, generation, trace validation with the
VPrims Java overrides), evidence files, known findings, violation reporting.

Exit codes of a check: 0 held / 1 violation (with a VIOLATION line) / 2 tool failure.
"""
import glob, hashlib
import json
import os
import re
import shutil
import subprocess
import sys
import time

VERIF = os.path.dirname(os.path.dirname(os.path.abspath(__file__)))
REPO = os.environ.get("VERIF_REPO", "/repo")
BUILD = os.path.join(VERIF, "build")
SPECS = os.path.join(VERIF, "specs")
HARNESS = os.path.join(VERIF, "harness")
JAR = "/opt/veriftools/tla/tla2tools.jar"
CMJAR = "/opt/veriftools/tla/CommunityModules-deps.jar"
JAVACLS = os.path.join(BUILD, "java")
GUARD = "TARSNAP_LIBCPERCIVA_VERIF"


class ToolFailure(Exception):
    pass


def log(*a):
    print("[verif]", *a, file=sys.stderr, flush=True)


def _limits():
    # no child of a check may write a file larger than 3 GiB (a runaway driver must not fill the disk)
    import resource
    resource.setrlimit(resource.RLIMIT_FSIZE, (3 << 30, 3 << 30))


def sh(cmd, timeout=None, env=None, cwd=None, stdout=None, stderr=None, check=False, input=None):
    e = dict(os.environ)
    if env:
        e.update(env)
    try:
        r = subprocess.run(cmd, timeout=timeout, env=e, cwd=cwd, input=input, preexec_fn=_limits,
                           stdout=stdout if stdout is not None else subprocess.PIPE,
                           stderr=stderr if stderr is not None else subprocess.STDOUT,
                           text=True, errors="replace")
    except subprocess.TimeoutExpired as ex:
        class R:
            pass
        r = R()
        r.returncode = 124
        r.stdout = (ex.stdout or "") if isinstance(ex.stdout, str) else (ex.stdout or b"").decode("utf8", "replace")
        r.stderr = ""
    if check and r.returncode != 0:
        raise ToolFailure("command failed (%d): %s\n%s" % (r.returncode, " ".join(map(str, cmd))[:400], (r.stdout or "")[-4000:]))
    return r


# --------------------------------------------------------------------------
# Java overrides
# --------------------------------------------------------------------------
def ensure_java():
    src = [os.path.join(VERIF, "java", f) for f in ("VOverrides.java", "VTLCOverrides.java")]
    cls = os.path.join(JAVACLS, "VOverrides.class")
    if os.path.exists(cls) and all(os.path.getmtime(cls) >= os.path.getmtime(s) for s in src):
        return
    os.makedirs(JAVACLS, exist_ok=True)
    sh(["javac", "-cp", JAR, "-d", JAVACLS] + src, check=True, timeout=300)


# --------------------------------------------------------------------------
# Harness builds (always from REPO's current working tree)
# --------------------------------------------------------------------------
BASE_CFLAGS = ["-O2", "-g", "-fno-omit-frame-pointer", "-std=c99",
               "-D_POSIX_C_SOURCE=200809L", "-D_XOPEN_SOURCE=700", "-D" + GUARD]
SAN = ["-fsanitize=address,undefined", "-fno-sanitize=nonnull-attribute", "-fno-sanitize-recover=undefined"]
IDIRS = ["alg", "aws", "cpusupport", "crypto", "datastruct", "events", "http", "netbuf",
         "network", "network_ssl", "util", "external/queue"]

CPUCFG = {
    # name: (config header, extra -m flags)
    "all": ("cpusupport-all.h", ["-msse2", "-mssse3", "-msse4.2", "-maes", "-msha", "-mrdrnd"]),
    "accel": ("cpusupport-accel.h", ["-msse2", "-mssse3", "-msse4.2", "-maes", "-msha"]),   # everything except RDRAND
    "none": ("cpusupport-none.h", []),
    "sse2": ("cpusupport-sse2.h", ["-msse2"]),
    "sse42": ("cpusupport-sse42.h", ["-msse4.2"]),
    "sse42w32": ("cpusupport-sse42w32.h", ["-msse4.2"]),     # SSE4.2 with 32-bit words (the configuration of 32-bit x86)
    "aesni": ("cpusupport-aesni.h", ["-maes"]),
    "shani": ("cpusupport-shani.h", ["-msse2", "-mssse3", "-msha"]),
}


def repo_srcs(*rel):
    return [os.path.join(REPO, r) for r in rel]


def _definers(symbols):
    """library files (not tests) that define one of these functions (the library's style puts the name at the start of a line)"""
    out = []
    for d in IDIRS:
        for f in sorted(glob.glob(os.path.join(REPO, d, "*.c"))):
            try:
                txt = open(f, errors="replace").read()
            except OSError:
                continue
            if any(re.search(r"^%s\(" % re.escape(sym), txt, re.M) for sym in symbols):
                out.append(f)
    return out


def build(outdir, name, sources, cpu="all", san=True, wraps=(), libs=(), defs=(), extra=()):
    """Compile `sources` (absolute paths; harness files and files of REPO) into outdir/name."""
    os.makedirs(outdir, exist_ok=True)
    out = os.path.join(outdir, name)
    hdr, mflags = CPUCFG[cpu]
    cmd = ["gcc"] + BASE_CFLAGS + (SAN if san else []) + mflags
    cmd += ['-DCPUSUPPORT_CONFIG_FILE="%s"' % os.path.join(HARNESS, "cfg", hdr),
            '-DAPISUPPORT_CONFIG_FILE="%s"' % os.path.join(HARNESS, "cfg", "apisupport-config.h")]
    cmd += ["-I" + REPO] + ["-I" + os.path.join(REPO, d) for d in IDIRS] + ["-I" + HARNESS]
    cmd += ["-D" + d for d in defs] + list(extra)
    cmd += ["-o", out] + list(sources)
    if wraps:
        cmd += ["-Wl," + ",".join("--wrap=" + w for w in wraps)]
    cmd += list(libs) + ["-lrt"]
    t0 = time.time()
    r = sh(cmd, timeout=600)
    for _ in range(4):
        # a change to the library may make a file depend on another library file that this harness did not need before:
        # add the file of the repository that defines the missing symbol and link again
        if r.returncode == 0:
            break
        missing = set(re.findall(r"undefined reference to `(\w+)'", r.stdout or ""))
        extra_srcs = [f for f in _definers(missing) if f not in sources and f not in cmd]
        if not missing or not extra_srcs:
            break
        log("build of %s: adding %s for %s" % (name, ", ".join(os.path.relpath(f, REPO) for f in extra_srcs), ", ".join(sorted(missing))))
        cmd = cmd[:cmd.index(out) + 1] + extra_srcs + cmd[cmd.index(out) + 1:]
        r = sh(cmd, timeout=600)
    if r.returncode != 0:
        raise ToolFailure("harness build failed:\n" + (r.stdout or "")[-6000:])
    log("built %s (%s, %.1fs)" % (name, cpu, time.time() - t0))
    return out


ASAN_ENV = {"ASAN_OPTIONS": "detect_leaks=1:abort_on_error=0:exitcode=97:allocator_may_return_null=1:detect_stack_use_after_return=0",
            "UBSAN_OPTIONS": "print_stacktrace=1:halt_on_error=1:exitcode=98",
            "LSAN_OPTIONS": "exitcode=96"}


# --------------------------------------------------------------------------
# TLC
# --------------------------------------------------------------------------
class TLCResult:
    def __init__(self, rc, out, wall):
        self.rc, self.out, self.wall = rc, out, wall
        m = re.findall(r"(\d+) states generated, (\d+) distinct states found, (\d+) states left", out)
        self.generated = int(m[-1][0]) if m else 0
        self.distinct = int(m[-1][1]) if m else 0
        self.left = int(m[-1][2]) if m else 0
        m = re.search(r"depth of the complete state graph search is (\d+)", out)
        self.depth = int(m.group(1)) if m else 0
        self.violated = re.findall(r"Invariant (\S+) is violated", out)
        self.prop_violated = "Temporal properties were violated" in out or "Action property" in out and "is violated" in out
        self.postcond_false = "Postcondition" in out and "is false" in out or "is violated" in out and "ostcondition" in out
        self.finished = "Model checking completed" in out or "Finished computing initial states" in out and "Finished in" in out
        self.error = None
        if "Parsing or semantic analysis failed" in out or "Error: " in out and not (self.violated or self.postcond_false or self.prop_violated):
            m = re.search(r"Error: (.*)", out)
            self.error = m.group(1) if m else "error"

    def coverage_actions(self):
        """per-action <taken:generated> counts printed by -coverage"""
        cov = {}
        for m in re.finditer(r"<(\w+) line \d+, col \d+ to line \d+, col \d+ of module (\w+)>: (\d+):(\d+)", self.out):
            k = m.group(1)
            a, b = int(m.group(3)), int(m.group(4))
            if k in cov:
                cov[k] = (cov[k][0] + a, cov[k][1] + b)
            else:
                cov[k] = (a, b)
        return cov


def tlc(spec_dir, module, cfg=None, workers=1, args=(), env=None, timeout=1800, xss="256m", xmx="8g",
        java_props=(), tag=None, coverage=False, gc="Parallel"):
    """Run TLC on spec_dir/module.tla with config cfg (default module.cfg)."""
    ensure_java()
    meta = os.path.join(BUILD, "tlcmeta", "%s.%d.%s" % (tag or module, os.getpid(), hashlib.md5(os.urandom(8)).hexdigest()[:6]))
    os.makedirs(meta, exist_ok=True)
    cp = ":".join([JAR, CMJAR, JAVACLS])
    cmd = ["java", "-XX:+Use%sGC" % gc] + (["-Xms128m"] if gc == "Serial" else []) + ["-Xss" + xss, "-Xmx" + xmx,
           "-Dtlc2.overrides.TLCOverrides=tlc2.overrides.TLCOverrides:VTLCOverrides",
           "-Djava.io.tmpdir=" + meta]
    cmd += ["-D" + p for p in java_props]
    cmd += ["-cp", cp, "tlc2.TLC", "-workers", str(workers), "-metadir", meta, "-noGenerateSpecTE"]
    if coverage:
        cmd += ["-coverage", "1"]
    cmd += list(args)
    cmd += ["-config", cfg or (module + ".cfg"), module + ".tla"]
    # TLA-Library so that common modules are found
    e = {"JAVA_TOOL_OPTIONS": "-DTLA-Library=" + os.path.join(SPECS, "common")}
    if env:
        e.update(env)
    t0 = time.time()
    r = sh(cmd, timeout=timeout, env=e, cwd=spec_dir)
    shutil.rmtree(meta, ignore_errors=True)
    res = TLCResult(r.returncode, r.stdout or "", time.time() - t0)
    if r.returncode == 124:
        res.error = "timeout after %ds" % timeout
    return res


def tlc_mc(spec_dir, module, cfg=None, workers=12, timeout=1500, **kw):
    """Exhaustive model checking; raises ToolFailure unless it completed; returns TLCResult."""
    res = tlc(spec_dir, module, cfg, workers=workers, timeout=timeout, **kw)
    return res


def tlc_emit(spec_dir, module, cfg=None, prefix="CASE", workers=1, timeout=900, args=(), env=None, **kw):
    """Run a generator spec; collect the JSON payloads of lines printed as <<"CASE", json>>."""
    res = tlc(spec_dir, module, cfg, workers=workers, timeout=timeout, args=args, env=env, **kw)
    cases = []
    pat = re.compile(r'^<<"%s", "(.*)">>$' % re.escape(prefix))
    for line in res.out.splitlines():
        m = pat.match(line.strip())
        if m:
            s = m.group(1).encode("utf8").decode("unicode_escape") if "\\" in m.group(1) else m.group(1)
            try:
                cases.append(json.loads(s))
            except Exception:
                pass
    return res, cases


# --------------------------------------------------------------------------
# Trace validation
# --------------------------------------------------------------------------
DRIFT = []   # (module, line) of IMPLDRIFT reports of the implementation-level models


def validate_file(spec_dir, module, cfg, trace_path, timeout=1200, xss="512m", env=None):
    """Validate one ndjson file.  Returns (accepted, first_bad_line or 0, TLCResult)."""
    e = {"TRACE": trace_path}
    if env:
        e.update(env)
    # one worker, many JVMs side by side (one per shard): the serial collector with a small initial heap keeps each of them at the
    # size of its live data (the parallel collector grew every one of them to 3.5 GB whatever the trace)
    res = tlc(spec_dir, module, cfg, workers=1, env=e, timeout=timeout, xss=xss, tag="tv", gc="Serial", xmx=os.environ.get("VERIF_TV_XMX", "6g"),
              java_props=())
    for m in re.finditer(r'<<"IMPLDRIFT", (\d+)>>', res.out):
        DRIFT.append((module, int(m.group(1))))
    if res.rc == 0 and not res.error and "Model checking completed. No error has been found" in res.out:
        return True, 0, res
    if res.postcond_false or res.rc in (10, 13):
        return False, res.depth, res
    raise ToolFailure("trace validation tool failure rc=%d\n%s" % (res.rc, res.out[-3000:]))


def validate_executions(spec_dir, module, cfg, execs, workdir, tag="tv", shards=8, timeout=1200, env=None, max_rejects=8, heavy=False):
    """execs: list of lists of event dicts (one list per execution).  Executions are
    concatenated with {"e":"reset"} lines and validated by TLC in `shards` parallel
    JVMs.  Returns list of indices of rejected executions with the line (within the
    execution, 1-based) of the first event the specification could not take."""
    import concurrent.futures
    os.makedirs(workdir, exist_ok=True)
    n = len(execs)
    if n == 0:
        return []
    total_events = sum(len(x) for x in execs)
    # enough work per JVM start: at least ~50 executions or ~4000 events per shard
    shards = max(1, min(shards, n) if heavy else min(shards, n, max((n + 49) // 50, total_events // 4000)))
    bounds = [(i * n // shards, (i + 1) * n // shards) for i in range(shards)]

    def run_shard(k):
        lo, hi = bounds[k]
        rejected = []
        start = lo
        rounds = 0
        while start < hi:
            path = os.path.join(workdir, "%s.%d.%d.ndjson" % (tag, k, rounds))
            index = []  # (first line, exec idx)
            line = 1
            with open(path, "w") as f:
                for i in range(start, hi):
                    f.write('{"e":"reset"}\n')
                    index.append((line, i))
                    line += 1
                    for ev in execs[i]:
                        f.write(json.dumps(ev, separators=(",", ":")) + "\n")
                        line += 1
            ok, bad, res = validate_file(spec_dir, module, cfg, path, timeout=timeout, env=env)
            if ok:
                os.unlink(path)
                break
            # map bad line to execution
            which = None
            for (l0, i) in index:
                if l0 <= bad:
                    which = (l0, i)
            if which is None:
                raise ToolFailure("cannot map rejected line %d" % bad)
            rejected.append((which[1], bad - which[0]))
            os.unlink(path)
            start = which[1] + 1
            rounds += 1
            if len(rejected) >= max_rejects:
                break
        return rejected

    out = []
    with concurrent.futures.ThreadPoolExecutor(max_workers=shards) as ex:
        for r in ex.map(run_shard, range(shards)):
            out.extend(r)
    return sorted(out)


# --------------------------------------------------------------------------
# Known findings
# --------------------------------------------------------------------------
def known_findings(prop):
    p = os.path.join(VERIF, "known_findings.json")
    if not os.path.exists(p):
        return []
    with open(p) as f:
        d = json.load(f)
    return [k for k in d.get("findings", []) if k.get("property") == prop and k.get("status") == "open"]


# --------------------------------------------------------------------------
# A check run
# --------------------------------------------------------------------------
class Check:
    def __init__(self, prop, tier=None, seed=None):
        self.prop = prop
        self.tier = tier or os.environ.get("VERIF_TIER", "quick")
        if self.tier not in ("quick", "thorough"):
            self.tier = "quick"
        self.seed = int(seed if seed is not None else os.environ.get("VERIF_SEED", "1") or 1)
        self.t0 = time.time()
        self.dir = os.path.join(BUILD, prop)
        # two runs of the same check share this directory: the second one waits for the first
        import fcntl
        os.makedirs(BUILD, exist_ok=True)
        self._lock = open(os.path.join(BUILD, prop + ".lock"), "w")
        fcntl.flock(self._lock, fcntl.LOCK_EX)
        self.t0 = time.time()
        shutil.rmtree(self.dir, ignore_errors=True)
        os.makedirs(self.dir, exist_ok=True)
        self.cov = {"states": 0, "transitions": 0, "traces_validated_against_impl": 0, "samples": [],
                    "evaluations": 0, "distinct_nontrivial": 0, "rule": "", "exhaustive": False,
                    "trusted_base": [], "mc_runs": [], "known_findings_seen": []}
        self.assumptions = []
        self.violations = []   # (what, replay path)
        self.known_seen = []
        self.replay_dir = os.path.join(VERIF, "replay", prop)
        self.budget = float(os.environ.get("VERIF_BUDGET_S", "150" if self.tier == "quick" else "900"))
        self._distinct = set()

    @property
    def quick(self):
        return self.tier == "quick"

    def pick(self, q, t):
        return q if self.quick else t

    def elapsed(self):
        return time.time() - self.t0

    def add_mc(self, name, res, require_complete=True, expect_ok=True):
        """Record an exhaustive TLC run.  A violated invariant in a *design-level* MC is a tool
        failure for the check (the model is wrong or the design is), reported loudly, not a VIOLATION
        of the code: code verdicts come only from conformance."""
        if res.error and not res.violated:
            raise ToolFailure("TLC %s: %s\n%s" % (name, res.error, res.out[-3000:]))
        if expect_ok and (res.violated or res.prop_violated or res.rc != 0):
            raise ToolFailure("TLC model check %s failed (rc=%d, violated=%s)\n%s" % (name, res.rc, res.violated, res.out[-4000:]))
        self.cov["states"] += res.distinct
        self.cov["transitions"] += res.generated
        log("MC %s: %d distinct states, %.0fs" % (name[:60], res.distinct, res.wall))
        self.cov["mc_runs"].append({"model": name, "distinct_states": res.distinct, "states_generated": res.generated,
                                    "depth": res.depth, "wall_s": round(res.wall, 1), "complete": res.left == 0})
        cov = res.coverage_actions()
        if cov:
            self.cov.setdefault("action_coverage", {})[name] = {k: v[1] for k, v in sorted(cov.items())}
            ne = [k for k, v in cov.items() if v[1] == 0]
            if ne:
                self.cov.setdefault("not_exercised", {})[name] = sorted(ne)

    def count_case(self, key, nontrivial=True):
        self.cov["evaluations"] += 1
        if nontrivial:
            h = hashlib.sha256(key if isinstance(key, bytes) else json.dumps(key, sort_keys=True).encode()).digest()[:12]
            self._distinct.add(h)

    def sample(self, s, limit=6):
        if len(self.cov["samples"]) < limit:
            self.cov["samples"].append(s)

    def save_replay(self, name, obj):
        os.makedirs(self.replay_dir, exist_ok=True)
        p = os.path.join(self.replay_dir, name)
        with open(p, "w") as f:
            if isinstance(obj, str):
                f.write(obj)
            else:
                json.dump(obj, f, indent=1)
        return p

    def violation(self, what, replay_path):
        self.violations.append((what, replay_path))
        log("violation: %s (%s)" % (what, replay_path))

    def known(self, what):
        if what not in self.known_seen:
            self.known_seen.append(what)

    def finish(self):
        self.cov["distinct_nontrivial"] = len(self._distinct)
        self.cov["known_findings_seen"] = self.known_seen
        self.cov["impl_model_drift_reports"] = len(DRIFT)
        self.cov["impl_model_conformant"] = len(DRIFT) == 0
        ev = {"property_id": self.prop, "tier": self.tier, "seed": self.seed, "level": "model_checking",
              "coverage": self.cov, "assumptions": self.assumptions, "wall_s": round(self.elapsed(), 1),
              "violations": len(self.violations)}
        evdir = os.path.join(VERIF, "evidence") if REPO == "/repo" else os.path.join(BUILD, "evidence-scratch")
        if os.environ.get("VERIF_REPLAY"):
            evdir = os.path.join(BUILD, "evidence-scratch")     # a replay of one saved program says nothing about coverage
        elif REPO == "/repo" and not self.prop.startswith("C"):
            evdir = os.path.join(VERIF, "evidence-extra")      # specifications beyond the listed properties (not in MANIFEST.json)
        os.makedirs(evdir, exist_ok=True)
        with open(os.path.join(evdir, self.prop + ".json"), "w") as f:
            json.dump(ev, f, indent=1, sort_keys=True)
            f.write("\n")
        for w in self.known_seen:
            print("KNOWN-FINDING: property=%s %s" % (self.prop, w))
        if self.violations:
            for what, path in self.violations[:10]:
                print("VIOLATION property=%s replay=%s" % (self.prop, path))
                print("  " + what)
            sys.stdout.flush()
            return 1
        print("OK property=%s tier=%s states=%d traces=%d evaluations=%d wall=%.0fs" % (
            self.prop, self.tier, self.cov["states"], self.cov["traces_validated_against_impl"],
            self.cov["evaluations"], self.elapsed()))
        return 0


def run_check(fn, prop):
    """Entry wrapper: maps exceptions to exit code 2 (tool failure; no VIOLATION line)."""
    try:
        c = Check(prop)
        rc = fn(c)
        if rc is None:
            rc = c.finish()
        return rc
    except ToolFailure as e:
        print("TOOL-FAILURE property=%s: %s" % (prop, str(e)[:6000]), file=sys.stderr)
        return 2


def apalache_inductive(c, spec_dir, module, obligations, statement, timeout=600):
    """Discharge proof obligations of an inductive invariant with Apalache (unbounded integers).  obligations: lists of
    apalache-mc arguments.  A reported counterexample is a tool failure (the model or its invariant is wrong); running out of
    time is recorded, not fatal."""
    t0 = time.time()
    ok, notes = 0, []
    outdir = os.path.join(c.dir, "apalache_" + module)
    for args in obligations:
        os.makedirs(outdir, exist_ok=True)
        r = sh(["timeout", str(timeout), "apalache-mc", "check", "--out-dir=" + outdir] + list(args) + [module + ".tla"], cwd=spec_dir, timeout=timeout + 60,
               env={"TMPDIR": outdir})        # (the wrapper script makes its SANY scratch directory with mktemp -t)
        out = r.stdout or ""
        if "The outcome is: NoError" in out:
            ok += 1
        elif "The outcome is: Error" in out:
            raise ToolFailure("Apalache: %s %s is violated\n%s" % (module, " ".join(args), out[-2500:]))
        else:
            notes.append("%s: no verdict (rc=%s)" % (" ".join(args), r.returncode))
    shutil.rmtree(outdir, ignore_errors=True)
    c.cov.setdefault("apalache_inductive_invariants", []).append(
        {"module": module, "obligations": len(obligations), "discharged": ok, "wall_s": round(time.time() - t0, 1), "statement": statement, "notes": notes})
    log("Apalache %s: %d of %d obligations discharged, %.0fs" % (module, ok, len(obligations), time.time() - t0))
    return ok == len(obligations)


def read_ndjson(path):
    out = []
    with open(path) as f:
        for line in f:
            line = line.strip()
            if line:
                out.append(json.loads(line))
    return out


def split_execs(events):
    """split a flat event list at {"e":"reset"} markers"""
    execs, cur = [], None
    for ev in events:
        if ev.get("e") == "reset":
            if cur is not None:
                execs.append(cur)
            cur = []
        else:
            if cur is None:
                cur = []
            cur.append(ev)
    if cur is not None:
        execs.append(cur)
    return execs


# --------------------------------------------------------------------------
# Running a driver over many programs
# --------------------------------------------------------------------------
def run_programs(exe, programs, workdir, tag="run", procs=8, timeout=600, env=None, extra_args=()):
    """programs: list of program texts (each a self-contained block the driver understands,
    one execution per program, the driver writes {"e":"reset"} before each).  Runs `procs`
    driver processes over contiguous slices.  Returns (execs, crashes): execs[i] is the event
    list of program i (None if not reached), crashes is a list of (program index, rc, stderr tail)."""
    import concurrent.futures
    os.makedirs(workdir, exist_ok=True)
    n = len(programs)
    if n == 0:
        return [], []
    procs = max(1, min(procs, n, max((n + 19) // 20, sum(len(p) for p in programs) // 200000)))
    bounds = [(i * n // procs, (i + 1) * n // procs) for i in range(procs)]
    execs = [None] * n
    crashes = []
    e = dict(ASAN_ENV)
    if env:
        e.update(env)

    def one(k):
        lo, hi = bounds[k]
        start = lo
        out_crashes = []
        rounds = 0
        while start < hi:
            pp = os.path.join(workdir, "%s.%d.%d.prog" % (tag, k, rounds))
            tp = os.path.join(workdir, "%s.%d.%d.ndjson" % (tag, k, rounds))
            ep = os.path.join(workdir, "%s.%d.%d.stderr" % (tag, k, rounds))
            with open(pp, "w") as f:
                for i in range(start, hi):
                    f.write(programs[i])
                    if not programs[i].endswith("\n"):
                        f.write("\n")
            with open(ep, "w") as ef:
                r = sh([exe, pp, tp] + list(extra_args), timeout=timeout, env=e, stdout=ef, stderr=ef)
            evs = read_ndjson_tolerant(tp) if os.path.exists(tp) else []
            ex = split_execs(evs)
            for j, x in enumerate(ex):
                if start + j < hi:
                    execs[start + j] = x
            if r.returncode == 0:
                break
            # crashed / timed out inside program start + len(ex) - 1
            bad = start + max(len(ex) - 1, 0)
            with open(ep, errors="replace") as ef:
                tail = ef.read()[-20000:]
            out_crashes.append((bad, r.returncode, tail))
            start = bad + 1
            rounds += 1
            if rounds > 20:
                break
        return out_crashes

    with concurrent.futures.ThreadPoolExecutor(max_workers=procs) as exr:
        for c in exr.map(one, range(procs)):
            crashes.extend(c)
    return execs, crashes


def read_ndjson_tolerant(path):
    out = []
    with open(path, errors="replace") as f:
        for line in f:
            line = line.strip()
            if not line:
                continue
            try:
                out.append(json.loads(line))
            except Exception:
                break   # truncated last line of a crashed run
    return out


def conformance(c, exe, programs, spec_dir, module, cfg, tag, meta=None, procs=8, shards=8, env=None,
                known=None, tv_timeout=1200, run_timeout=600, nontrivial=None, extra_args=(), heavy=False):
    """Run programs in the real code, validate all executions against the trace specification,
    confirm each rejection by re-running its program alone, report.  `known(program, execution, line)`
    may return a known-finding description.  Returns number of validated executions."""
    wd = os.path.join(c.dir, tag)
    t_start = time.time()
    rp = os.environ.get("VERIF_REPLAY")
    if rp:
        # bin/check <id> --replay <path>: only the saved program is executed and validated (by the conformance step whose
        # tag its file name carries; the other steps of the check are skipped)
        base = os.path.basename(rp)
        if not (base.startswith(tag + "-") and base.endswith(".prog")):
            return 0
        with open(rp) as f:
            programs = [f.read()]
        log("replaying %s" % rp)
    execs, crashes = run_programs(exe, programs, wd, tag=tag, procs=procs, timeout=run_timeout, env=env, extra_args=extra_args)
    idx = [i for i, x in enumerate(execs) if x is not None]
    for (i, rc, tail) in crashes:
        # confirm by re-running alone
        e2, c2 = run_programs(exe, [programs[i]], os.path.join(wd, "re"), tag="crash%d" % i, procs=1, timeout=run_timeout, env=env, extra_args=extra_args)
        if c2:
            # (the death of the driver is shown to the known-findings predicate as a last pseudo-event carrying the report)
            k = known(programs[i], (execs[i] or []) + [{"e": "__died__", "rc": c2[0][1], "stderr": c2[0][2]}], -1) if known else None
            if k:
                c.known(k)
                continue
            path = c.save_replay("%s-crash-%d.prog" % (tag, i), programs[i])
            c.save_replay("%s-crash-%d.stderr" % (tag, i), c2[0][2])
            rep = c2[0][2]
            key = [ln.strip() for ln in rep.splitlines() if re.search(r"SUMMARY:|ERROR: AddressSanitizer|Assertion|runtime error|LeakSanitizer|    #[0-3] ", ln)][:8]
            c.violation("driver died (rc=%d) while the library executed this program: %s" % (c2[0][1], " | ".join(key) if key else rep[-400:].replace("\n", " | ")), path)
        else:
            raise ToolFailure("driver crash on program %d did not repeat (rc=%d): %s" % (i, rc, tail[-500:]))
    crashed = set(i for (i, _, _) in crashes)
    good = [i for i in idx if i not in crashed]
    t_run = time.time()
    rej = validate_executions(spec_dir, module, cfg, [execs[i] for i in good], wd, tag=tag + "tv", shards=shards, timeout=tv_timeout, env=env, heavy=heavy)
    for (j, line) in rej:
        i = good[j]
        # re-run the program alone and validate again
        e2, c2 = run_programs(exe, [programs[i]], os.path.join(wd, "re"), tag="rej%d" % i, procs=1, timeout=run_timeout, env=env, extra_args=extra_args)
        if c2 or e2[0] is None:
            raise ToolFailure("re-run of rejected program %d crashed" % i)
        rej2 = validate_executions(spec_dir, module, cfg, [e2[0]], os.path.join(wd, "re"), tag="rejtv%d" % i, shards=1, timeout=tv_timeout, env=env)
        if not rej2:
            raise ToolFailure("rejection of program %d (event %d) did not repeat" % (i, line))
        k = known(programs[i], e2[0], rej2[0][1]) if known else None
        if k:
            c.known(k)
            continue
        path = c.save_replay("%s-%d.prog" % (tag, i), programs[i])
        c.save_replay("%s-%d.ndjson" % (tag, i), "\n".join(json.dumps(x) for x in e2[0]) + "\n")
        evs = e2[0]
        ln = rej2[0][1]
        bad = evs[ln - 1] if 0 < ln <= len(evs) else None
        c.violation("%s cannot explain event %d of the execution: %s" % (module, ln, json.dumps(bad)[:300]), path)
    log("conformance %s: %d programs, run %.0fs, validate %.0fs, %d rejected" % (tag, len(programs), t_run - t_start, time.time() - t_run, len(rej)))
    for i in good:
        nt = nontrivial(execs[i]) if nontrivial else len(execs[i]) >= 3
        c.count_case(programs[i].encode(), nt)
    c.cov["traces_validated_against_impl"] += len(good)
    for i in good[:2]:
        c.sample({"program": programs[i].strip().split("\n")[:12], "first_events": execs[i][:6]})
    shutil.rmtree(wd, ignore_errors=True)
    return len(good)
