#!/bin/sh
# confirm_seed.sh <dir with patch.diff and demo/run.sh> : confirm a seeded change in a scratch worktree of /repo
# (applies, builds, the repository's test scripts pass, the demonstration passes clean and fails changed).
# Prints one line: CONFIRM <dir> apply=<rc> build=<rc> tests=<n SUCCESS>/<n scripts> clean=<rc> changed=<rc>
d=$(cd "$1" && pwd); w=$(mktemp -d /tmp/seedcheck.XXXXXX); trap 'git -C /repo worktree remove --force "$w/t" >/dev/null 2>&1; rm -rf "$w"' EXIT
git -C /repo worktree add --detach "$w/t" HEAD >/dev/null 2>&1 || exit 2
cd "$w/t" && make all >"$w/build0.log" 2>&1
( cd "$d/demo" && timeout 300 sh ./run.sh "$w/t" >"$w/clean.out" 2>&1 ); clean=$?
git apply "$d/patch.diff" 2>"$w/apply.log"; ap=$?
make all >"$w/build1.log" 2>&1; b=$?
make test >"$w/test.log" 2>&1
ns=$(grep -c "SUCCESS" "$w/test.log"); nt=$(ls tests/*/*.sh tests/*.sh 2>/dev/null | wc -l); nf=$(grep -c "FAILED\|FAILURE" "$w/test.log")
( cd "$d/demo" && timeout 300 sh ./run.sh "$w/t" >"$w/changed.out" 2>&1 ); ch=$?
echo "CONFIRM $1 apply=$ap build=$b tests_success=$ns tests_failed=$nf clean=$clean changed=$ch"
[ "$clean" != 0 ] && tail -5 "$w/clean.out"
[ "$ch" = 0 ] && tail -5 "$w/changed.out"
exit 0
