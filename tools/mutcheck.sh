#!/bin/sh
# usage: tools/mutcheck.sh <patch.diff> <Cxx> [tier]   -- run a check against a scratch copy of /repo with the patch applied
set -e
P=$(readlink -f "$1"); ID=$2; TIER=${3:-quick}
D=$(mktemp -d /tmp/mut.XXXXXX)
trap 'rm -rf "$D"' EXIT
rsync -a --exclude .git --exclude '*.o' --exclude '*.a' /repo/ "$D/"
( cd "$D" && patch -p1 -s < "$P" )
cd /verif
set +e
VERIF_REPO="$D" timeout 3000 bin/check "$ID" --tier "$TIER" 2>&1 | tail -${TAILN:-8}
